//! C57 — prost-codec: decodes under any split exactly what was encoded; rejects a declared
//! length above its limit before buffering the payload; never panics on arbitrary input.
//!
//! Public API only (`prost_codec::Codec` as `Encoder`/`Decoder`, also inside
//! `asynchronous_codec::FramedRead` over the scripted pipe).

use crate::c25::{chunking, chunks, Chunking};
use crate::msref::{put_uvarint, uvarint, Uv};
use crate::tapio::{drive, Driven};
use asynchronous_codec::{Decoder, Encoder, FramedRead};
use bytes::BytesMut;
use futures::StreamExt;
use prost::Message as _;
use proptest::prelude::*;
use serde::{Deserialize, Serialize};
use serde_json::{json, Value};
use vcore::gen::{apply_mutations, mutation, Mutation};
use vcore::runner::catch;
use vcore::simio::{self, DirCfg, Script};
use vcore::{ensure, Ctx, Outcome};

#[derive(Clone, PartialEq, prost::Message)]
pub struct TestMsg {
    #[prost(bytes = "vec", tag = "1")]
    pub data: Vec<u8>,
    #[prost(uint64, tag = "2")]
    pub n: u64,
    #[prost(string, optional, tag = "3")]
    pub s: Option<String>,
    #[prost(uint32, repeated, tag = "4")]
    pub r: Vec<u32>,
}

pub type Codec = prost_codec::Codec<TestMsg>;

pub const MAXES: [usize; 9] = [0, 1, 127, 128, 300, 16383, 16384, 1 << 20, usize::MAX];

#[derive(Clone, Debug, Serialize, Deserialize)]
pub struct MsgSpec {
    /// payload length relative to the codec limit when `near_limit`, absolute otherwise
    pub len: u16,
    pub near_limit: Option<i8>,
    pub seed: u8,
    pub n: u64,
    pub s: Option<Vec<u8>>,
    pub r: Vec<u32>,
}

impl MsgSpec {
    pub fn build(&self, max: usize) -> TestMsg {
        let mut m = TestMsg { data: vec![], n: self.n, s: self.s.as_ref().map(|b| b.iter().map(|c| (0x20 + c % 0x5f) as char).collect()), r: self.r.clone() };
        let len = match self.near_limit {
            // aim the *encoded* length at max + delta (only for limits a test can afford)
            Some(delta) if max <= 16384 => {
                m.n = 0;
                m.s = None;
                m.r = vec![];
                let target = (max as i64 + delta as i64).max(0) as usize;
                // encoded = 1 (tag) + varint(len) + len  for len > 0
                let mut l = target.saturating_sub(2);
                while l > 0 && (TestMsg { data: vec![0; l], ..Default::default() }).encoded_len() > target {
                    l -= 1;
                }
                l
            }
            _ => self.len as usize,
        };
        m.data = (0..len).map(|i| (i as u8).wrapping_mul(13).wrapping_add(self.seed)).collect();
        m
    }
}

pub fn msg_spec() -> impl Strategy<Value = MsgSpec> {
    (
        prop_oneof![4 => 0u16..20, 3 => 100u16..400, 1 => Just(0u16)],
        prop_oneof![3 => Just(None), 2 => (-3i8..=3).prop_map(Some)],
        any::<u8>(),
        prop_oneof![Just(0u64), Just(1u64), Just(127u64), Just(128u64), any::<u64>()],
        proptest::option::weighted(0.4, proptest::collection::vec(any::<u8>(), 0..12)),
        proptest::collection::vec(any::<u32>(), 0..4),
    )
        .prop_map(|(len, near_limit, seed, n, s, r)| MsgSpec { len, near_limit, seed, n, s, r })
}

fn short(b: &[u8]) -> Value {
    let hex: String = b.iter().take(64).map(|x| format!("{x:02x}")).collect();
    json!({"len": b.len(), "hex_prefix": hex})
}

fn mshort(m: &TestMsg) -> String {
    format!("TestMsg{{data:{}B,n:{},s:{:?},r:{:?}}}", m.data.len(), m.n, m.s, m.r)
}

#[derive(Clone, Debug, PartialEq, Serialize)]
pub enum Term {
    Clean,
    NeedMore,
    Error(&'static str),
}

/// Reference: uvarint length prefix, limit check as soon as the prefix is complete, then the body
/// (decoded with prost itself: the property is about framing, not about protobuf).
pub fn ref_decode_all(b: &[u8], max: usize) -> (Vec<TestMsg>, Term) {
    let mut out = vec![];
    let mut pos = 0;
    loop {
        if pos == b.len() {
            return (out, Term::Clean);
        }
        let (len, used) = match uvarint(&b[pos..]) {
            Uv::Ok(l, u) => (l, u),
            Uv::Insufficient => return (out, Term::NeedMore),
            Uv::Bad => return (out, Term::Error("length-varint")),
        };
        if len > max as u64 {
            return (out, Term::Error("length>limit"));
        }
        let start = pos + used;
        if ((b.len() - start) as u64) < len {
            return (out, Term::NeedMore);
        }
        let end = start + len as usize;
        match TestMsg::decode(&b[start..end]) {
            Ok(m) => out.push(m),
            Err(_) => return (out, Term::Error("protobuf-body")),
        }
        pos = end;
    }
}

#[derive(Debug)]
pub struct Decoded {
    pub msgs: Vec<TestMsg>,
    /// (chunk index, bytes fed) at the first error
    pub error: Option<(usize, usize, String)>,
    pub leftover: usize,
}

pub fn real_decode(chs: &[&[u8]], max: usize) -> Result<Decoded, String> {
    catch(|| {
        let mut c = Codec::new(max);
        let mut buf = BytesMut::new();
        let mut d = Decoded { msgs: vec![], error: None, leftover: 0 };
        let mut fed = 0;
        'outer: for (i, ch) in chs.iter().enumerate() {
            buf.extend_from_slice(ch);
            fed += ch.len();
            loop {
                match c.decode(&mut buf) {
                    Ok(Some(m)) => d.msgs.push(m),
                    Ok(None) => break,
                    Err(e) => {
                        d.error = Some((i, fed, e.to_string()));
                        break 'outer;
                    }
                }
            }
        }
        d.leftover = buf.len();
        d
    })
}

// ---------------------------------------------------------------------------------------------
// roundtrip

#[derive(Clone, Debug, Serialize, Deserialize)]
pub struct RtCase {
    pub max: u8,
    pub msgs: Vec<MsgSpec>,
    pub chunking: Chunking,
    pub script: Script,
}

fn rt_check(c: &RtCase) -> Outcome {
    let max = MAXES[c.max as usize % MAXES.len()];
    let msgs: Vec<TestMsg> = c.msgs.iter().map(|m| m.build(max)).collect();
    let mut labels: Vec<&'static str> = vec![];
    let enc = catch(|| {
        let mut codec = Codec::new(max);
        let mut wire = BytesMut::new();
        let mut bounds = vec![];
        for m in &msgs {
            codec.encode(m.clone(), &mut wire).map_err(|e| e.to_string())?;
            bounds.push(wire.len());
        }
        Ok::<_, String>((wire.to_vec(), bounds))
    });
    let (wire, bounds) = match enc {
        Err(p) => return Outcome::fail("C57:panic-in-encode", json!({"panic": p})),
        Ok(Err(e)) => return Outcome::fail("C57:encode-error", json!({"err": e})),
        Ok(Ok(x)) => x,
    };
    // wire format: unsigned-varint length ++ protobuf body
    let mut spec = vec![];
    for m in &msgs {
        let body = m.encode_to_vec();
        put_uvarint(body.len() as u64, &mut spec);
        spec.extend(body);
    }
    ensure!(wire == spec, "C57:encoding-differs-from-spec", json!({"real": short(&wire), "spec": short(&spec)}));
    // what must come out: every message up to the first one above the limit, then an error
    let first_over = msgs.iter().position(|m| m.encoded_len() > max);
    let expect: &[TestMsg] = &msgs[..first_over.unwrap_or(msgs.len())];
    if first_over.is_some() {
        labels.push("message-over-limit");
    }
    if msgs.iter().any(|m| m.encoded_len() == max) {
        labels.push("message=limit");
    }
    let mut split_in_varint = false;
    let verify = |chs: &[&[u8]], how: &str| -> Option<Outcome> {
        let d = match real_decode(chs, max) {
            Err(p) => return Some(Outcome::fail("C57:panic-in-decode", json!({"panic": p, "split": how, "input": short(&wire)}))),
            Ok(d) => d,
        };
        let det = |what: &str| json!({"what": what, "split": how, "max": max, "decoded": d.msgs.iter().map(mshort).collect::<Vec<_>>(), "expected": expect.iter().map(mshort).collect::<Vec<_>>(), "error": d.error, "leftover": d.leftover, "input": short(&wire)});
        if d.msgs.as_slice() != expect {
            return Some(Outcome::fail("C57:decoded-messages-differ", det("messages")));
        }
        match (first_over, &d.error) {
            (None, Some(_)) => Some(Outcome::fail("C57:valid-stream-rejected", det("error on a stream within the limit"))),
            (None, None) if d.leftover != 0 => Some(Outcome::fail("C57:leftover-after-complete-stream", det("leftover"))),
            (Some(_), None) => Some(Outcome::fail("C57:over-limit-message-not-rejected", det("no error"))),
            (Some(i), Some((_, fed, _))) => {
                // rejected as soon as its length prefix is complete
                let start = if i == 0 { 0 } else { bounds[i - 1] };
                let mut pfx = vec![];
                put_uvarint(msgs[i].encoded_len() as u64, &mut pfx);
                let smallest_chunk_end = chs.iter().scan(0usize, |acc, ch| { *acc += ch.len(); Some(*acc) }).find(|&e| e >= start + pfx.len()).unwrap_or(wire.len());
                if *fed > smallest_chunk_end {
                    return Some(Outcome::fail("C57:over-limit-length-not-rejected-before-payload", det("error later than the chunk completing the length prefix")));
                }
                None
            }
            _ => None,
        }
    };
    let chs = chunks(&wire, &c.chunking);
    // does a chunk boundary fall inside a (multi-byte) length prefix?
    {
        let mut off = 0;
        let ends: Vec<usize> = chs.iter().map(|ch| { off += ch.len(); off }).collect();
        let mut start = 0;
        for (m, b) in msgs.iter().zip(&bounds) {
            let mut pfx = vec![];
            put_uvarint(m.encoded_len() as u64, &mut pfx);
            if pfx.len() > 1 && ends.iter().any(|&e| e > start && e < start + pfx.len()) {
                split_in_varint = true;
            }
            start = *b;
        }
    }
    if let Some(o) = verify(&chs, "generated") {
        return o;
    }
    if wire.len() <= 64 {
        labels.push("all-2-splits");
        for cut in 0..=wire.len() {
            if let Some(o) = verify(&[&wire[..cut], &wire[cut..]], "two-chunks") {
                return o;
            }
        }
        if let Some(o) = verify(&wire.chunks(1).collect::<Vec<_>>(), "bytewise") {
            return o;
        }
    }
    if split_in_varint {
        labels.push("split-inside-varint");
    }
    // the same stream through FramedRead over the scripted pipe, EOF at the end
    if wire.len() <= 70_000 {
        let (keep, end) = simio::pair(DirCfg { read: c.script.clone(), ..DirCfg::default() }, DirCfg::default());
        end.push_raw(&wire);
        end.close_incoming();
        let n_expect = expect.len();
        let r = catch(move || {
            drive(
                async move {
                    let mut fr = FramedRead::new(end, Codec::new(max));
                    let mut out = vec![];
                    let mut err = None;
                    while let Some(x) = fr.next().await {
                        match x {
                            Ok(m) => out.push(m),
                            Err(e) => {
                                err = Some(e.to_string());
                                break;
                            }
                        }
                        if out.len() > n_expect + 1 {
                            break;
                        }
                    }
                    (out, err)
                },
                400_000,
            )
        });
        drop(keep);
        match r {
            Err(p) => return Outcome::fail("C57:panic-in-framed-read", json!({"panic": p, "input": short(&wire)})),
            Ok(Driven::Stalled) => return Outcome::fail("C57:framed-read-stalled", json!({"input": short(&wire)})),
            Ok(Driven::Bound) => return Outcome::Inconclusive("framed read bound".into()),
            Ok(Driven::Ready((out, err))) => {
                ensure!(out.as_slice() == expect, "C57:framed-read-messages-differ", json!({"decoded": out.iter().map(mshort).collect::<Vec<_>>(), "expected": expect.iter().map(mshort).collect::<Vec<_>>(), "err": err}));
                ensure!(err.is_some() == first_over.is_some(), "C57:framed-read-error-mismatch", json!({"err": err, "over_limit_index": first_over}));
            }
        }
        labels.push("framed-read");
    }
    let nontrivial = expect.len() >= 2 && split_in_varint;
    Outcome::pass_l(nontrivial, labels)
}

// ---------------------------------------------------------------------------------------------
// limit: declared length above the limit, payload never supplied

#[derive(Clone, Debug, Serialize, Deserialize)]
pub struct LimCase {
    pub max: u8,
    /// declared = max + 1 + over (saturating)
    pub over: u64,
    /// payload bytes made available after the prefix
    pub supplied: u8,
    /// valid messages in front of the oversize prefix
    pub before: Vec<MsgSpec>,
}

fn lim_check(c: &LimCase) -> Outcome {
    let max = MAXES[c.max as usize % (MAXES.len() - 1)]; // not usize::MAX
    let declared = (max as u64).saturating_add(1).saturating_add(c.over);
    let mut input = vec![];
    let mut before = vec![];
    for m in &c.before {
        let m = m.build(max);
        if m.encoded_len() <= max && m.encoded_len() < 4096 {
            put_uvarint(m.encoded_len() as u64, &mut input);
            input.extend(m.encode_to_vec());
            before.push(m);
        }
    }
    let prefix_end = {
        put_uvarint(declared, &mut input);
        input.len()
    };
    input.extend(std::iter::repeat(0x11).take((c.supplied as u64).min(declared) as usize));
    let mut labels: Vec<&'static str> = vec![];
    // (1) direct: prefix only
    let d = match real_decode(&[&input[..prefix_end]], max) {
        Err(p) => return Outcome::fail("C57:panic-in-decode", json!({"panic": p, "input": short(&input)})),
        Ok(d) => d,
    };
    let det = |what: &str, extra: Value| json!({"what": what, "max": max, "declared": declared, "input": short(&input), "extra": extra});
    ensure!(d.msgs == before, "C57:decoded-messages-differ", det("messages before the oversize prefix", json!(d.msgs.len())));
    ensure!(d.error.is_some(), "C57:over-limit-length-not-rejected-before-payload", det("decode(prefix only) did not fail", json!({"leftover": d.leftover})));
    // (2) FramedRead over a pipe that delivers one byte per read and never signals EOF:
    // the error must surface without pulling a single payload byte
    let (keep, end) = simio::pair(DirCfg { read: Script::bytewise(), ..DirCfg::default() }, DirCfg::default());
    end.push_raw(&input);
    let probe = end.clone();
    let n_before = before.len();
    let r = catch(move || {
        drive(
            async move {
                let mut fr = FramedRead::new(end, Codec::new(max));
                let mut out = vec![];
                loop {
                    match fr.next().await {
                        Some(Ok(m)) => {
                            out.push(m);
                            if out.len() > n_before {
                                return (out, None, false);
                            }
                        }
                        Some(Err(e)) => return (out, Some(e.to_string()), false),
                        None => return (out, None, true),
                    }
                }
            },
            200_000,
        )
    });
    let pulled = probe.pulled() as usize;
    drop(keep);
    match r {
        Err(p) => return Outcome::fail("C57:panic-in-framed-read", json!({"panic": p, "input": short(&input)})),
        Ok(Driven::Stalled) => {
            return Outcome::fail("C57:over-limit-length-not-rejected-before-payload", det("FramedRead keeps waiting for the payload of an over-limit frame", json!({"pulled": pulled, "prefix_end": prefix_end})))
        }
        Ok(Driven::Bound) => return Outcome::Inconclusive("framed read bound".into()),
        Ok(Driven::Ready((out, err, eof))) => {
            ensure!(out == before, "C57:framed-read-messages-differ", det("messages before the oversize prefix", json!(out.len())));
            ensure!(err.is_some() && !eof, "C57:over-limit-message-not-rejected", det("no error from FramedRead", json!({"eof": eof})));
            ensure!(pulled <= prefix_end, "C57:over-limit-length-not-rejected-before-payload", det("payload bytes were pulled from the transport before the error", json!({"pulled": pulled, "prefix_end": prefix_end})));
        }
    }
    if c.over == 0 {
        labels.push("declared=limit+1");
    }
    if declared > u32::MAX as u64 {
        labels.push("declared>4GiB");
    }
    if !before.is_empty() {
        labels.push("after-valid-messages");
    }
    if c.supplied > 0 {
        labels.push("payload-available");
    }
    Outcome::pass_l(true, labels)
}

// ---------------------------------------------------------------------------------------------
// arbitrary bytes

#[derive(Clone, Debug, Serialize, Deserialize)]
pub enum ArbCase {
    Raw { max: u8, bytes: Vec<u8>, chunking: Chunking },
    Mutated { max: u8, msgs: Vec<MsgSpec>, muts: Vec<Mutation>, chunking: Chunking },
}

pub fn arb_parts(c: &ArbCase) -> (usize, Vec<u8>, &Chunking) {
    match c {
        ArbCase::Raw { max, bytes, chunking } => (MAXES[*max as usize % MAXES.len()], bytes.clone(), chunking),
        ArbCase::Mutated { max, msgs, muts, chunking } => {
            let max = MAXES[*max as usize % MAXES.len()];
            let mut v = vec![];
            for m in msgs {
                let m = m.build(max.min(2048));
                put_uvarint(m.encoded_len() as u64, &mut v);
                v.extend(m.encode_to_vec());
            }
            (max, apply_mutations(&v, muts), chunking)
        }
    }
}

/// Oracle on arbitrary bytes (shared with the fuzz target).
pub fn arb_oracle(max: usize, bytes: &[u8], chunking: &Chunking) -> Result<(usize, Term), (String, Value)> {
    let chs = chunks(bytes, chunking);
    let d = match real_decode(&chs, max) {
        Err(p) => return Err(("C57:panic-in-decode".into(), json!({"panic": p, "max": max, "input": short(bytes)}))),
        Ok(d) => d,
    };
    let (msgs, term) = ref_decode_all(bytes, max);
    let det = |what: &str| json!({"what": what, "max": max, "input": short(bytes), "real": {"msgs": d.msgs.iter().map(mshort).collect::<Vec<_>>(), "error": d.error, "leftover": d.leftover}, "spec": {"msgs": msgs.iter().map(mshort).collect::<Vec<_>>(), "end": term}});
    if d.msgs != msgs {
        let sig = if d.msgs.len() > msgs.len() { "C57:accepted-messages-the-spec-rejects" } else { "C57:decoded-messages-differ" };
        return Err((sig.into(), det("message sequence")));
    }
    match (&term, &d.error) {
        (Term::Error(_), None) => Err(("C57:malformed-input-not-rejected".into(), det("spec rejects, decoder waits or accepts"))),
        (Term::Clean | Term::NeedMore, Some(_)) => Err(("C57:valid-prefix-rejected".into(), det("decoder failed on a valid (possibly incomplete) stream"))),
        (Term::Clean, None) if d.leftover != 0 => Err(("C57:leftover-after-complete-stream".into(), det("bytes left"))),
        _ => Ok((msgs.len(), term)),
    }
}

fn arb_check(c: &ArbCase) -> Outcome {
    let (max, bytes, chunking) = arb_parts(c);
    match arb_oracle(max, &bytes, chunking) {
        Err((s, d)) => Outcome::fail(s, d),
        Ok((n, term)) => {
            let mut labels = vec![match c {
                ArbCase::Raw { .. } => "raw",
                ArbCase::Mutated { .. } => "mutated",
            }];
            labels.push(match term {
                Term::Clean => "end:clean",
                Term::NeedMore => "end:incomplete",
                Term::Error("length>limit") => "end:length>limit",
                Term::Error("protobuf-body") => "end:bad-protobuf",
                Term::Error(_) => "end:bad-varint",
            });
            if n > 0 {
                labels.push("some-messages");
            }
            Outcome::pass_l(matches!(term, Term::Error(_)) && matches!(c, ArbCase::Mutated { .. }), labels)
        }
    }
}

pub fn run(ctx: &mut Ctx) {
    ctx.assume("the protobuf body is decoded by prost on both sides of the comparison: the property is about the length-prefixed framing");
    ctx.assume("limits exercised: 0, 1, 127, 128, 300, 16383, 16384, 2^20, usize::MAX");
    ctx.check::<RtCase>(
        "roundtrip",
        "0..6 messages of a 4-field prost struct (payload sizes absolute or aimed at limit-3..limit+3 encoded bytes), limit from the list; real Encoder output == uvarint ++ protobuf; real Decoder under a generated chunking, under every two-chunk split and bytewise when <= 64 bytes, and inside FramedRead over a scripted pipe; messages above the limit must be rejected by the chunk that completes their length prefix; non-trivial = >=2 messages decoded and a chunk boundary inside a multi-byte length prefix",
        ctx.n(40_000, 1_000_000),
        &|| (0u8..9, proptest::collection::vec(msg_spec(), 0..6), chunking(), simio::script_strategy(20)).prop_map(|(max, msgs, chunking, script)| RtCase { max, msgs, chunking, script }).boxed(),
        &rt_check,
    );
    ctx.check::<LimCase>(
        "limit",
        "0..2 valid messages then a length prefix declaring limit+1+over (over in {0, small, 2^32, 2^62, max}) with 0..255 payload bytes available; Decoder::decode on the prefix alone must fail; FramedRead over a one-byte-per-read pipe without EOF must yield the error having pulled no byte beyond the prefix; every case is non-trivial",
        ctx.n(60_000, 1_500_000),
        &|| {
            (0u8..8, prop_oneof![3 => Just(0u64), 3 => 0u64..300, 1 => Just(1u64 << 32), 1 => Just(1u64 << 62), 1 => Just(u64::MAX), 1 => any::<u64>()], prop_oneof![Just(0u8), any::<u8>()], proptest::collection::vec(msg_spec(), 0..3))
                .prop_map(|(max, over, supplied, before)| LimCase { max, over, supplied, before })
                .boxed()
        },
        &lim_check,
    );
    ctx.check::<ArbCase>(
        "arbitrary",
        "raw bytes (0..64 / varint-heavy alphabet) or 1..4 structure-aware mutations of 1..4 encoded messages, every limit, generated chunking; real decoder vs reference (messages, error / incomplete / clean end), never a panic; non-trivial = mutated input the reference rejects",
        ctx.n(200_000, 5_000_000),
        &|| {
            prop_oneof![
                2 => (0u8..9, proptest::collection::vec(any::<u8>(), 0..64), chunking()).prop_map(|(max, bytes, chunking)| ArbCase::Raw { max, bytes, chunking }),
                2 => (0u8..9, proptest::collection::vec(prop_oneof![0u8..16, Just(0x80u8), Just(0xffu8), Just(0x7fu8), Just(0x0au8), any::<u8>()], 0..40), chunking()).prop_map(|(max, bytes, chunking)| ArbCase::Raw { max, bytes, chunking }),
                5 => (0u8..9, proptest::collection::vec(msg_spec(), 1..4), proptest::collection::vec(mutation(), 1..4), chunking()).prop_map(|(max, msgs, muts, chunking)| ArbCase::Mutated { max, msgs, muts, chunking }),
            ]
            .boxed()
        },
        &arb_check,
    );
    ctx.fuzz(&crate::fuzzapi::PROST_CODEC, 30_000, 600_000, crate::fuzzapi::PROST_RUNS_PER_JOB, crate::fuzzapi::FUZZ_JOBS);
}
