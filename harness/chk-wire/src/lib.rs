//! Checks for the negotiation / framing properties (C14, C15, C25, C57).
//! The library part is shared with the libFuzzer targets in /verif/fuzz.

pub mod c14;
pub mod c15;
pub mod c25;
pub mod c57;
pub mod fuzzapi;
pub mod msref;
pub mod tapio;
