//! Small I/O helpers shared by the wire checks: a recording wrapper around an I/O object and a
//! bounded single-future driver with a flag waker (so a lost wake-up is distinguishable from a
//! bound hit).

use futures::io::{AsyncRead, AsyncWrite};
use futures::task::{waker, ArcWake};
use std::future::Future;
use std::io;
use std::pin::Pin;
use std::sync::atomic::{AtomicBool, Ordering};
use std::sync::{Arc, Mutex};
use std::task::{Context, Poll};

#[derive(Default, Debug, Clone)]
pub struct TapStats {
    /// every byte handed to the reader, in order
    pub read: Vec<u8>,
    /// every byte accepted from the writer, in order
    pub written: Vec<u8>,
    /// cumulative offsets after each successful read
    pub read_bounds: Vec<usize>,
    /// cumulative offsets after each successful write
    pub write_bounds: Vec<usize>,
    pub pendings: u32,
    pub flushes: u32,
}

/// Pass-through wrapper that records the traffic of one end.
pub struct Tap<T> {
    inner: T,
    pub stats: Arc<Mutex<TapStats>>,
}

impl<T> Tap<T> {
    pub fn new(inner: T) -> (Self, Arc<Mutex<TapStats>>) {
        let stats = Arc::new(Mutex::new(TapStats::default()));
        (Tap { inner, stats: stats.clone() }, stats)
    }
}

impl<T: AsyncRead + Unpin> AsyncRead for Tap<T> {
    fn poll_read(mut self: Pin<&mut Self>, cx: &mut Context<'_>, buf: &mut [u8]) -> Poll<io::Result<usize>> {
        let r = Pin::new(&mut self.inner).poll_read(cx, buf);
        let mut s = self.stats.lock().unwrap();
        match &r {
            Poll::Ready(Ok(n)) if *n > 0 => {
                s.read.extend_from_slice(&buf[..*n]);
                let off = s.read.len();
                s.read_bounds.push(off);
            }
            Poll::Pending => s.pendings += 1,
            _ => {}
        }
        r
    }
}

impl<T: AsyncWrite + Unpin> AsyncWrite for Tap<T> {
    fn poll_write(mut self: Pin<&mut Self>, cx: &mut Context<'_>, buf: &[u8]) -> Poll<io::Result<usize>> {
        let r = Pin::new(&mut self.inner).poll_write(cx, buf);
        let mut s = self.stats.lock().unwrap();
        match &r {
            Poll::Ready(Ok(n)) if *n > 0 => {
                s.written.extend_from_slice(&buf[..*n]);
                let off = s.written.len();
                s.write_bounds.push(off);
            }
            Poll::Pending => s.pendings += 1,
            _ => {}
        }
        r
    }
    fn poll_flush(mut self: Pin<&mut Self>, cx: &mut Context<'_>) -> Poll<io::Result<()>> {
        self.stats.lock().unwrap().flushes += 1;
        Pin::new(&mut self.inner).poll_flush(cx)
    }
    fn poll_close(mut self: Pin<&mut Self>, cx: &mut Context<'_>) -> Poll<io::Result<()>> {
        Pin::new(&mut self.inner).poll_close(cx)
    }
}

struct Flag(AtomicBool);
impl ArcWake for Flag {
    fn wake_by_ref(a: &Arc<Self>) {
        a.0.store(true, Ordering::SeqCst);
    }
}

pub enum Driven<T> {
    Ready(T),
    /// returned Pending without having been woken: nothing will ever wake it
    Stalled,
    /// still making progress after `max_polls`
    Bound,
}

/// Poll a future until it is ready, it stalls (Pending with no wake-up) or the bound is hit.
pub fn drive<F: Future>(fut: F, max_polls: usize) -> Driven<F::Output> {
    let mut fut = Box::pin(fut);
    let flag = Arc::new(Flag(AtomicBool::new(false)));
    let w = waker(flag.clone());
    let mut cx = Context::from_waker(&w);
    for _ in 0..max_polls {
        flag.0.store(false, Ordering::SeqCst);
        match fut.as_mut().poll(&mut cx) {
            Poll::Ready(v) => return Driven::Ready(v),
            Poll::Pending => {
                if !flag.0.load(Ordering::SeqCst) {
                    return Driven::Stalled;
                }
            }
        }
    }
    Driven::Bound
}

/// io::ErrorKind as a stable string
pub fn kind_name(k: io::ErrorKind) -> String {
    format!("{k:?}")
}
