fn main() {
    vcore::runner::main(&[
        ("C14", chk_wire::c14::run),
        ("C15", chk_wire::c15::run),
        ("C25", chk_wire::c25::run),
        ("C57", chk_wire::c57::run),
    ])
}
