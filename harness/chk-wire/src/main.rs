fn main() {
    // `chk-wire --write-seeds <dir>`: (re)generate the golden seed corpora of the fuzz targets
    let args: Vec<String> = std::env::args().collect();
    if args.get(1).map(|s| s == "--write-seeds").unwrap_or(false) {
        let dir = std::path::PathBuf::from(args.get(2).cloned().unwrap_or_else(|| "/verif/fuzz/seeds".into()));
        match chk_wire::fuzzapi::write_seeds(&dir) {
            Ok(n) => {
                println!("{n} seed files written under {}", dir.display());
                return;
            }
            Err(e) => {
                eprintln!("cannot write seeds: {e}");
                std::process::exit(2);
            }
        }
    }
    vcore::runner::main(&[
        ("C14", chk_wire::c14::run),
        ("C15", chk_wire::c15::run),
        ("C25", chk_wire::c25::run),
        ("C57", chk_wire::c57::run),
    ])
}
