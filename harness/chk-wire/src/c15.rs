//! C15 — negotiation messages round-trip (length prefix <= 2 bytes); malformed input is rejected
//! with an error, never a panic.
//!
//! Sub-checks
//! * `roundtrip`  — generated messages through the real `Message::encode/decode` (hook mirror) and
//!                  through the real `MessageIO` over a chunked pipe.
//! * `decode`     — real `Message::decode` against an independent reference decoder on crafted
//!                  violations, structure-aware mutations of valid encodings and raw bytes.
//! * `blackbox`   — byte streams (crafted single violation / mutated conversation / raw) fed to
//!                  `listener_select_proto` / `dialer_select_proto` (V1 and V1Lazy) over a chunked pipe,
//!                  compared with the reference listener / dialer.
//! * `use-after-error` — after a V1Lazy stream reported the failure, further writes/flush/close must
//!                  not panic.

use crate::c14::{end_of, name};
use crate::msref::{self, End, RefErr, RefMsg};
use crate::tapio::{drive, kind_name, Driven};
use futures::{AsyncReadExt, AsyncWriteExt, SinkExt, StreamExt};
use multistream_select::verif::{self as ms, VerifMessageIO, VerifMsg};
use multistream_select::{dialer_select_proto, listener_select_proto, ProtocolError, Version};
use proptest::prelude::*;
use serde::{Deserialize, Serialize};
use serde_json::{json, Value};
use vcore::gen::{apply_mutations, mutation, Mutation};
use vcore::runner::catch;
use vcore::simio::{self, DirCfg, Script};
use vcore::{ensure, Ctx, Outcome};

// ---------------------------------------------------------------------------------------------
// message specs

#[derive(Clone, Debug, Serialize, Deserialize)]
pub enum MsgSpec {
    Header,
    Na,
    Ls,
    /// "/" + these printable bytes (+ optional non-ASCII suffix)
    Protocol(NameSpec),
    /// `count` names cycling through `base`
    Protocols { base: Vec<NameSpec>, count: u16 },
}

#[derive(Clone, Debug, Serialize, Deserialize)]
pub struct NameSpec {
    pub chars: Vec<u8>,
    pub unicode: bool,
}

impl NameSpec {
    pub fn build(&self) -> String {
        let mut s = String::from("/");
        for &c in &self.chars {
            s.push((0x20 + (c % 0x5f)) as char);
        }
        if self.unicode {
            s.push_str("\u{e9}\u{4e16}\u{1f600}");
        }
        s
    }
}

pub fn name_spec() -> impl Strategy<Value = NameSpec> {
    (prop_oneof![3 => proptest::collection::vec(any::<u8>(), 0..12), 1 => proptest::collection::vec(any::<u8>(), 0..=60), 1 => proptest::collection::vec(any::<u8>(), 120..=140)], prop::bool::weighted(0.15))
        .prop_map(|(chars, unicode)| NameSpec { chars, unicode })
}

pub fn msg_spec() -> impl Strategy<Value = MsgSpec> {
    prop_oneof![
        1 => Just(MsgSpec::Header),
        1 => Just(MsgSpec::Na),
        1 => Just(MsgSpec::Ls),
        4 => name_spec().prop_map(MsgSpec::Protocol),
        4 => (proptest::collection::vec(name_spec(), 0..6), prop_oneof![4 => 0u16..12, 1 => 0u16..=1000, 1 => 990u16..=1000]).prop_map(|(base, count)| MsgSpec::Protocols { base, count }),
    ]
}

impl MsgSpec {
    pub fn to_ref(&self) -> RefMsg {
        match self {
            MsgSpec::Header => RefMsg::Header,
            MsgSpec::Na => RefMsg::Na,
            MsgSpec::Ls => RefMsg::Ls,
            MsgSpec::Protocol(n) => RefMsg::Protocol(n.build()),
            MsgSpec::Protocols { base, count } => {
                if base.is_empty() {
                    RefMsg::Protocols(vec![])
                } else {
                    let names: Vec<String> = base.iter().map(|n| n.build()).collect();
                    RefMsg::Protocols((0..*count as usize).map(|i| names[i % names.len()].clone()).collect())
                }
            }
        }
    }
}

pub fn to_verif(m: &RefMsg) -> VerifMsg {
    match m {
        RefMsg::Header => VerifMsg::Header,
        RefMsg::Na => VerifMsg::Na,
        RefMsg::Ls => VerifMsg::Ls,
        RefMsg::Protocol(p) => VerifMsg::Protocol(p.clone()),
        RefMsg::Protocols(ps) => VerifMsg::Protocols(ps.clone()),
    }
}

pub fn from_verif(m: &VerifMsg) -> RefMsg {
    match m {
        VerifMsg::Header => RefMsg::Header,
        VerifMsg::Na => RefMsg::Na,
        VerifMsg::Ls => RefMsg::Ls,
        VerifMsg::Protocol(p) => RefMsg::Protocol(p.clone()),
        VerifMsg::Protocols(ps) => RefMsg::Protocols(ps.clone()),
    }
}

fn perr_class(e: &ProtocolError) -> &'static str {
    match e {
        ProtocolError::InvalidMessage => "InvalidMessage",
        ProtocolError::InvalidProtocol => "InvalidProtocol",
        ProtocolError::TooManyProtocols => "TooMany",
        ProtocolError::IoError(e) if e.kind() == std::io::ErrorKind::InvalidData => "Varint",
        ProtocolError::IoError(_) => "IoOther",
    }
}

fn rerr_class(e: RefErr) -> &'static str {
    match e {
        RefErr::InvalidMessage => "InvalidMessage",
        RefErr::InvalidProtocol => "InvalidProtocol",
        RefErr::TooMany => "TooMany",
        RefErr::Varint => "Varint",
    }
}

fn short(b: &[u8]) -> Value {
    let hex: String = b.iter().take(96).map(|x| format!("{x:02x}")).collect();
    json!({"len": b.len(), "hex_prefix": hex})
}

// ---------------------------------------------------------------------------------------------
// roundtrip

#[derive(Clone, Debug, Serialize, Deserialize)]
pub struct RtCase {
    pub msgs: Vec<MsgSpec>,
    pub cfg: DirCfg,
}

fn rt_check(c: &RtCase) -> Outcome {
    let msgs: Vec<RefMsg> = c.msgs.iter().map(|m| m.to_ref()).collect();
    let mut labels = vec![];
    let mut fit: Vec<RefMsg> = vec![];
    let mut wire_expected = vec![];
    let mut two_byte = false;
    for m in &msgs {
        // unframed encode/decode through the real code
        let vm = to_verif(m);
        let enc = match catch(|| ms::encode(&vm)) {
            Err(p) => return Outcome::fail("C15:panic-in-encode", json!({"panic": p, "msg": format!("{m:?}").chars().take(300).collect::<String>()})),
            Ok(Err(e)) => return Outcome::fail("C15:valid-message-not-encodable", json!({"err": e.to_string()})),
            Ok(Ok(b)) => b,
        };
        ensure!(enc == msref::ref_encode(m), "C15:encoding-differs-from-spec", json!({"real": short(&enc), "spec": short(&msref::ref_encode(m))}));
        match catch(|| ms::decode(&enc)) {
            Err(p) => return Outcome::fail("C15:panic-in-decode", json!({"panic": p, "input": short(&enc)})),
            Ok(Err(e)) => return Outcome::fail("C15:roundtrip-decode-error", json!({"err": e.to_string(), "class": perr_class(&e), "input": short(&enc)})),
            Ok(Ok(back)) => ensure!(from_verif(&back) == *m, "C15:roundtrip-differs", json!({"decoded": format!("{back:?}").chars().take(300).collect::<String>(), "input": short(&enc)})),
        }
        match m {
            RefMsg::Protocols(ps) if ps.len() == 1000 => labels.push("list=1000"),
            RefMsg::Protocols(ps) if ps.is_empty() => labels.push("list=0"),
            RefMsg::Protocols(_) => labels.push("list"),
            RefMsg::Protocol(p) if p == "/" => labels.push("name=/"),
            RefMsg::Protocol(_) => labels.push("name"),
            _ => labels.push("fixed-msg"),
        }
        if enc.len() <= msref::MAX_FRAME {
            if enc.len() >= 128 {
                two_byte = true;
            }
            wire_expected.extend(msref::ref_frame(&enc).unwrap());
            fit.push(m.clone());
        } else {
            labels.push("too-large-for-a-frame");
        }
    }
    if two_byte {
        labels.push("2-byte-prefix");
    }
    // framed: the real MessageIO on both ends of a chunked pipe
    let (a, b) = simio::pair(c.cfg.clone(), DirCfg::default());
    let b_probe = b.clone();
    let (a_tapped, a_stats) = crate::tapio::Tap::new(a);
    let all = msgs.clone();
    let sent = catch(move || {
        drive(
            async move {
                let mut w = VerifMessageIO::new(a_tapped);
                let mut errs = vec![];
                for (i, m) in all.iter().enumerate() {
                    if let Err(e) = w.feed(to_verif(m)).await {
                        errs.push((i, e.to_string()));
                    }
                }
                let fl = w.flush().await.map_err(|e| e.to_string());
                let cl = w.close().await.map_err(|e| e.to_string());
                (errs, fl, cl)
            },
            400_000,
        )
    });
    let (errs, fl, cl) = match sent {
        Err(p) => return Outcome::fail("C15:panic-in-framed-send", json!({"panic": p})),
        Ok(Driven::Ready(v)) => v,
        Ok(Driven::Stalled) => return Outcome::fail("C15:framed-send-stalled", json!({})),
        Ok(Driven::Bound) => return Outcome::Inconclusive("send bound".into()),
    };
    // exactly the messages that do not fit a frame are refused
    let refused: Vec<usize> = errs.iter().map(|(i, _)| *i).collect();
    let expected_refused: Vec<usize> = msgs.iter().enumerate().filter(|(_, m)| msref::ref_encode(m).len() > msref::MAX_FRAME).map(|(i, _)| i).collect();
    ensure!(refused == expected_refused, "C15:frame-size-refusal-differs", json!({"refused": errs, "expected": expected_refused}));
    ensure!(fl.is_ok() && cl.is_ok(), "C15:framed-flush-or-close-error", json!({"flush": fl, "close": cl}));
    // what is on the wire: exactly the reference framing, i.e. every body (<= 16383 bytes) behind a
    // minimal unsigned-varint length prefix of one or two bytes
    {
        let written = a_stats.lock().unwrap().written.clone();
        ensure!(written == wire_expected, "C15:framing-differs-from-spec", json!({"real": short(&written), "spec": short(&wire_expected)}));
        let mut pos = 0;
        while pos < written.len() {
            match msref::next_frame(&written, pos) {
                msref::Next::Frame { start, end } => {
                    ensure!(start - pos <= 2, "C15:length-prefix-longer-than-two-bytes", json!({"at": pos}));
                    pos = end;
                }
                other => return Outcome::fail("C15:framing-differs-from-spec", json!({"at": pos, "parse": format!("{other:?}")})),
            }
        }
    }
    let n_expect = fit.len();
    let got = catch(move || {
        drive(
            async move {
                let mut r = VerifMessageIO::new(b);
                let mut out = vec![];
                while let Some(x) = r.next().await {
                    let stop = x.is_err();
                    out.push(x.map_err(|e| e.to_string()));
                    if stop || out.len() > n_expect + 2 {
                        break;
                    }
                }
                out
            },
            400_000,
        )
    });
    let got = match got {
        Err(p) => return Outcome::fail("C15:panic-in-framed-receive", json!({"panic": p})),
        Ok(Driven::Ready(v)) => v,
        Ok(Driven::Stalled) => return Outcome::fail("C15:framed-receive-stalled", json!({})),
        Ok(Driven::Bound) => return Outcome::Inconclusive("receive bound".into()),
    };
    ensure!(b_probe.pulled() == wire_expected.len() as u64, "C15:wire-length-differs-from-spec", json!({"pulled": b_probe.pulled(), "expected": wire_expected.len()}));
    let got_ok: Vec<RefMsg> = got.iter().filter_map(|r| r.as_ref().ok().map(from_verif)).collect();
    ensure!(got.iter().all(|r| r.is_ok()) && got_ok == fit, "C15:framed-roundtrip-differs", json!({"received": got.len(), "expected": fit.len(), "first_err": got.iter().find_map(|r| r.as_ref().err().cloned())}));
    let nontrivial = fit.len() >= 1 && msgs.iter().any(|m| matches!(m, RefMsg::Protocol(_) | RefMsg::Protocols(_)));
    Outcome::pass_l(nontrivial, labels)
}

// "length prefix of at most two bytes": the reference framer is the specification (uvarint of the
// body length, bodies <= 16383 bytes); `rt_check` asserts that the number of bytes the real writer put
// on the wire equals the reference framing and that the real reader — which accepts at most two
// prefix bytes — decodes every frame.

// ---------------------------------------------------------------------------------------------
// decode differential

#[derive(Clone, Debug, Serialize, Deserialize)]
pub enum Viol {
    /// `ls` response with 1000 + extra (>=1) names
    TooMany { extra: u8 },
    /// name without the leading '/' as a proposal (`in_list` = false) or inside an `ls` response
    NoSlash { in_list: bool, chars: Vec<u8> },
    /// name that is not UTF-8
    NonUtf8 { in_list: bool, bad: u8 },
}

impl Viol {
    pub fn body(&self) -> Vec<u8> {
        match self {
            Viol::TooMany { extra } => {
                let n = 1000 + (*extra).max(1) as usize;
                let mut v = vec![];
                for i in 0..n {
                    let nm = format!("/{}", i % 7);
                    msref::put_uvarint(nm.len() as u64 + 1, &mut v);
                    v.extend_from_slice(nm.as_bytes());
                    v.push(b'\n');
                }
                v.push(b'\n');
                v
            }
            Viol::NoSlash { in_list, chars } => {
                let mut nm: Vec<u8> = chars.iter().map(|c| 0x30 + (c % 0x4b)).collect(); // '0'..'z', never '/' (0x2f) nor '\n'
                if nm.is_empty() {
                    nm.push(b'x');
                }
                // a stand-alone "ls" / "na" is not a protocol name without a slash but the valid keyword message
                if !*in_list && (nm == b"ls" || nm == b"na") {
                    nm.push(b'x');
                }
                wrap_name(&nm, *in_list)
            }
            Viol::NonUtf8 { in_list, bad } => {
                let nm = vec![b'/', b'a', 0x80 | (*bad & 0x3f), 0xff, b'b'];
                wrap_name(&nm, *in_list)
            }
        }
    }
    pub fn class(&self) -> &'static str {
        match self {
            Viol::TooMany { .. } => "TooMany",
            Viol::NoSlash { in_list: false, .. } => "InvalidMessage",
            Viol::NoSlash { in_list: true, .. } => "InvalidProtocol",
            Viol::NonUtf8 { .. } => "InvalidProtocol",
        }
    }
    pub fn label(&self) -> &'static str {
        match self {
            Viol::TooMany { .. } => "viol:>1000-protocols",
            Viol::NoSlash { in_list: false, .. } => "viol:proposal-without-slash",
            Viol::NoSlash { in_list: true, .. } => "viol:listed-name-without-slash",
            Viol::NonUtf8 { in_list: false, .. } => "viol:proposal-not-utf8",
            Viol::NonUtf8 { in_list: true, .. } => "viol:listed-name-not-utf8",
        }
    }
}

fn wrap_name(nm: &[u8], in_list: bool) -> Vec<u8> {
    let mut v = vec![];
    if in_list {
        // one valid entry, then the bad one
        v.extend_from_slice(b"\x03/a\n");
        msref::put_uvarint(nm.len() as u64 + 1, &mut v);
        v.extend_from_slice(nm);
        v.extend_from_slice(b"\n\n");
    } else {
        v.extend_from_slice(nm);
        v.push(b'\n');
    }
    v
}

pub fn viol() -> impl Strategy<Value = Viol> {
    prop_oneof![
        1 => prop_oneof![Just(1u8), 1u8..=255].prop_map(|extra| Viol::TooMany { extra }),
        3 => (any::<bool>(), proptest::collection::vec(any::<u8>(), 0..20)).prop_map(|(in_list, chars)| Viol::NoSlash { in_list, chars }),
        3 => (any::<bool>(), any::<u8>()).prop_map(|(in_list, bad)| Viol::NonUtf8 { in_list, bad }),
    ]
}

#[derive(Clone, Debug, Serialize, Deserialize)]
pub enum DecCase {
    Crafted(Viol),
    Mutated { base: MsgSpec, muts: Vec<Mutation> },
    Raw(Vec<u8>),
}

pub fn dec_bytes(c: &DecCase) -> Vec<u8> {
    match c {
        DecCase::Crafted(v) => v.body(),
        DecCase::Mutated { base, muts } => apply_mutations(&msref::ref_encode(&base.to_ref()), muts),
        DecCase::Raw(b) => b.clone(),
    }
}

/// The decode oracle on a byte string (shared with the fuzz targets): Err((signature, detail)) on violation.
pub fn decode_oracle(bytes: &[u8]) -> Result<Result<RefMsg, &'static str>, (String, Value)> {
    let model = msref::ref_decode(bytes);
    let real = match catch(|| ms::decode(bytes)) {
        Err(p) => return Err(("C15:panic-in-decode".into(), json!({"panic": p, "input": short(bytes)}))),
        Ok(r) => r,
    };
    match (&real, &model) {
        (Ok(r), Ok(m)) => {
            if from_verif(r) != *m {
                return Err(("C15:decoded-message-differs-from-spec".into(), json!({"input": short(bytes), "real": format!("{r:?}").chars().take(200).collect::<String>(), "spec": format!("{m:?}").chars().take(200).collect::<String>()})));
            }
            // whatever decodes must re-encode to the same bytes (messages have one encoding)
            match catch(|| ms::encode(r)) {
                Ok(Ok(e)) if e == bytes => {}
                other => return Err(("C15:decoded-message-does-not-reencode".into(), json!({"input": short(bytes), "reencode": format!("{other:?}").chars().take(200).collect::<String>()}))),
            }
            Ok(Ok(m.clone()))
        }
        (Ok(r), Err(e)) => Err(("C15:accepted-malformed-message".into(), json!({"input": short(bytes), "real": format!("{r:?}").chars().take(200).collect::<String>(), "spec_error": rerr_class(*e)}))),
        (Err(e), Ok(m)) => Err(("C15:rejected-valid-message".into(), json!({"input": short(bytes), "real_error": perr_class(e), "spec": format!("{m:?}").chars().take(200).collect::<String>()}))),
        (Err(e), Err(m)) => {
            if perr_class(e) != rerr_class(*m) {
                return Err(("C15:decode-error-kind-differs-from-spec".into(), json!({"input": short(bytes), "real_error": perr_class(e), "spec_error": rerr_class(*m)})));
            }
            Ok(Err(rerr_class(*m)))
        }
    }
}

fn dec_check(c: &DecCase) -> Outcome {
    let bytes = dec_bytes(c);
    let res = match decode_oracle(&bytes) {
        Err((sig, d)) => return Outcome::fail(sig, d),
        Ok(r) => r,
    };
    let mut labels = vec![];
    let nontrivial;
    match c {
        DecCase::Crafted(v) => {
            labels.push(v.label());
            // the statement's clause: these are rejected with an error
            match &res {
                Ok(_) => return Outcome::fail("C15:accepted-malformed-message", json!({"violation": v.label(), "input": short(&bytes)})),
                Err(cls) => ensure!(*cls == v.class(), "C15:violation-rejected-with-unexpected-kind", json!({"violation": v.label(), "kind": cls})),
            }
            nontrivial = true;
        }
        DecCase::Mutated { .. } => {
            labels.push("mutated");
            labels.push(match &res {
                Ok(_) => "mutated:still-valid",
                Err(k) => match *k {
                    "InvalidMessage" => "mutated:InvalidMessage",
                    "InvalidProtocol" => "mutated:InvalidProtocol",
                    "TooMany" => "mutated:TooMany",
                    _ => "mutated:Varint",
                },
            });
            nontrivial = res.is_err();
        }
        DecCase::Raw(_) => {
            labels.push(if res.is_ok() { "raw:valid" } else { "raw:rejected" });
            nontrivial = false;
        }
    }
    Outcome::pass_l(nontrivial, labels)
}

// ---------------------------------------------------------------------------------------------
// black box: byte streams into listener_select_proto / dialer_select_proto

#[derive(Clone, Copy, Debug, PartialEq, Eq, Serialize, Deserialize)]
pub enum Role {
    Listener,
    DialerV1,
    DialerLazy,
}

#[derive(Clone, Debug, Serialize, Deserialize)]
pub enum Fr {
    Header,
    Na,
    Ls,
    /// a name from the C14 pool (proposal for a listener, confirmation for a dialer)
    Name(u8),
    /// well-framed arbitrary body
    Body(Vec<u8>),
    /// valid `ls` response with `count` names
    List { count: u16 },
    /// three-byte length prefix declaring 16384 + `over` bytes, followed by `supplied` bytes
    Oversize { over: u16, supplied: u8 },
    /// two-byte prefix that is not minimal (0x80|x, 0x00)
    NonMinimalPrefix { low: u8 },
    /// single-constraint violation inside a well-framed body
    Bad(Viol),
}

impl Fr {
    pub fn bytes(&self) -> Vec<u8> {
        let framed = |b: Vec<u8>| msref::ref_frame(&b).expect("fits");
        match self {
            Fr::Header => framed(msref::HEADER.to_vec()),
            Fr::Na => framed(b"na\n".to_vec()),
            Fr::Ls => framed(b"ls\n".to_vec()),
            Fr::Name(i) => framed(msref::ref_encode(&RefMsg::Protocol(name(*i % 6)))),
            Fr::Body(b) => framed(b.clone()),
            Fr::List { count } => framed(msref::ref_encode(&RefMsg::Protocols((0..*count as usize % 1001).map(|i| format!("/{}", i % 11)).collect()))),
            Fr::Oversize { over, supplied } => {
                let mut v = vec![];
                msref::put_uvarint(16384 + *over as u64, &mut v);
                v.extend(std::iter::repeat(b'/').take(*supplied as usize));
                v
            }
            Fr::NonMinimalPrefix { low } => vec![0x80 | (low & 0x7f), 0x00, b'/', b'\n'],
            Fr::Bad(v) => framed(v.body()),
        }
    }
    fn violation(&self) -> Option<(&'static str, &'static str)> {
        match self {
            Fr::Oversize { .. } => Some(("viol:frame>16383", "IoInvalidData")),
            Fr::NonMinimalPrefix { .. } => Some(("viol:non-minimal-prefix", "IoInvalidData")),
            Fr::Bad(v) => Some((v.label(), v.class())),
            _ => None,
        }
    }
}

fn fr() -> impl Strategy<Value = Fr> {
    prop_oneof![
        3 => Just(Fr::Header),
        3 => Just(Fr::Na),
        1 => Just(Fr::Ls),
        6 => (0u8..6).prop_map(Fr::Name),
        1 => proptest::collection::vec(any::<u8>(), 0..40).prop_map(Fr::Body),
        1 => prop_oneof![0u16..5, 0u16..=1000, Just(1000u16)].prop_map(|count| Fr::List { count }),
        1 => (prop_oneof![Just(0u16), any::<u16>()], any::<u8>()).prop_map(|(over, supplied)| Fr::Oversize { over, supplied }),
        1 => any::<u8>().prop_map(|low| Fr::NonMinimalPrefix { low }),
        3 => viol().prop_map(Fr::Bad),
    ]
}

#[derive(Clone, Debug, Serialize, Deserialize)]
pub struct BbCase {
    pub role: Role,
    /// indices into the C14 name pool (0..9 for a listener, 0..6 for a dialer)
    pub protos: Vec<u8>,
    pub frames: Vec<Fr>,
    pub tail: Vec<u8>,
    pub muts: Vec<Mutation>,
    /// use `raw` instead of frames ++ tail
    pub raw: Option<Vec<u8>>,
    pub script: Script,
}

pub fn bb_strategy() -> impl Strategy<Value = BbCase> {
    (
        prop_oneof![Just(Role::Listener), Just(Role::DialerV1), Just(Role::DialerLazy)],
        proptest::collection::vec(0u8..9, 0..=4),
        (
            prop_oneof![6 => Just(vec![Fr::Header]), 1 => Just(vec![])],
            proptest::collection::vec(prop_oneof![3 => Just(Fr::Na), 4 => (0u8..6).prop_map(Fr::Name), 1 => Just(Fr::Ls), 1 => Just(Fr::Header)], 0..4),
            proptest::collection::vec(fr(), 0..3),
        )
            .prop_map(|(mut a, b, c)| {
                a.extend(b);
                a.extend(c);
                a
            }),
        proptest::collection::vec(any::<u8>(), 0..24),
        prop_oneof![3 => Just(vec![]), 2 => proptest::collection::vec(mutation(), 1..4)],
        prop_oneof![9 => Just(None), 1 => proptest::collection::vec(any::<u8>(), 0..64).prop_map(Some)],
        simio::script_strategy(30),
    )
        .prop_map(|(role, protos, frames, tail, muts, raw, script)| BbCase { role, protos, frames, tail, muts, raw, script })
}

pub fn bb_protos(c: &BbCase) -> Vec<String> {
    match c.role {
        Role::Listener => c.protos.iter().map(|&i| name(i)).collect(),
        _ => c.protos.iter().map(|&i| name(i % 6)).collect(),
    }
}

pub fn bb_input(c: &BbCase) -> Vec<u8> {
    if let Some(r) = &c.raw {
        return r.clone();
    }
    let mut v = vec![];
    for f in &c.frames {
        v.extend(f.bytes());
    }
    v.extend_from_slice(&c.tail);
    apply_mutations(&v, &c.muts)
}

#[derive(Clone, Debug, Serialize, PartialEq, Eq)]
pub struct Observed {
    pub end: End,
    /// bytes written by the code under test
    pub out: Vec<u8>,
    /// reading the negotiated stream to the end: Ok(bytes) or io::ErrorKind name
    pub read: Option<Result<Vec<u8>, String>>,
}

pub const BB_POLLS: usize = 400_000;

/// Run the real listener / dialer on a complete input stream (EOF after `inp`).
pub fn bb_real(role: Role, protos: &[String], inp: &[u8], script: &Script) -> Result<Observed, (String, Value)> {
    let (keep, end) = simio::pair(DirCfg { read: script.clone(), ..DirCfg::default() }, DirCfg::default());
    let probe = end.clone();
    probe.push_raw(inp);
    probe.close_incoming();
    let protos = protos.to_vec();
    let r = catch(move || {
        drive(
            async move {
                let res = match role {
                    Role::Listener => listener_select_proto(end, protos).await,
                    Role::DialerV1 => dialer_select_proto(end, protos, Version::V1).await,
                    Role::DialerLazy => dialer_select_proto(end, protos, Version::V1Lazy).await,
                };
                match res {
                    Ok((p, mut io)) => {
                        let mut v = vec![];
                        let rd = io.read_to_end(&mut v).await;
                        (End::Ok(p), Some(rd.map(|_| v).map_err(|e| kind_name(e.kind()))))
                    }
                    Err(e) => (end_of(&e), None),
                }
            },
            BB_POLLS,
        )
    });
    let out = probe.take_raw();
    drop(keep);
    match r {
        Err(p) => Err(("C15:panic-on-incoming-bytes".into(), json!({"panic": p, "role": format!("{role:?}"), "input": short(inp)}))),
        Ok(Driven::Stalled) => Err(("C15:stalled-on-finite-input".into(), json!({"role": format!("{role:?}"), "input": short(inp)}))),
        Ok(Driven::Bound) => Err(("bound".into(), Value::Null)),
        Ok(Driven::Ready((end, read))) => Ok(Observed { end, out, read }),
    }
}

fn read_class(e: &End) -> String {
    match e {
        End::Failed => "Other".into(),
        End::IoEof => "UnexpectedEof".into(),
        End::IoOther(k) => k.clone(),
        _ => "InvalidData".into(),
    }
}

pub fn bb_model(role: Role, protos: &[String], inp: &[u8]) -> (Observed, usize) {
    match role {
        Role::Listener => {
            let m = msref::model_listener(inp, protos);
            let read = if m.end.is_ok() { Some(Ok(inp[m.consumed..].to_vec())) } else { None };
            (Observed { end: m.end, out: m.out, read }, m.rejected)
        }
        Role::DialerV1 | Role::DialerLazy => {
            let m = msref::model_dialer(inp, protos, role == Role::DialerLazy);
            let read = if m.end.is_ok() { Some(m.read.map_err(|e| read_class(&e))) } else { None };
            (Observed { end: m.end, out: m.out, read }, m.rejected)
        }
    }
}

/// The black-box oracle (shared with the fuzz targets). Ok(labels) or Err((signature, detail)).
pub fn bb_oracle(role: Role, protos: &[String], inp: &[u8], script: &Script) -> Result<(Observed, usize), (String, Value)> {
    let real = bb_real(role, protos, inp, script)?;
    let (model, rejected) = bb_model(role, protos, inp);
    let d = |what: &str| json!({"what": what, "role": format!("{role:?}"), "protos": protos, "input": short(inp), "real": {"end": real.end, "read": real.read.as_ref().map(|r| r.as_ref().map(|b| b.len()).map_err(|e| e.clone())), "out": short(&real.out)}, "model": {"end": model.end, "read": model.read.as_ref().map(|r| r.as_ref().map(|b| b.len()).map_err(|e| e.clone())), "out": short(&model.out)}});
    if real.end.is_ok() && !model.end.is_ok() {
        return Err(("C15:accepted-malformed-input".into(), d("negotiation succeeded on input the specification rejects")));
    }
    if !real.end.is_ok() && model.end.is_ok() {
        return Err(("C15:rejected-valid-input".into(), d("negotiation failed on a valid conversation")));
    }
    if real.end != model.end {
        return Err(("C15:outcome-differs-from-model".into(), d("different protocol / error kind")));
    }
    if real.read != model.read {
        let (ro, mo) = (real.read.as_ref().map(|r| r.is_ok()), model.read.as_ref().map(|r| r.is_ok()));
        let sig = if ro == Some(true) && mo == Some(false) { "C15:lazy-stream-accepted-malformed-input" } else { "C15:stream-after-negotiation-differs-from-model" };
        return Err((sig.into(), d("reading the negotiated stream to the end")));
    }
    if real.out != model.out {
        return Err(("C15:bytes-sent-differ-from-model".into(), d("negotiation bytes written")));
    }
    Ok((real, rejected))
}

fn bb_check(c: &BbCase) -> Outcome {
    let protos = bb_protos(c);
    let inp = bb_input(c);
    let (obs, rejected) = match bb_oracle(c.role, &protos, &inp, &c.script) {
        Ok(o) => o,
        Err((sig, _)) if sig == "bound" => return Outcome::Inconclusive("poll bound".into()),
        Err((sig, d)) => return Outcome::fail(sig, d),
    };
    let mut labels: Vec<&'static str> = vec![match c.role {
        Role::Listener => "listener",
        Role::DialerV1 => "dialer-v1",
        Role::DialerLazy => "dialer-lazy",
    }];
    let kind = if c.raw.is_some() {
        "raw"
    } else if !c.muts.is_empty() {
        "mutated"
    } else {
        "crafted"
    };
    labels.push(kind);
    // the effective error class: for a lazy dialer it surfaces on the stream
    let class: String = match (&obs.end, &obs.read) {
        (End::Ok(_), Some(Ok(_))) => "Ok".into(),
        (End::Ok(_), Some(Err(k))) => format!("read:{k}"),
        (e, _) => format!("{e:?}"),
    };
    labels.push(match class.as_str() {
        "Ok" => "end:ok",
        "Failed" => "end:Failed",
        "InvalidMessage" => "end:InvalidMessage",
        "InvalidProtocol" => "end:InvalidProtocol",
        "TooMany" => "end:TooManyProtocols",
        "IoInvalidData" => "end:Io(InvalidData)",
        "IoEof" => "end:Io(UnexpectedEof)",
        s if s.starts_with("read:") => "end:lazy-read-error",
        _ => "end:other",
    });
    if rejected > 0 {
        labels.push("rejected>=1");
    }
    // non-trivial: syntactically valid frame stream with exactly one violated constraint that decided the outcome
    let viols: Vec<(&'static str, &'static str)> = c.frames.iter().filter_map(|f| f.violation()).collect();
    let mut nontrivial = false;
    if kind == "crafted" && viols.len() == 1 {
        let (label, cls) = viols[0];
        let hit = match (&obs.end, &obs.read) {
            (End::Ok(_), Some(Err(k))) => k == "InvalidData" || (cls == "InvalidMessage" && k == "Other"),
            (End::Ok(_), _) => false,
            (e, _) => format!("{e:?}") == cls || (cls == "InvalidMessage" && *e == End::Failed && rejected > 0),
        };
        if hit {
            nontrivial = true;
            labels.push(label);
        }
    }
    Outcome::pass_l(nontrivial, labels)
}

// ---------------------------------------------------------------------------------------------
// use after error on a lazily negotiated stream

#[derive(Clone, Debug, Serialize, Deserialize)]
pub struct UaeCase {
    pub proto: u8,
    pub frames: Vec<Fr>,
    pub tail: Vec<u8>,
    /// 0 write, 1 flush, 2 close
    pub then: u8,
    pub script: Script,
}

fn uae_check(c: &UaeCase) -> Outcome {
    let mut inp = vec![];
    for f in &c.frames {
        inp.extend(f.bytes());
    }
    inp.extend_from_slice(&c.tail);
    let proto = name(c.proto % 6);
    let (keep, end) = simio::pair(DirCfg { read: c.script.clone(), ..DirCfg::default() }, DirCfg::default());
    let probe = end.clone();
    probe.push_raw(&inp);
    probe.close_incoming();
    let then = c.then % 3;
    let r = catch(move || {
        drive(
            async move {
                let (_, mut io) = match dialer_select_proto(end, vec![proto], Version::V1Lazy).await {
                    Ok(x) => x,
                    Err(_) => return (false, None),
                };
                let mut v = vec![];
                let failed = io.read_to_end(&mut v).await.is_err();
                if !failed {
                    return (false, None);
                }
                // the application tidies up after the error
                let after = match then {
                    0 => io.write_all(b"x").await.map_err(|e| kind_name(e.kind())),
                    1 => io.flush().await.map_err(|e| kind_name(e.kind())),
                    _ => io.close().await.map_err(|e| kind_name(e.kind())),
                };
                (true, Some(after))
            },
            BB_POLLS,
        )
    });
    drop(keep);
    let label = ["then:write", "then:flush", "then:close"][then as usize];
    match r {
        Err(p) if p.contains("Negotiated: Invalid state") => Outcome::fail("C15:panic-negotiated-invalid-state-after-failed-read", json!({"panic": p, "then": label, "input": short(&inp)})),
        Err(p) => Outcome::fail("C15:panic-on-incoming-bytes", json!({"panic": p, "then": label, "input": short(&inp)})),
        Ok(Driven::Stalled) => Outcome::fail("C15:stalled-on-finite-input", json!({"input": short(&inp)})),
        Ok(Driven::Bound) => Outcome::Inconclusive("poll bound".into()),
        Ok(Driven::Ready((failed, _))) => Outcome::pass_l(failed, vec![if failed { label } else { "negotiation-succeeded" }]),
    }
}

// ---------------------------------------------------------------------------------------------

pub fn run(ctx: &mut Ctx) {
    ctx.assume("hook multistream_select::verif mirrors Message 1:1 and calls the real Message::encode/decode and MessageIO");
    ctx.assume("the reference codec / reference listener / reference dialer in chk-wire/src/msref.rs are the specification for what counts as malformed");
    ctx.check::<RtCase>(
        "roundtrip",
        "1..4 messages (names '/'+[ -~]{0,60} or 120..140 chars, optional non-ASCII suffix; lists of 0..1000 names) through Message::encode/decode and through MessageIO over a pipe with generated chunk/Pending scripts; non-trivial = at least one framed Protocol/Protocols message",
        ctx.n(30_000, 600_000),
        &|| (proptest::collection::vec(msg_spec(), 1..4), simio::dircfg_strategy(30)).prop_map(|(msgs, cfg)| RtCase { msgs, cfg }).boxed(),
        &rt_check,
    );
    ctx.check::<DecCase>(
        "decode",
        "Message::decode vs reference decoder on (a) one crafted violation (>1000 names, name without '/', non-UTF-8 name; as proposal or inside a list), (b) 1..5 structure-aware mutations of a valid encoding, (c) raw bytes; non-trivial = crafted, or mutated and rejected",
        ctx.n(150_000, 4_000_000),
        &|| {
            prop_oneof![
                2 => viol().prop_map(DecCase::Crafted),
                5 => (msg_spec(), proptest::collection::vec(mutation(), 1..5)).prop_map(|(base, muts)| DecCase::Mutated { base, muts }),
                1 => proptest::collection::vec(any::<u8>(), 0..80).prop_map(DecCase::Raw),
                1 => proptest::collection::vec(prop_oneof![Just(b'/'), Just(b'\n'), 0u8..6, 0x61u8..0x64], 0..24).prop_map(DecCase::Raw),
            ]
            .boxed()
        },
        &dec_check,
    );
    ctx.check::<BbCase>(
        "blackbox",
        "byte stream (header? ++ 0..3 of {na, name, ls, header} ++ 0..2 frames from {header, na, ls, pool name, arbitrary body, list, >16383 frame, non-minimal prefix, single-constraint violation} ++ tail; optionally 1..3 mutations; or raw bytes) then EOF, fed to listener_select_proto / dialer_select_proto V1 / V1Lazy over a pipe with a generated read script; outcome, stream content and bytes sent compared with the reference; non-trivial = unmutated stream with exactly one violating frame whose error class decided the outcome",
        ctx.n(150_000, 4_000_000),
        &|| bb_strategy().boxed(),
        &bb_check,
    );
    ctx.check::<UaeCase>(
        "use-after-error",
        "V1Lazy dialer with one protocol; generated response stream; if reading the stream fails the application then writes / flushes / closes once: must not panic; non-trivial = the read failed",
        ctx.n(20_000, 400_000),
        &|| (0u8..6, proptest::collection::vec(fr(), 0..4), proptest::collection::vec(any::<u8>(), 0..8), 0u8..3, simio::script_strategy(10)).prop_map(|(proto, frames, tail, then, script)| UaeCase { proto, frames, tail, then, script }).boxed(),
        &uae_check,
    );
    // same oracles on libFuzzer-style inputs: committed seeds + proptest-mutated seeds (both tiers),
    // coverage-guided libFuzzer campaign with a fixed -runs (thorough tier)
    ctx.fuzz(&crate::fuzzapi::MS_LISTENER, 30_000, 600_000, crate::fuzzapi::MS_LISTENER_RUNS_PER_JOB, crate::fuzzapi::FUZZ_JOBS);
    ctx.fuzz(&crate::fuzzapi::MS_DIALER, 30_000, 600_000, crate::fuzzapi::MS_DIALER_RUNS_PER_JOB, crate::fuzzapi::FUZZ_JOBS);
}
