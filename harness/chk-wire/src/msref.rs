//! Reference implementation of the multistream-select wire format and of the
//! dialer / listener negotiation logic, written from the specification and the public
//! documentation, independently of `/repo/misc/multistream-select`.
//!
//! Used as the model side of the differential oracles in C14 / C15 and by the fuzz targets.

use serde::{Deserialize, Serialize};

pub const HEADER: &[u8] = b"/multistream/1.0.0\n";
pub const MAX_FRAME: usize = 16383;
pub const MAX_PROTOCOLS: usize = 1000;

#[derive(Clone, Debug, PartialEq, Eq, Serialize, Deserialize)]
pub enum RefMsg {
    Header,
    Protocol(String),
    Ls,
    Protocols(Vec<String>),
    Na,
}

#[derive(Clone, Copy, Debug, PartialEq, Eq, Serialize, Deserialize)]
pub enum RefErr {
    /// well-framed but not a message
    InvalidMessage,
    /// a protocol name without leading '/' or not UTF-8
    InvalidProtocol,
    /// more than 1000 names in an `ls` response
    TooMany,
    /// malformed varint inside an `ls` response
    Varint,
}

pub enum Uv {
    Ok(u64, usize),
    Insufficient,
    Bad,
}

/// unsigned varint as used for lengths (at most 10 bytes, minimal encoding required)
pub fn uvarint(b: &[u8]) -> Uv {
    let mut v: u64 = 0;
    for (i, &x) in b.iter().enumerate() {
        if i >= 10 {
            return Uv::Bad;
        }
        v |= ((x & 0x7f) as u64).wrapping_shl(7 * i as u32);
        if x & 0x80 == 0 {
            if x == 0 && i > 0 {
                return Uv::Bad;
            }
            return Uv::Ok(v, i + 1);
        }
        if i == 9 {
            return Uv::Bad;
        }
    }
    Uv::Insufficient
}

pub fn put_uvarint(mut v: u64, out: &mut Vec<u8>) {
    loop {
        let b = (v & 0x7f) as u8;
        v >>= 7;
        if v == 0 {
            out.push(b);
            return;
        }
        out.push(b | 0x80);
    }
}

pub fn ref_encode(m: &RefMsg) -> Vec<u8> {
    match m {
        RefMsg::Header => HEADER.to_vec(),
        RefMsg::Na => b"na\n".to_vec(),
        RefMsg::Ls => b"ls\n".to_vec(),
        RefMsg::Protocol(p) => {
            let mut v = p.as_bytes().to_vec();
            v.push(b'\n');
            v
        }
        RefMsg::Protocols(ps) => {
            let mut v = vec![];
            for p in ps {
                put_uvarint(p.len() as u64 + 1, &mut v);
                v.extend_from_slice(p.as_bytes());
                v.push(b'\n');
            }
            v.push(b'\n');
            v
        }
    }
}

fn name(b: &[u8]) -> Result<String, RefErr> {
    if b.first() != Some(&b'/') {
        return Err(RefErr::InvalidProtocol);
    }
    String::from_utf8(b.to_vec()).map_err(|_| RefErr::InvalidProtocol)
}

pub fn ref_decode(b: &[u8]) -> Result<RefMsg, RefErr> {
    if b == HEADER {
        return Ok(RefMsg::Header);
    }
    if b == b"na\n" {
        return Ok(RefMsg::Na);
    }
    if b == b"ls\n" {
        return Ok(RefMsg::Ls);
    }
    if b.len() >= 2 && b[0] == b'/' && b[b.len() - 1] == b'\n' && !b[..b.len() - 1].contains(&b'\n') {
        return Ok(RefMsg::Protocol(name(&b[..b.len() - 1])?));
    }
    let mut rest = b;
    let mut out = vec![];
    loop {
        if rest == b"\n" {
            return Ok(RefMsg::Protocols(out));
        }
        if out.len() == MAX_PROTOCOLS {
            return Err(RefErr::TooMany);
        }
        let (len, used) = match uvarint(rest) {
            Uv::Ok(l, u) => (l, u),
            _ => return Err(RefErr::Varint),
        };
        let tail = &rest[used..];
        if len == 0 || len > tail.len() as u64 {
            return Err(RefErr::InvalidMessage);
        }
        let len = len as usize;
        if tail[len - 1] != b'\n' {
            return Err(RefErr::InvalidMessage);
        }
        out.push(name(&tail[..len - 1])?);
        rest = &tail[len..];
    }
}

/// length-prefix a message body. None if it does not fit a frame.
pub fn ref_frame(body: &[u8]) -> Option<Vec<u8>> {
    if body.len() > MAX_FRAME {
        return None;
    }
    let mut v = vec![];
    put_uvarint(body.len() as u64, &mut v);
    v.extend_from_slice(body);
    Some(v)
}

pub fn frame_msg(m: &RefMsg) -> Vec<u8> {
    ref_frame(&ref_encode(m)).expect("fits")
}

#[derive(Clone, Copy, Debug, PartialEq, Eq)]
pub enum Next {
    /// frame body is `b[start..end]`
    Frame { start: usize, end: usize },
    /// stream ended at a frame boundary
    CleanEof,
    /// stream ended inside a prefix or body
    TruncEof,
    /// length prefix longer than two bytes or not minimal
    BadPrefix,
}

/// Next frame of a complete (EOF-terminated) stream starting at `pos`.
pub fn next_frame(b: &[u8], pos: usize) -> Next {
    let r = &b[pos.min(b.len())..];
    if r.is_empty() {
        return Next::CleanEof;
    }
    let (len, hdr) = if r[0] & 0x80 == 0 {
        (r[0] as usize, 1)
    } else {
        if r.len() < 2 {
            return Next::TruncEof;
        }
        if r[1] & 0x80 != 0 || r[1] == 0 {
            return Next::BadPrefix;
        }
        (((r[0] & 0x7f) as usize) | ((r[1] as usize) << 7), 2)
    };
    if r.len() < hdr + len {
        return Next::TruncEof;
    }
    Next::Frame { start: pos + hdr, end: pos + hdr + len }
}

/// How a negotiation ended, as a comparable class.
#[derive(Clone, Debug, PartialEq, Eq, Serialize, Deserialize)]
pub enum End {
    Ok(String),
    Failed,
    InvalidMessage,
    InvalidProtocol,
    TooMany,
    /// I/O error with kind InvalidData (bad prefix, oversize frame, malformed inner varint)
    IoInvalidData,
    /// I/O error with kind UnexpectedEof
    IoEof,
    /// any other I/O error (kind name)
    IoOther(String),
}

impl End {
    pub fn is_ok(&self) -> bool {
        matches!(self, End::Ok(_))
    }
}

fn err_end(e: RefErr) -> End {
    match e {
        RefErr::InvalidMessage => End::InvalidMessage,
        RefErr::InvalidProtocol => End::InvalidProtocol,
        RefErr::TooMany => End::TooMany,
        RefErr::Varint => End::IoInvalidData,
    }
}

pub fn valid_name(s: &str) -> bool {
    s.starts_with('/')
}

/// Result of the reference listener on a complete input stream.
#[derive(Clone, Debug, PartialEq, Eq)]
pub struct ListenerRun {
    pub end: End,
    /// bytes the listener must have written
    pub out: Vec<u8>,
    /// input offset where application data starts (meaningful when `end` is Ok)
    pub consumed: usize,
    /// number of proposals rejected with `na`
    pub rejected: usize,
    /// true when the failure was decided while the last message sent was `na`
    pub after_na: bool,
}

/// Reference listener: `protos` as handed to `listener_select_proto` (invalid names are ignored).
pub fn model_listener(inp: &[u8], protos: &[String]) -> ListenerRun {
    let supported: Vec<&String> = protos.iter().filter(|p| valid_name(p)).collect();
    let mut out = vec![];
    let mut pos = 0;
    let mut rejected = 0;
    let mut last_na = false;
    let fin = |end: End, out: Vec<u8>, pos: usize, rejected: usize, after_na: bool| ListenerRun { end, out, consumed: pos, rejected, after_na };
    // header
    match next_frame(inp, pos) {
        Next::CleanEof => return fin(End::Failed, out, pos, 0, false),
        Next::TruncEof => return fin(End::IoEof, out, pos, 0, false),
        Next::BadPrefix => return fin(End::IoInvalidData, out, pos, 0, false),
        Next::Frame { start, end } => {
            pos = end;
            match ref_decode(&inp[start..end]) {
                Ok(RefMsg::Header) => {}
                Ok(_) => return fin(End::InvalidMessage, out, pos, 0, false),
                Err(e) => return fin(err_end(e), out, pos, 0, false),
            }
        }
    }
    out.extend(frame_msg(&RefMsg::Header));
    loop {
        match next_frame(inp, pos) {
            Next::CleanEof => return fin(End::Failed, out, pos, rejected, last_na),
            Next::TruncEof => return fin(if last_na { End::Failed } else { End::IoEof }, out, pos, rejected, last_na),
            // anything unreadable after a rejection is the application data of an optimistic
            // (V1Lazy) dialer: a failed negotiation, not a protocol violation
            Next::BadPrefix => return fin(if last_na { End::Failed } else { End::IoInvalidData }, out, pos, rejected, last_na),
            Next::Frame { start, end } => {
                pos = end;
                match ref_decode(&inp[start..end]) {
                    Err(e) => return fin(if last_na { End::Failed } else { err_end(e) }, out, pos, rejected, last_na),
                    Ok(RefMsg::Ls) => {
                        let body = ref_encode(&RefMsg::Protocols(supported.iter().map(|s| (*s).clone()).collect()));
                        match ref_frame(&body) {
                            Some(f) => out.extend(f),
                            None => return fin(End::IoInvalidData, out, pos, rejected, last_na),
                        }
                        last_na = false;
                    }
                    Ok(RefMsg::Protocol(p)) => {
                        if let Some(s) = supported.iter().find(|s| ***s == p) {
                            out.extend(frame_msg(&RefMsg::Protocol(p.clone())));
                            return fin(End::Ok((*s).clone()), out, pos, rejected, false);
                        }
                        out.extend(frame_msg(&RefMsg::Na));
                        rejected += 1;
                        last_na = true;
                    }
                    Ok(_) => return fin(End::InvalidMessage, out, pos, rejected, last_na),
                }
            }
        }
    }
}

/// Result of the reference dialer on a complete input stream.
#[derive(Clone, Debug, PartialEq, Eq)]
pub struct DialerRun {
    /// result of `dialer_select_proto`
    pub end: End,
    /// negotiation bytes the dialer must have written once everything is flushed
    pub out: Vec<u8>,
    /// the future resolved optimistically (V1Lazy on the last protocol)
    pub lazy: bool,
    /// outcome of reading the returned stream to the end: Ok(application bytes) or the error class
    pub read: Result<Vec<u8>, End>,
    pub rejected: usize,
}

/// Reference dialer: `protos` are valid names.
pub fn model_dialer(inp: &[u8], protos: &[String], lazy_version: bool) -> DialerRun {
    let mut out = vec![];
    let mk = |end: End, out: Vec<u8>, lazy: bool, read: Result<Vec<u8>, End>, rejected: usize| DialerRun { end, out, lazy, read, rejected };
    if protos.is_empty() {
        return mk(End::Failed, out, false, Err(End::Failed), 0);
    }
    out.extend(frame_msg(&RefMsg::Header));
    let mut i = 0;
    let mut pos = 0;
    loop {
        out.extend(frame_msg(&RefMsg::Protocol(protos[i].clone())));
        if lazy_version && i + 1 == protos.len() {
            // optimistic: confirmation is read by the first read on the returned stream
            let read = model_expecting(inp, pos, &protos[i]);
            return mk(End::Ok(protos[i].clone()), out, true, read, i);
        }
        // await
        loop {
            match next_frame(inp, pos) {
                Next::CleanEof => return mk(End::Failed, out, false, Err(End::Failed), i),
                Next::TruncEof => return mk(End::IoEof, out, false, Err(End::IoEof), i),
                Next::BadPrefix => return mk(End::IoInvalidData, out, false, Err(End::IoInvalidData), i),
                Next::Frame { start, end } => {
                    pos = end;
                    match ref_decode(&inp[start..end]) {
                        Err(e) => return mk(err_end(e), out, false, Err(err_end(e)), i),
                        Ok(RefMsg::Header) => continue,
                        Ok(RefMsg::Protocol(p)) if p == protos[i] => {
                            return mk(End::Ok(p), out, false, Ok(inp[pos..].to_vec()), i);
                        }
                        Ok(RefMsg::Na) => {
                            i += 1;
                            if i == protos.len() {
                                return mk(End::Failed, out, false, Err(End::Failed), i);
                            }
                            break;
                        }
                        Ok(_) => return mk(End::InvalidMessage, out, false, Err(End::InvalidMessage), i),
                    }
                }
            }
        }
    }
}

/// What reading a lazily negotiated stream to the end yields.
pub fn model_expecting(inp: &[u8], mut pos: usize, proto: &str) -> Result<Vec<u8>, End> {
    let mut header_expected = true;
    loop {
        match next_frame(inp, pos) {
            Next::CleanEof | Next::TruncEof => return Err(End::IoEof),
            Next::BadPrefix => return Err(End::IoInvalidData),
            Next::Frame { start, end } => {
                pos = end;
                match ref_decode(&inp[start..end]) {
                    Err(e) => return Err(err_end(e)),
                    Ok(RefMsg::Header) if header_expected => header_expected = false,
                    Ok(RefMsg::Protocol(p)) if p == proto => return Ok(inp[pos..].to_vec()),
                    Ok(_) => return Err(End::Failed),
                }
            }
        }
    }
}
