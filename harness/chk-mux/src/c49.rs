//! C49 — relay circuit copy: exact prefixes in both directions, byte limit, duration limit.
//!
//! The real `CopyFuture` (hook `libp2p_relay::verif_copy`) runs as the only task of a harness-owned
//! executor between two in-memory pipes; the harness plays both circuit ends (writes, partial reads,
//! EOFs) and decides when the future is polled.

use futures::io::AsyncRead;
use futures::task::noop_waker;
use proptest::prelude::*;
use serde::{Deserialize, Serialize};
use serde_json::json;
use std::io;
use std::pin::Pin;
use std::task::{Context, Poll};
use std::time::{Duration, Instant};
use vcore::simexec::{Exec, Slot};
use vcore::simio::{self, DirCfg, Duplex};
use vcore::{Ctx, Outcome};

const READ_BUF: u64 = 8192; // futures::io::BufReader default capacity = "one read buffer"
const SHORT: Duration = Duration::from_millis(40);
const LONG: Duration = Duration::from_secs(10);
/// the harness' own timer is created after the circuit's and expires this much later (see `Sentinel`)
const SENTINEL_EXTRA: Duration = Duration::from_millis(10);
/// upper bound for waiting on the harness' own timer (the timer thread is starved): Inconclusive, never a violation
const SENTINEL_PATIENCE: Duration = Duration::from_secs(20);

/// A `futures_timer::Delay` of the harness, created *after* the circuit's duration timer and expiring strictly later.
/// Both live on the same global timer (one helper thread, one heap ordered by expiry; an expired entry is marked and its
/// waker called before the next entry is looked at), so once the sentinel reports `Ready` the circuit's timer has expired
/// *and* has been marked so: a poll of the copy future from then on finds its timer ready whatever the machine load is.
struct Sentinel(futures_timer::Delay);

impl Sentinel {
    fn new(circuit_duration: Duration) -> Self {
        Sentinel(futures_timer::Delay::new(circuit_duration + SENTINEL_EXTRA))
    }
    fn fired(&mut self) -> bool {
        let w = noop_waker();
        let mut cx = Context::from_waker(&w);
        std::future::Future::poll(Pin::new(&mut self.0), &mut cx).is_ready()
    }
    /// wait (real time) until the sentinel fired; `idle` is called between looks. false = gave up.
    fn wait(&mut self, idle: &mut dyn FnMut() -> bool) -> bool {
        let t0 = Instant::now();
        loop {
            if self.fired() {
                return true;
            }
            if idle() {
                return true;
            }
            if t0.elapsed() > SENTINEL_PATIENCE {
                return false;
            }
            std::thread::sleep(Duration::from_millis(1));
        }
    }
}

#[derive(Clone, Debug, Serialize, Deserialize)]
pub enum COp {
    /// side (0 = A, 1 = B) writes n bytes towards the relay
    Write(u8, u16),
    /// side reads at most n bytes of what the relay forwarded to it
    Read(u8, u16),
    /// side closes its write direction
    Eof(u8),
    /// poll the copy future if it was woken
    Poll,
    /// poll the copy future even if it was not woken
    Spurious,
}

#[derive(Clone, Debug, Serialize, Deserialize)]
pub struct Case {
    /// 0 = unlimited
    max_bytes: u32,
    short_timer: bool,
    /// [A→relay, relay→A, B→relay, relay→B]
    dirs: [DirCfg; 4],
    ops: Vec<COp>,
}

fn dir(cap: bool) -> impl Strategy<Value = DirCfg> {
    (simio::dircfg_strategy(10), if cap { prop_oneof![2 => Just(None), 1 => (1u32..=200).prop_map(Some), 1 => (201u32..=20000).prop_map(Some)].boxed() } else { Just(None).boxed() })
        .prop_map(|(mut d, c)| {
            d.capacity = c;
            d
        })
}

fn op() -> impl Strategy<Value = COp> {
    let side = 0u8..=1;
    prop_oneof![
        6 => (side.clone(), prop_oneof![3 => 1u16..=64, 2 => 65u16..=4000, 2 => 4001u16..=20000]).prop_map(|(s, n)| COp::Write(s, n)),
        4 => (side.clone(), prop_oneof![1 => 1u16..=64, 3 => 65u16..=30000]).prop_map(|(s, n)| COp::Read(s, n)),
        1 => side.prop_map(COp::Eof),
        5 => Just(COp::Poll),
        1 => Just(COp::Spurious),
    ]
}

fn strategy() -> impl Strategy<Value = Case> {
    (
        prop_oneof![2 => Just(0u32), 3 => 1u32..=200, 3 => 201u32..=9000, 3 => 9001u32..=40000],
        prop::bool::weighted(0.08),
        [dir(false), dir(true), dir(false), dir(true)],
        proptest::collection::vec(op(), 0..=30),
    )
        .prop_map(|(max_bytes, short_timer, dirs, ops)| Case { max_bytes, short_timer, dirs, ops })
}

struct Side {
    /// harness end
    h: Duplex,
    /// clone of the relay end (counters, raw injection)
    r: Duplex,
    sent: Vec<u8>,
    recv: Vec<u8>,
    eof_sent: bool,
    eof_seen: bool,
    ctr: u32,
}

impl Side {
    fn write(&mut self, n: usize) {
        if self.eof_sent {
            return;
        }
        let v: Vec<u8> = (0..n)
            .map(|_| {
                self.ctr = self.ctr.wrapping_mul(1664525).wrapping_add(1013904223);
                (self.ctr >> 24) as u8
            })
            .collect();
        self.r.push_raw(&v);
        self.sent.extend_from_slice(&v);
    }
    /// one read of at most n bytes on the harness end; returns bytes read
    fn read(&mut self, n: usize) -> io::Result<usize> {
        let w = noop_waker();
        let mut cx = Context::from_waker(&w);
        let mut buf = vec![0u8; n.max(1)];
        // the pipe's own read script may answer Pending a few times
        for _ in 0..64 {
            match Pin::new(&mut self.h).poll_read(&mut cx, &mut buf) {
                Poll::Ready(Ok(0)) => {
                    self.eof_seen = true;
                    return Ok(0);
                }
                Poll::Ready(Ok(k)) => {
                    self.recv.extend_from_slice(&buf[..k]);
                    return Ok(k);
                }
                Poll::Ready(Err(e)) => return Err(e),
                Poll::Pending => {
                    if self.h.incoming_queued() == 0 {
                        return Ok(0);
                    }
                }
            }
        }
        Ok(0)
    }
}

fn check(case: &Case) -> Outcome {
    let [a_in, a_out, b_in, b_out] = case.dirs.clone();
    let (a_h, a_r) = simio::pair(a_in, a_out);
    let (b_h, b_r) = simio::pair(b_in, b_out);
    let mut sides = [
        Side { h: a_h, r: a_r.clone(), sent: vec![], recv: vec![], eof_sent: false, eof_seen: false, ctr: 1 },
        Side { h: b_h, r: b_r.clone(), sent: vec![], recv: vec![], eof_sent: false, eof_seen: false, ctr: 2 },
    ];
    let max = case.max_bytes as u64;
    let dur = if case.short_timer { SHORT } else { LONG };
    let start = Instant::now();
    let fut = libp2p_relay::verif_copy(a_r, b_r, dur, max);
    let mut sentinel = if case.short_timer { Some(Sentinel::new(dur)) } else { None };
    let result: Slot<(io::Result<()>, Duration)> = Slot::new();
    let r2 = result.clone();
    let ex = Exec::new();
    ex.spawn(async move {
        let r = fut.await;
        r2.set((r, start.elapsed()));
    });

    let mut labels: Vec<&'static str> = vec![];
    macro_rules! prefix_check {
        () => {
            for (i, j) in [(0usize, 1usize), (1, 0)] {
                if !sides[i].sent.starts_with(&sides[j].recv) {
                    let pos = sides[j].recv.iter().zip(sides[i].sent.iter()).position(|(x, y)| x != y);
                    return Outcome::fail(
                        "C49:received-bytes-not-a-prefix-of-written",
                        json!({"writer": i, "written": sides[i].sent.len(), "received": sides[j].recv.len(), "first_diff": pos}),
                    );
                }
            }
        };
    }
    for op in &case.ops {
        match op {
            COp::Write(s, n) => sides[*s as usize].write(*n as usize),
            COp::Read(s, n) => {
                if let Err(e) = sides[*s as usize].read(*n as usize) {
                    return Outcome::fail("C49:harness-read-error", json!({"error": format!("{e:?}")}));
                }
                prefix_check!();
            }
            COp::Eof(s) => {
                let sd = &mut sides[*s as usize];
                sd.eof_sent = true;
                sd.r.close_incoming();
            }
            COp::Poll => {
                ex.step(0);
            }
            COp::Spurious => {
                ex.poll_task(0);
            }
        }
    }
    // final phase: poll to quiescence, reading everything the relay forwards
    let mut rounds = 0;
    loop {
        rounds += 1;
        if rounds > 200_000 {
            return Outcome::Inconclusive("copy future did not quiesce within 200000 drain rounds".into());
        }
        if !ex.drain(100_000) {
            return Outcome::Inconclusive("copy future kept waking for 100000 polls".into());
        }
        let mut progress = false;
        for s in sides.iter_mut() {
            while s.h.incoming_queued() > 0 {
                match s.read(65536) {
                    Ok(0) => break,
                    Ok(_) => progress = true,
                    Err(e) => return Outcome::fail("C49:harness-read-error", json!({"error": format!("{e:?}")})),
                }
            }
        }
        prefix_check!();
        if !progress && ex.runnable().is_empty() {
            break;
        }
    }
    for s in sides.iter_mut() {
        // observe EOF propagation (a read on an empty, closed pipe)
        let _ = s.read(1);
    }
    // bytes the future wrote towards each circuit end
    let forwarded = sides[0].r.written() + sides[1].r.written();
    let detail = |sides: &[Side; 2], res: &str| {
        json!({"max_circuit_bytes": max, "forwarded": forwarded, "result": res,
               "a_written": sides[0].sent.len(), "b_written": sides[1].sent.len(),
               "a_received": sides[0].recv.len(), "b_received": sides[1].recv.len(),
               "a_eof": sides[0].eof_sent, "b_eof": sides[1].eof_sent})
    };
    if max > 0 && forwarded > max + 2 * READ_BUF {
        return Outcome::fail("C49:forwarded-more-than-limit-plus-two-buffers", detail(&sides, "-"));
    }
    let mut res = result.take();
    let mut waited_for_timer = false;
    if let (None, Some(sen)) = (&res, sentinel.as_mut()) {
        // nothing else can wake the future now: only the duration limit remains. The future is polled whenever it was
        // woken; once the harness' later timer has fired the circuit's has too, and the future gets one more poll
        waited_for_timer = true;
        let r3 = result.clone();
        let fired = sen.wait(&mut || {
            ex.drain(10_000);
            r3.is_set()
        });
        if !fired {
            return Outcome::Inconclusive(format!("the harness' own {:?} timer did not fire within {SENTINEL_PATIENCE:?} (timer thread starved; not a violation)", SHORT + SENTINEL_EXTRA));
        }
        let woken = !ex.runnable().is_empty();
        if !result.is_set() {
            ex.poll_task(0);
            ex.drain(10_000);
        }
        res = result.take();
        if res.is_none() {
            return Outcome::fail(
                "C49:no-timeout-when-polled-after-max-duration",
                json!({"duration_ms": dur.as_millis() as u64, "elapsed_ms": start.elapsed().as_millis() as u64, "runnable_when_the_deadline_had_passed": woken, "a_eof": sides[0].eof_sent, "b_eof": sides[1].eof_sent,
                       "a_written": sides[0].sent.len(), "b_written": sides[1].sent.len(), "polls": ex.total_polls()}),
            );
        }
    }
    let all_delivered = sides[1].recv == sides[0].sent && sides[0].recv == sides[1].sent;
    match res {
        None => {
            // still running
            if max > 0 && forwarded > max {
                return Outcome::fail("C49:limit-exceeded-without-error", detail(&sides, "Pending"));
            }
            if !all_delivered {
                return Outcome::fail("C49:bytes-not-forwarded", detail(&sides, "Pending"));
            }
            if sides[0].eof_sent && sides[1].eof_sent {
                return Outcome::fail("C49:no-completion-after-both-eof", detail(&sides, "Pending"));
            }
            for (i, j) in [(0usize, 1usize), (1, 0)] {
                if sides[i].eof_sent && !sides[j].eof_seen {
                    return Outcome::fail("C49:eof-not-propagated", detail(&sides, "Pending"));
                }
            }
            labels.push("still_running");
            if sides[0].eof_sent || sides[1].eof_sent {
                labels.push("half_closed");
            }
        }
        Some((Ok(()), _)) => {
            if !(sides[0].eof_sent && sides[1].eof_sent) {
                return Outcome::fail("C49:completed-before-both-eof", detail(&sides, "Ok"));
            }
            if !all_delivered {
                return Outcome::fail("C49:completed-without-delivering-all-bytes", detail(&sides, "Ok"));
            }
            if !(sides[0].eof_seen && sides[1].eof_seen) {
                return Outcome::fail("C49:eof-not-propagated", detail(&sides, "Ok"));
            }
            labels.push("ok_complete");
        }
        Some((Err(e), elapsed)) if e.kind() == io::ErrorKind::TimedOut => {
            if elapsed < dur {
                return Outcome::fail("C49:timeout-before-max-duration", json!({"elapsed_ms": elapsed.as_millis() as u64, "duration_ms": dur.as_millis() as u64}));
            }
            labels.push("timed_out");
            if waited_for_timer {
                labels.push("timed_out_while_idle");
            }
        }
        Some((Err(e), _)) => {
            if !(max > 0 && forwarded > max) {
                return Outcome::fail("C49:error-before-limit", detail(&sides, &format!("Err({e:?})")));
            }
            labels.push("limit_error");
        }
    }
    if sides[0].sent.len() > 0 && sides[1].sent.len() > 0 {
        labels.push("bidirectional");
    }
    if max == 0 {
        labels.push("unlimited");
    }
    let nontrivial = labels.contains(&"limit_error") || labels.contains(&"timed_out") || (labels.contains(&"ok_complete") && forwarded > 0);
    Outcome::pass_l(nontrivial, labels)
}

// ---------------------------------------------------------------------------------------------
// the duration limit, decidably: generated circuit states before the deadline, idle peers across it

const DEADLINE: Duration = Duration::from_millis(30);

#[derive(Clone, Debug, Serialize, Deserialize)]
pub struct DCase {
    /// [A→relay, relay→A, B→relay, relay→B]
    dirs: [DirCfg; 4],
    /// what happens on the circuit before the deadline
    ops: Vec<COp>,
    /// run the future to quiescence (delivering everything, EOFs included) before the peers go idle
    settle_before: bool,
    /// while the deadline passes: true = the future is polled whenever it woke itself (what an executor does);
    /// false = it is not polled at all. In both cases it gets one poll after the deadline has certainly passed.
    honour_wakeups: bool,
}

fn dop() -> impl Strategy<Value = COp> {
    let side = 0u8..=1;
    prop_oneof![
        4 => (side.clone(), prop_oneof![3 => 1u16..=64, 2 => 65u16..=4000, 1 => 4001u16..=20000]).prop_map(|(s, n)| COp::Write(s, n)),
        3 => (side.clone(), prop_oneof![1 => 1u16..=64, 3 => 65u16..=30000]).prop_map(|(s, n)| COp::Read(s, n)),
        3 => side.prop_map(COp::Eof),
        5 => Just(COp::Poll),
        1 => Just(COp::Spurious),
    ]
}

fn dstrategy() -> impl Strategy<Value = DCase> {
    ([dir(false), dir(true), dir(false), dir(true)], proptest::collection::vec(dop(), 0..=8), prop::bool::weighted(0.7), any::<bool>())
        .prop_map(|(dirs, ops, settle_before, honour_wakeups)| DCase { dirs, ops, settle_before, honour_wakeups })
}

fn check_deadline(case: &DCase) -> Outcome {
    let [a_in, a_out, b_in, b_out] = case.dirs.clone();
    let (a_h, a_r) = simio::pair(a_in, a_out);
    let (b_h, b_r) = simio::pair(b_in, b_out);
    let mut sides = [
        Side { h: a_h, r: a_r.clone(), sent: vec![], recv: vec![], eof_sent: false, eof_seen: false, ctr: 1 },
        Side { h: b_h, r: b_r.clone(), sent: vec![], recv: vec![], eof_sent: false, eof_seen: false, ctr: 2 },
    ];
    let start = Instant::now();
    let fut = libp2p_relay::verif_copy(a_r, b_r, DEADLINE, 0);
    let mut sentinel = Sentinel::new(DEADLINE);
    let result: Slot<(io::Result<()>, Duration)> = Slot::new();
    let r2 = result.clone();
    let ex = Exec::new();
    ex.spawn(async move {
        let r = fut.await;
        r2.set((r, start.elapsed()));
    });
    for op in &case.ops {
        match op {
            COp::Write(s, n) => sides[*s as usize].write(*n as usize),
            COp::Read(s, n) => {
                if let Err(e) = sides[*s as usize].read(*n as usize) {
                    return Outcome::fail("C49:harness-read-error", json!({"error": format!("{e:?}")}));
                }
            }
            COp::Eof(s) => {
                let sd = &mut sides[*s as usize];
                sd.eof_sent = true;
                sd.r.close_incoming();
            }
            COp::Poll => {
                ex.step(0);
            }
            COp::Spurious => {
                ex.poll_task(0);
            }
        }
    }
    if case.settle_before {
        for _ in 0..10_000 {
            if !ex.drain(100_000) {
                return Outcome::Inconclusive("copy future kept waking for 100000 polls".into());
            }
            let mut progress = false;
            for s in sides.iter_mut() {
                while s.h.incoming_queued() > 0 {
                    match s.read(65536) {
                        Ok(0) => break,
                        Ok(_) => progress = true,
                        Err(e) => return Outcome::fail("C49:harness-read-error", json!({"error": format!("{e:?}")})),
                    }
                }
            }
            if !progress && ex.runnable().is_empty() {
                break;
            }
        }
    }
    // the circuit's state as the peers go idle
    let polls_before = ex.total_polls();
    let done_before = result.is_set();
    let in_time = start.elapsed() < DEADLINE;
    let state: &'static str = match (sides[0].eof_sent, sides[1].eof_sent, sides[0].sent.len() + sides[1].sent.len() > 0) {
        (true, true, _) => "state:both_closed",
        (true, false, _) => "state:half_closed_by_a",
        (false, true, _) => "state:half_closed_by_b",
        (false, false, true) => "state:both_open_after_traffic",
        (false, false, false) => "state:fully_idle",
    };
    // both peers stay idle while the deadline passes
    let r3 = result.clone();
    let honour = case.honour_wakeups;
    let fired = sentinel.wait(&mut || {
        if honour {
            ex.drain(10_000);
        }
        r3.is_set()
    });
    if !fired {
        return Outcome::Inconclusive(format!("the harness' own {:?} timer did not fire within {SENTINEL_PATIENCE:?} (timer thread starved; not a violation)", DEADLINE + SENTINEL_EXTRA));
    }
    // the circuit's timer has expired and called its waker (if it was given one) by now
    let completed_by_itself = result.is_set();
    let woken = !ex.runnable().is_empty();
    let mut forced_poll = false;
    if !completed_by_itself {
        // one poll after the deadline: woken or not, there is no scheduling excuse from here on
        forced_poll = !woken;
        ex.poll_task(0);
        ex.drain(100_000);
    }
    let detail = |res: &str| {
        json!({"duration_ms": DEADLINE.as_millis() as u64, "elapsed_ms": start.elapsed().as_millis() as u64, "result": res, "state_when_peers_went_idle": state,
               "polls_before_idling": polls_before, "settled_before_idling": case.settle_before, "polled_on_own_wakeups": honour, "runnable_when_the_deadline_had_passed": woken,
               "a_eof": sides[0].eof_sent, "b_eof": sides[1].eof_sent, "a_written": sides[0].sent.len(), "b_written": sides[1].sent.len()})
    };
    let mut labels: Vec<&'static str> = vec![state];
    match result.take() {
        None => return Outcome::fail("C49:no-timeout-when-polled-after-max-duration", detail("Pending")),
        Some((Ok(()), _)) => {
            if !(sides[0].eof_sent && sides[1].eof_sent) {
                return Outcome::fail("C49:completed-before-both-eof", detail("Ok"));
            }
            labels.push("ok_complete");
            return Outcome::pass_l(false, labels);
        }
        Some((Err(e), elapsed)) if e.kind() == io::ErrorKind::TimedOut => {
            if elapsed < DEADLINE {
                return Outcome::fail("C49:timeout-before-max-duration", json!({"elapsed_ms": elapsed.as_millis() as u64, "duration_ms": DEADLINE.as_millis() as u64}));
            }
            // a future that returned Pending before the deadline has to get itself polled again when the deadline passes:
            // an executor polls a task only when it was woken
            if polls_before > 0 && !done_before && !completed_by_itself && !woken {
                return Outcome::fail("C49:not-woken-when-max-duration-passed", detail("TimedOut, but only because the harness polled it unasked"));
            }
            labels.push("timed_out");
            labels.push(if completed_by_itself { "timed_out_on_own_wakeup_polled_at_once" } else if forced_poll { "timed_out_on_unasked_poll_after_deadline" } else { "timed_out_on_own_wakeup_polled_late" });
            if polls_before == 0 {
                labels.push("never_polled_before_deadline");
            }
            if !in_time {
                labels.push("preparation_overran_deadline");
            }
        }
        Some((Err(e), _)) => return Outcome::fail("C49:error-before-limit", detail(&format!("Err({e:?})"))),
    }
    Outcome::pass_l(true, labels)
}

pub fn run(ctx: &mut Ctx) {
    ctx.assume("hook libp2p_relay::verif_copy only constructs the crate-private CopyFuture");
    ctx.assume("'one read buffer' is the 8192-byte default capacity of futures::io::BufReader used by CopyFuture; the bound is asserted on the sum over both directions (max + 2 x 8192)");
    ctx.assume("duration limit: the harness owns a second futures_timer::Delay created after the circuit's and expiring 10 ms later on the same global timer (one thread, one expiry-ordered heap, each expired entry is marked and woken before the next is examined); when it reports Ready the circuit's timer has expired and called its waker. From then on a Pending answer to a poll is a violation (no wall-clock margin is used as a correctness signal); if the harness' own timer does not fire within 20 s the case is Inconclusive");
    ctx.assume("a timeout reported before the configured duration is a violation; 8 % of the 'copy' cases use the 40 ms duration, the others 10 s (which must never fire)");
    ctx.check::<Case>(
        "copy",
        "max_circuit_bytes 0 (unlimited) or 1..40000, duration 40 ms (8 %; after quiescence the future must time out: polled on its own wake-ups and once more when the deadline has certainly passed) or 10 s, 0..30 operations {write 1..20000 bytes on A|B, read <= n bytes on A|B, EOF on A|B, poll, spurious poll}, four generated pipe directions (chunk scripts, spurious Pending, bounded capacity towards the circuit ends), then drain to quiescence; non-trivial = the byte limit error, the timeout, or a complete bidirectional shutdown with data was observed",
        ctx.n(12_000, 500_000),
        &|| strategy().boxed(),
        &check,
    );
    ctx.check::<DCase>(
        "deadline",
        "max duration 30 ms, no byte limit; 0..8 operations {write, read, EOF on A|B (3/16), poll, spurious poll} over four generated pipe directions put the circuit into a state (fully idle / both open after traffic / half-closed by A / by B / both closed; never polled, polled, or (70 %) run to quiescence with everything delivered); then both peers stay idle while the deadline passes, the future being polled on its own wake-ups (50 %) or not at all, and once the harness' later timer has fired it gets one poll: it must end with TimedOut (not earlier than 30 ms), or Ok iff both sides had closed; if it had been polled before, its timer must have woken it; non-trivial = TimedOut observed; labels give the state distribution",
        ctx.n(3_200, 64_000),
        &|| dstrategy().boxed(),
        &check_deadline,
    );
}
