//! C49 — relay circuit copy: exact prefixes in both directions, byte limit, duration limit.
//!
//! The real `CopyFuture` (hook `libp2p_relay::verif_copy`) runs as the only task of a harness-owned
//! executor between two in-memory pipes; the harness plays both circuit ends (writes, partial reads,
//! EOFs) and decides when the future is polled.

use futures::io::AsyncRead;
use futures::task::noop_waker;
use proptest::prelude::*;
use serde::{Deserialize, Serialize};
use serde_json::json;
use std::io;
use std::pin::Pin;
use std::task::{Context, Poll};
use std::time::{Duration, Instant};
use vcore::simexec::{Exec, Slot};
use vcore::simio::{self, DirCfg, Duplex};
use vcore::{Ctx, Outcome};

const READ_BUF: u64 = 8192; // futures::io::BufReader default capacity = "one read buffer"
const SHORT: Duration = Duration::from_millis(40);
const LONG: Duration = Duration::from_secs(10);
const MARGIN: Duration = Duration::from_millis(250);

#[derive(Clone, Debug, Serialize, Deserialize)]
pub enum COp {
    /// side (0 = A, 1 = B) writes n bytes towards the relay
    Write(u8, u16),
    /// side reads at most n bytes of what the relay forwarded to it
    Read(u8, u16),
    /// side closes its write direction
    Eof(u8),
    /// poll the copy future if it was woken
    Poll,
    /// poll the copy future even if it was not woken
    Spurious,
}

#[derive(Clone, Debug, Serialize, Deserialize)]
pub struct Case {
    /// 0 = unlimited
    max_bytes: u32,
    short_timer: bool,
    /// [A→relay, relay→A, B→relay, relay→B]
    dirs: [DirCfg; 4],
    ops: Vec<COp>,
}

fn dir(cap: bool) -> impl Strategy<Value = DirCfg> {
    (simio::dircfg_strategy(10), if cap { prop_oneof![2 => Just(None), 1 => (1u32..=200).prop_map(Some), 1 => (201u32..=20000).prop_map(Some)].boxed() } else { Just(None).boxed() })
        .prop_map(|(mut d, c)| {
            d.capacity = c;
            d
        })
}

fn op() -> impl Strategy<Value = COp> {
    let side = 0u8..=1;
    prop_oneof![
        6 => (side.clone(), prop_oneof![3 => 1u16..=64, 2 => 65u16..=4000, 2 => 4001u16..=20000]).prop_map(|(s, n)| COp::Write(s, n)),
        4 => (side.clone(), prop_oneof![1 => 1u16..=64, 3 => 65u16..=30000]).prop_map(|(s, n)| COp::Read(s, n)),
        1 => side.prop_map(COp::Eof),
        5 => Just(COp::Poll),
        1 => Just(COp::Spurious),
    ]
}

fn strategy() -> impl Strategy<Value = Case> {
    (
        prop_oneof![2 => Just(0u32), 3 => 1u32..=200, 3 => 201u32..=9000, 3 => 9001u32..=40000],
        prop::bool::weighted(0.04),
        [dir(false), dir(true), dir(false), dir(true)],
        proptest::collection::vec(op(), 0..=30),
    )
        .prop_map(|(max_bytes, short_timer, dirs, ops)| Case { max_bytes, short_timer, dirs, ops })
}

struct Side {
    /// harness end
    h: Duplex,
    /// clone of the relay end (counters, raw injection)
    r: Duplex,
    sent: Vec<u8>,
    recv: Vec<u8>,
    eof_sent: bool,
    eof_seen: bool,
    ctr: u32,
}

impl Side {
    fn write(&mut self, n: usize) {
        if self.eof_sent {
            return;
        }
        let v: Vec<u8> = (0..n)
            .map(|_| {
                self.ctr = self.ctr.wrapping_mul(1664525).wrapping_add(1013904223);
                (self.ctr >> 24) as u8
            })
            .collect();
        self.r.push_raw(&v);
        self.sent.extend_from_slice(&v);
    }
    /// one read of at most n bytes on the harness end; returns bytes read
    fn read(&mut self, n: usize) -> io::Result<usize> {
        let w = noop_waker();
        let mut cx = Context::from_waker(&w);
        let mut buf = vec![0u8; n.max(1)];
        // the pipe's own read script may answer Pending a few times
        for _ in 0..64 {
            match Pin::new(&mut self.h).poll_read(&mut cx, &mut buf) {
                Poll::Ready(Ok(0)) => {
                    self.eof_seen = true;
                    return Ok(0);
                }
                Poll::Ready(Ok(k)) => {
                    self.recv.extend_from_slice(&buf[..k]);
                    return Ok(k);
                }
                Poll::Ready(Err(e)) => return Err(e),
                Poll::Pending => {
                    if self.h.incoming_queued() == 0 {
                        return Ok(0);
                    }
                }
            }
        }
        Ok(0)
    }
}

fn check(case: &Case) -> Outcome {
    let [a_in, a_out, b_in, b_out] = case.dirs.clone();
    let (a_h, a_r) = simio::pair(a_in, a_out);
    let (b_h, b_r) = simio::pair(b_in, b_out);
    let mut sides = [
        Side { h: a_h, r: a_r.clone(), sent: vec![], recv: vec![], eof_sent: false, eof_seen: false, ctr: 1 },
        Side { h: b_h, r: b_r.clone(), sent: vec![], recv: vec![], eof_sent: false, eof_seen: false, ctr: 2 },
    ];
    let max = case.max_bytes as u64;
    let dur = if case.short_timer { SHORT } else { LONG };
    let start = Instant::now();
    let fut = libp2p_relay::verif_copy(a_r, b_r, dur, max);
    let result: Slot<(io::Result<()>, Duration)> = Slot::new();
    let r2 = result.clone();
    let ex = Exec::new();
    ex.spawn(async move {
        let r = fut.await;
        r2.set((r, start.elapsed()));
    });

    let mut labels: Vec<&'static str> = vec![];
    macro_rules! prefix_check {
        () => {
            for (i, j) in [(0usize, 1usize), (1, 0)] {
                if !sides[i].sent.starts_with(&sides[j].recv) {
                    let pos = sides[j].recv.iter().zip(sides[i].sent.iter()).position(|(x, y)| x != y);
                    return Outcome::fail(
                        "C49:received-bytes-not-a-prefix-of-written",
                        json!({"writer": i, "written": sides[i].sent.len(), "received": sides[j].recv.len(), "first_diff": pos}),
                    );
                }
            }
        };
    }
    for op in &case.ops {
        match op {
            COp::Write(s, n) => sides[*s as usize].write(*n as usize),
            COp::Read(s, n) => {
                if let Err(e) = sides[*s as usize].read(*n as usize) {
                    return Outcome::fail("C49:harness-read-error", json!({"error": format!("{e:?}")}));
                }
                prefix_check!();
            }
            COp::Eof(s) => {
                let sd = &mut sides[*s as usize];
                sd.eof_sent = true;
                sd.r.close_incoming();
            }
            COp::Poll => {
                ex.step(0);
            }
            COp::Spurious => {
                ex.poll_task(0);
            }
        }
    }
    // final phase: poll to quiescence, reading everything the relay forwards
    let mut rounds = 0;
    loop {
        rounds += 1;
        if rounds > 200_000 {
            return Outcome::Inconclusive("copy future did not quiesce within 200000 drain rounds".into());
        }
        if !ex.drain(100_000) {
            return Outcome::Inconclusive("copy future kept waking for 100000 polls".into());
        }
        let mut progress = false;
        for s in sides.iter_mut() {
            while s.h.incoming_queued() > 0 {
                match s.read(65536) {
                    Ok(0) => break,
                    Ok(_) => progress = true,
                    Err(e) => return Outcome::fail("C49:harness-read-error", json!({"error": format!("{e:?}")})),
                }
            }
        }
        prefix_check!();
        if !progress && ex.runnable().is_empty() {
            break;
        }
    }
    for s in sides.iter_mut() {
        // observe EOF propagation (a read on an empty, closed pipe)
        let _ = s.read(1);
    }
    // bytes the future wrote towards each circuit end
    let forwarded = sides[0].r.written() + sides[1].r.written();
    let detail = |sides: &[Side; 2], res: &str| {
        json!({"max_circuit_bytes": max, "forwarded": forwarded, "result": res,
               "a_written": sides[0].sent.len(), "b_written": sides[1].sent.len(),
               "a_received": sides[0].recv.len(), "b_received": sides[1].recv.len(),
               "a_eof": sides[0].eof_sent, "b_eof": sides[1].eof_sent})
    };
    if max > 0 && forwarded > max + 2 * READ_BUF {
        return Outcome::fail("C49:forwarded-more-than-limit-plus-two-buffers", detail(&sides, "-"));
    }
    let mut res = result.take();
    let mut waited_for_timer = false;
    if res.is_none() && case.short_timer {
        // nothing else can wake the future now: only the duration limit remains
        waited_for_timer = true;
        let r3 = result.clone();
        ex.drain_until(10_000, SHORT + MARGIN, &mut || r3.is_set());
        res = result.take();
        if res.is_none() {
            return Outcome::Inconclusive(format!("duration limit of {SHORT:?} not reported within {:?} (timing; not a violation)", SHORT + MARGIN));
        }
    }
    let all_delivered = sides[1].recv == sides[0].sent && sides[0].recv == sides[1].sent;
    match res {
        None => {
            // still running
            if max > 0 && forwarded > max {
                return Outcome::fail("C49:limit-exceeded-without-error", detail(&sides, "Pending"));
            }
            if !all_delivered {
                return Outcome::fail("C49:bytes-not-forwarded", detail(&sides, "Pending"));
            }
            if sides[0].eof_sent && sides[1].eof_sent {
                return Outcome::fail("C49:no-completion-after-both-eof", detail(&sides, "Pending"));
            }
            for (i, j) in [(0usize, 1usize), (1, 0)] {
                if sides[i].eof_sent && !sides[j].eof_seen {
                    return Outcome::fail("C49:eof-not-propagated", detail(&sides, "Pending"));
                }
            }
            labels.push("still_running");
            if sides[0].eof_sent || sides[1].eof_sent {
                labels.push("half_closed");
            }
        }
        Some((Ok(()), _)) => {
            if !(sides[0].eof_sent && sides[1].eof_sent) {
                return Outcome::fail("C49:completed-before-both-eof", detail(&sides, "Ok"));
            }
            if !all_delivered {
                return Outcome::fail("C49:completed-without-delivering-all-bytes", detail(&sides, "Ok"));
            }
            if !(sides[0].eof_seen && sides[1].eof_seen) {
                return Outcome::fail("C49:eof-not-propagated", detail(&sides, "Ok"));
            }
            labels.push("ok_complete");
        }
        Some((Err(e), elapsed)) if e.kind() == io::ErrorKind::TimedOut => {
            if elapsed < dur {
                return Outcome::fail("C49:timeout-before-max-duration", json!({"elapsed_ms": elapsed.as_millis() as u64, "duration_ms": dur.as_millis() as u64}));
            }
            labels.push("timed_out");
            if waited_for_timer {
                labels.push("timed_out_while_idle");
            }
        }
        Some((Err(e), _)) => {
            if !(max > 0 && forwarded > max) {
                return Outcome::fail("C49:error-before-limit", detail(&sides, &format!("Err({e:?})")));
            }
            labels.push("limit_error");
        }
    }
    if sides[0].sent.len() > 0 && sides[1].sent.len() > 0 {
        labels.push("bidirectional");
    }
    if max == 0 {
        labels.push("unlimited");
    }
    let nontrivial = labels.contains(&"limit_error") || labels.contains(&"timed_out") || (labels.contains(&"ok_complete") && forwarded > 0);
    Outcome::pass_l(nontrivial, labels)
}

pub fn run(ctx: &mut Ctx) {
    ctx.assume("hook libp2p_relay::verif_copy only constructs the crate-private CopyFuture");
    ctx.assume("'one read buffer' is the 8192-byte default capacity of futures::io::BufReader used by CopyFuture; the bound is asserted on the sum over both directions (max + 2 x 8192)");
    ctx.assume("duration limit: a timeout reported before the configured duration is a violation; a timeout not reported within duration + 250 ms of idling is Inconclusive (wall-clock), never a violation; 4 % of the cases use the 40 ms duration, the others 10 s (which must never fire)");
    ctx.check::<Case>(
        "copy",
        "max_circuit_bytes 0 (unlimited) or 1..40000, duration 40 ms (4 %) or 10 s, 0..30 operations {write 1..20000 bytes on A|B, read <= n bytes on A|B, EOF on A|B, poll, spurious poll}, four generated pipe directions (chunk scripts, spurious Pending, bounded capacity towards the circuit ends), then drain to quiescence; non-trivial = the byte limit error, the timeout, or a complete bidirectional shutdown with data was observed",
        ctx.n(12_000, 500_000),
        &|| strategy().boxed(),
        &check,
    );
}
