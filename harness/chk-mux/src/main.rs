mod c19;
mod c24;
mod c26;
mod c49;
mod c56;
mod chan;

fn main() {
    vcore::runner::main(&[("C19", c19::run), ("C24", c24::run), ("C26", c26::run), ("C49", c49::run), ("C56", c56::run)])
}
