//! C19 — plaintext handshake (peer-id check, coalesced follow-up bytes), pnet transparency,
//! pre-shared-key file round-trip and panic-freedom of the parser.

use futures::io::{AsyncReadExt, AsyncWriteExt};
use libp2p_core::upgrade::{InboundConnectionUpgrade, OutboundConnectionUpgrade};
use libp2p_identity::Keypair;
use libp2p_pnet::{PnetConfig, PreSharedKey};
use proptest::prelude::*;
use serde::{Deserialize, Serialize};
use serde_json::json;
use vcore::refcodec::{lp, pb_bytes, pb_parse, read_uvarint};
use vcore::simexec::{Exec, Slot};
use vcore::simio::{self, DirCfg};
use vcore::{ensure, pick, Ctx, Outcome};

fn small_keys() -> Vec<&'static Keypair> {
    let k = vcore::gen::keys();
    k.ed25519.iter().chain(k.secp256k1.iter()).collect()
}

// ---------------------------------------------------------------------------------------------
// (a) plaintext

#[derive(Clone, Debug, Serialize, Deserialize, PartialEq)]
pub enum Announce {
    /// id and public key of the same identity
    Matching,
    /// id of pool key `id_key`, public key of pool key `remote`
    OtherId { id_key: u16 },
    /// a syntactically valid but unrelated peer id (sha256 multihash of arbitrary bytes)
    SyntheticId(u64),
    MissingId,
    MissingPubkey,
    /// matching pair with one byte of the id flipped
    FlippedIdByte { pos: u16, xor: u8 },
}

#[derive(Clone, Debug, Serialize, Deserialize)]
pub struct PlainCase {
    local: u16,
    remote: u16,
    inbound: bool,
    announce: Announce,
    /// bytes appended to the exchange message in the same write
    followup: Vec<u8>,
    /// bytes written later, after the handshake completed
    later: Vec<u8>,
    /// the remote's first write (exchange + follow-up) is delivered in pieces cut at these positions
    cuts: Vec<u16>,
    /// when true the remote's bytes are already on the pipe before the handshake is first polled
    preloaded: bool,
    to_local: DirCfg,
    read_sizes: Vec<u16>,
}

fn plain_strategy() -> impl Strategy<Value = PlainCase> {
    let announce = prop_oneof![
        5 => Just(Announce::Matching),
        3 => any::<u16>().prop_map(|id_key| Announce::OtherId { id_key }),
        1 => (0u64..1000).prop_map(Announce::SyntheticId),
        1 => Just(Announce::MissingId),
        1 => Just(Announce::MissingPubkey),
        1 => (any::<u16>(), 1u8..=255).prop_map(|(pos, xor)| Announce::FlippedIdByte { pos, xor }),
    ];
    (
        (any::<u16>(), any::<u16>(), any::<bool>(), announce),
        prop_oneof![1 => Just(vec![]), 4 => proptest::collection::vec(any::<u8>(), 1..=200)],
        proptest::collection::vec(any::<u8>(), 0..=100),
        proptest::collection::vec(any::<u16>(), 0..=3),
        prop::bool::weighted(0.6),
        prop_oneof![2 => Just(DirCfg::plain()), 3 => simio::dircfg_strategy(12)],
        proptest::collection::vec(prop_oneof![Just(1u16), 2u16..=9, Just(64u16), Just(1000u16)], 1..=6),
    )
        .prop_map(|((local, remote, inbound, announce), followup, later, cuts, preloaded, to_local, read_sizes)| PlainCase {
            local,
            remote,
            inbound,
            announce,
            followup,
            later,
            cuts,
            preloaded,
            to_local,
            read_sizes,
        })
}

enum PlainRes {
    HandshakeErr(String),
    HandshakeOk { peer: libp2p_identity::PeerId, key: libp2p_identity::PublicKey },
}

fn check_plain(case: &PlainCase) -> Outcome {
    let keys = small_keys();
    let local = keys[pick(case.local, keys.len())];
    let remote = keys[pick(case.remote, keys.len())];
    let remote_pub = remote.public();
    let remote_id = remote_pub.to_peer_id();

    // the remote's exchange message, hand-encoded
    let mut expect_ok = false;
    let (id_bytes, pk_bytes): (Option<Vec<u8>>, Option<Vec<u8>>) = match &case.announce {
        Announce::Matching => {
            expect_ok = true;
            (Some(remote_id.to_bytes()), Some(remote_pub.encode_protobuf()))
        }
        Announce::OtherId { id_key } => {
            let other = keys[pick(*id_key, keys.len())].public().to_peer_id();
            if other == remote_id {
                expect_ok = true;
            }
            (Some(other.to_bytes()), Some(remote_pub.encode_protobuf()))
        }
        Announce::SyntheticId(n) => (Some(vcore::gen::synthetic_peer(*n).to_bytes()), Some(remote_pub.encode_protobuf())),
        Announce::MissingId => (None, Some(remote_pub.encode_protobuf())),
        Announce::MissingPubkey => (Some(remote_id.to_bytes()), None),
        Announce::FlippedIdByte { pos, xor } => {
            let mut b = remote_id.to_bytes();
            let p = pick(*pos, b.len());
            b[p] ^= *xor;
            (Some(b), Some(remote_pub.encode_protobuf()))
        }
    };
    let mut msg = vec![];
    if let Some(b) = &id_bytes {
        msg.extend(pb_bytes(1, b));
    }
    if let Some(b) = &pk_bytes {
        msg.extend(pb_bytes(2, b));
    }
    if msg.len() > 100 {
        return Outcome::Discard;
    }
    let mut first = lp(&msg);
    first.extend_from_slice(&case.followup);

    let (local_end, remote_end) = simio::pair(DirCfg::plain(), case.to_local.clone());
    let probe = local_end.clone();
    let res: Slot<PlainRes> = Slot::new();
    let data: Slot<Result<Vec<u8>, String>> = Slot::new();
    let (res2, data2) = (res.clone(), data.clone());
    let cfg = libp2p_plaintext::Config::new(local);
    let read_sizes = case.read_sizes.clone();
    let inbound = case.inbound;
    let ex = Exec::new();
    ex.spawn(async move {
        let fut = if inbound { cfg.upgrade_inbound(local_end, "/plaintext/2.0.0") } else { cfg.upgrade_outbound(local_end, "/plaintext/2.0.0") };
        match fut.await {
            Err(e) => res2.set(PlainRes::HandshakeErr(format!("{e:?}"))),
            Ok((peer, mut out)) => {
                res2.set(PlainRes::HandshakeOk { peer, key: out.remote_key.clone() });
                let mut got = vec![];
                let mut i = 0;
                loop {
                    let n = read_sizes[i % read_sizes.len()] as usize;
                    i += 1;
                    let mut buf = vec![0u8; n];
                    match out.read(&mut buf).await {
                        Ok(0) => break,
                        Ok(k) => got.extend_from_slice(&buf[..k]),
                        Err(e) => {
                            data2.set(Err(format!("{e:?}")));
                            return;
                        }
                    }
                }
                data2.set(Ok(got));
            }
        }
    });

    // deliver the remote's first write, possibly in pieces
    let mut cuts: Vec<usize> = case.cuts.iter().map(|c| pick(*c, first.len() + 1)).collect();
    cuts.sort();
    cuts.dedup();
    let mut pieces = vec![];
    let mut prev = 0;
    for c in cuts {
        pieces.push(&first[prev..c]);
        prev = c;
    }
    pieces.push(&first[prev..]);
    for (i, p) in pieces.iter().enumerate() {
        probe.push_raw(p);
        if !(case.preloaded && i + 1 < pieces.len()) {
            if !ex.drain(20_000) {
                return Outcome::Inconclusive("plaintext handshake did not quiesce within 20000 polls".into());
            }
        }
    }
    if !ex.drain(20_000) {
        return Outcome::Inconclusive("plaintext handshake did not quiesce within 20000 polls".into());
    }

    // what the local side sent must be its own exchange (sanity of the reference encoding)
    let sent = probe.take_raw();
    let local_ok = (|| {
        let (l, n) = read_uvarint(&sent)?;
        if sent.len() != n + l as usize {
            return None;
        }
        let f = pb_parse(&sent[n..])?;
        let id = f.iter().find(|x| x.0 == 1)?.2.clone();
        let pk = f.iter().find(|x| x.0 == 2)?.2.clone();
        Some(id == local.public().to_peer_id().to_bytes() && pk == local.public().encode_protobuf())
    })();
    ensure!(local_ok == Some(true), "C19:plaintext-local-exchange-malformed", json!({"sent": sent}));

    let Some(hs) = res.take() else {
        return Outcome::fail("C19:plaintext-handshake-stalls", json!({"note": "complete exchange delivered, handshake future still pending"}));
    };
    let mut labels = vec![];
    match hs {
        PlainRes::HandshakeErr(e) => {
            ensure!(!expect_ok, "C19:plaintext-rejects-matching-identity", json!({"error": e}));
            labels.push("rejected");
            if e.contains("PeerIdMismatch") {
                labels.push("rejected_peer_id_mismatch");
            }
            let _ = remote_end;
            return Outcome::pass_l(matches!(case.announce, Announce::OtherId { .. } | Announce::SyntheticId(_) | Announce::FlippedIdByte { .. }), labels);
        }
        PlainRes::HandshakeOk { peer, key } => {
            ensure!(expect_ok, "C19:plaintext-accepts-peer-id-mismatch", json!({"announce": format!("{:?}", case.announce), "returned_peer": peer.to_string()}));
            ensure!(peer == remote_id && key == remote_pub, "C19:plaintext-wrong-remote-identity", json!({"returned_peer": peer.to_string()}));
        }
    }
    // later bytes, then EOF
    for chunk in case.later.chunks(37) {
        probe.push_raw(chunk);
        ex.drain(20_000);
    }
    probe.close_incoming();
    if !ex.drain(50_000) {
        return Outcome::Inconclusive("reader did not quiesce".into());
    }
    let mut want = case.followup.clone();
    want.extend_from_slice(&case.later);
    match data.take() {
        None => Outcome::fail("C19:plaintext-reader-stalls", json!({"note": "EOF signalled, reader still pending"})),
        Some(Err(e)) => Outcome::fail("C19:plaintext-read-error", json!({"error": e})),
        Some(Ok(got)) => {
            ensure!(
                got == want,
                if want.starts_with(&got) || got.len() < want.len() { "C19:plaintext-bytes-after-handshake-lost" } else { "C19:plaintext-bytes-differ" },
                json!({"followup_len": case.followup.len(), "later_len": case.later.len(), "got_len": got.len(), "got": got, "want": want})
            );
            labels.push("accepted");
            if !case.followup.is_empty() {
                labels.push("followup_present");
            }
            Outcome::pass_l(!case.followup.is_empty(), labels)
        }
    }
}

// ---------------------------------------------------------------------------------------------
// (b) pnet

#[derive(Clone, Debug, Serialize, Deserialize)]
pub enum WOp {
    /// write_all of n bytes
    Write(u16),
    Flush,
}

#[derive(Clone, Debug, Serialize, Deserialize)]
pub struct PnetCase {
    psk: [u8; 32],
    a_to_b: DirCfg,
    b_to_a: DirCfg,
    a_ops: Vec<WOp>,
    b_ops: Vec<WOp>,
    a_reads: Vec<u16>,
    b_reads: Vec<u16>,
    schedule: Vec<u16>,
}

fn wop() -> impl Strategy<Value = WOp> {
    prop_oneof![
        5 => prop_oneof![3 => 1u16..=40, 2 => 41u16..=1023, 1 => Just(1024u16), 1 => Just(1025u16), 1 => 1026u16..=5000].prop_map(WOp::Write),
        1 => Just(WOp::Flush),
    ]
}

fn dir_with_capacity() -> impl Strategy<Value = DirCfg> {
    (simio::dircfg_strategy(24), prop_oneof![3 => Just(None), 1 => (24u32..=64).prop_map(Some), 1 => (65u32..=3000).prop_map(Some)])
        .prop_map(|(mut d, c)| {
            d.capacity = c;
            d
        })
}

fn pnet_strategy() -> impl Strategy<Value = PnetCase> {
    (
        any::<[u8; 32]>(),
        dir_with_capacity(),
        dir_with_capacity(),
        proptest::collection::vec(wop(), 0..=8),
        proptest::collection::vec(wop(), 0..=8),
        proptest::collection::vec(prop_oneof![Just(1u16), 2u16..=33, Just(1024u16), Just(4096u16)], 1..=5),
        proptest::collection::vec(prop_oneof![Just(1u16), 2u16..=33, Just(1024u16), Just(4096u16)], 1..=5),
        proptest::collection::vec(any::<u16>(), 0..=60),
    )
        .prop_map(|(psk, a_to_b, b_to_a, a_ops, b_ops, a_reads, b_reads, schedule)| PnetCase { psk, a_to_b, b_to_a, a_ops, b_ops, a_reads, b_reads, schedule })
}

fn payload(side: u8, ops: &[WOp]) -> (Vec<Vec<u8>>, Vec<u8>) {
    let mut ctr: u32 = side as u32 * 7919;
    let mut all = vec![];
    let mut per = vec![];
    for op in ops {
        if let WOp::Write(n) = op {
            let v: Vec<u8> = (0..*n)
                .map(|_| {
                    ctr = ctr.wrapping_mul(1103515245).wrapping_add(12345);
                    (ctr >> 16) as u8
                })
                .collect();
            all.extend_from_slice(&v);
            per.push(v);
        }
    }
    (per, all)
}

fn check_pnet(case: &PnetCase) -> Outcome {
    let (a, b) = simio::pair(case.a_to_b.clone(), case.b_to_a.clone());
    let cfg = PnetConfig::new(PreSharedKey::new(case.psk));
    let ex = Exec::new();
    struct Clear(Exec);
    impl Drop for Clear {
        fn drop(&mut self) {
            self.0.clear();
        }
    }
    let _guard = Clear(ex.clone());
    let mut results: Vec<Slot<Result<Vec<u8>, String>>> = vec![];
    let mut werrs: Vec<Slot<String>> = vec![];
    let mut wants = vec![];
    for (side, io, ops) in [(0u8, a, &case.a_ops), (1u8, b, &case.b_ops)] {
        let (per, all) = payload(side, ops);
        wants.push(all);
        let ops = ops.clone();
        let my_reads = if side == 0 { case.a_reads.clone() } else { case.b_reads.clone() };
        let got: Slot<Result<Vec<u8>, String>> = Slot::new();
        let werr: Slot<String> = Slot::new();
        results.push(got.clone());
        werrs.push(werr.clone());
        let ex2 = ex.clone();
        ex.spawn(async move {
            let out = match cfg.handshake(io).await {
                Ok(o) => o,
                Err(e) => {
                    got.set(Err(format!("handshake: {e:?}")));
                    return;
                }
            };
            let (mut r, mut w) = out.split();
            ex2.spawn(async move {
                let mut per = per.into_iter();
                for op in ops {
                    let res = match op {
                        WOp::Write(_) => w.write_all(&per.next().unwrap()).await,
                        WOp::Flush => w.flush().await,
                    };
                    if let Err(e) = res {
                        werr.set(format!("{e:?}"));
                        return;
                    }
                }
                if let Err(e) = w.close().await {
                    werr.set(format!("close: {e:?}"));
                }
            });
            let mut v = vec![];
            let mut i = 0;
            loop {
                let n = my_reads[i % my_reads.len()] as usize;
                i += 1;
                let mut buf = vec![0u8; n];
                match r.read(&mut buf).await {
                    Ok(0) => break,
                    Ok(k) => v.extend_from_slice(&buf[..k]),
                    Err(e) => {
                        got.set(Err(format!("read: {e:?}")));
                        return;
                    }
                }
            }
            got.set(Ok(v));
        });
    }
    for &p in &case.schedule {
        if ex.step(p).is_none() {
            break;
        }
    }
    if !ex.drain(2_000_000) {
        return Outcome::Inconclusive("pnet tasks did not quiesce within 2e6 polls".into());
    }
    for w in &werrs {
        if let Some(e) = w.take() {
            return Outcome::fail("C19:pnet-write-error", json!({"error": e}));
        }
    }
    // results[0] is what side A read == what side B wrote
    let total: usize = wants.iter().map(|w| w.len()).sum();
    for (i, r) in results.iter().enumerate() {
        let want = &wants[1 - i];
        match r.take() {
            None => return Outcome::fail("C19:pnet-stalls", json!({"side": i, "alive_tasks": ex.alive().len()})),
            Some(Err(e)) => return Outcome::fail("C19:pnet-io-error", json!({"side": i, "error": e})),
            Some(Ok(got)) => {
                if &got != want {
                    let first_diff = got.iter().zip(want.iter()).position(|(x, y)| x != y);
                    return Outcome::fail(
                        "C19:pnet-not-transparent",
                        json!({"reader_side": i, "got_len": got.len(), "want_len": want.len(), "first_diff": first_diff}),
                    );
                }
            }
        }
    }
    let mut labels = vec![];
    let partial = |d: &DirCfg| d.capacity.is_some() || d.write.default_chunk != 0 || !d.write.steps.is_empty();
    if partial(&case.a_to_b) || partial(&case.b_to_a) {
        labels.push("partial_writes");
    }
    if wants.iter().any(|w| w.len() > 1024) {
        labels.push("over_1024_bytes");
    }
    if wants.iter().all(|w| !w.is_empty()) {
        labels.push("bidirectional");
    }
    Outcome::pass_l(total > 0 && (partial(&case.a_to_b) || partial(&case.b_to_a)), labels)
}

// ---------------------------------------------------------------------------------------------
// (c) key file

#[derive(Clone, Debug, Serialize, Deserialize)]
pub enum KeyText {
    /// a printed key file whose key line gets `edits` applied (byte offset into the 64-char line, replacement)
    Edited { key: [u8; 32], edits: Vec<(u8, String)>, crlf: bool, extra_lines: Vec<String> },
    /// arbitrary text
    Free(String),
    /// header lines followed by an arbitrary third line
    Headed(String),
}

fn replacement() -> impl Strategy<Value = String> {
    prop_oneof![
        Just("é".to_string()),   // 2 bytes
        Just("€".to_string()),   // 3 bytes
        Just("😀".to_string()), // 4 bytes
        Just("ß".to_string()),
        Just("\u{0301}".to_string()),
        Just("g".to_string()),
        Just("+".to_string()),
        Just(" ".to_string()),
        Just("".to_string()),
        "\\PC{1,2}",
    ]
}

fn keytext_strategy() -> impl Strategy<Value = KeyText> {
    prop_oneof![
        6 => (any::<[u8; 32]>(), proptest::collection::vec((0u8..64, replacement()), 0..=3), any::<bool>(), proptest::collection::vec("\\PC{0,10}", 0..=2))
            .prop_map(|(key, edits, crlf, extra_lines)| KeyText::Edited { key, edits, crlf, extra_lines }),
        2 => "(\\PC|\n){0,120}".prop_map(KeyText::Free),
        2 => "\\PC{0,70}".prop_map(KeyText::Headed),
    ]
}

/// Replace, in a 64-char ASCII line, as many bytes starting at `off` as the replacement is long
/// (so the byte length of the line stays 64 whenever possible).
fn apply_edit(line: &mut String, off: usize, rep: &str) {
    let mut start = off.min(line.len());
    while !line.is_char_boundary(start) {
        start -= 1;
    }
    let mut end = (start + rep.len().max(1)).min(line.len());
    while !line.is_char_boundary(end) {
        end += 1;
    }
    line.replace_range(start..end, rep);
}

fn check_key(case: &KeyText) -> Outcome {
    let mut labels = vec![];
    let text = match case {
        KeyText::Edited { key, edits, crlf, extra_lines } => {
            let printed = PreSharedKey::new(*key).to_key_file();
            // round trip of the untouched file
            match vcore::runner::catch(|| printed.parse::<PreSharedKey>()) {
                Err(p) => return Outcome::fail("C19:psk-parse-panics", json!({"text": printed, "panic": p})),
                Ok(Err(e)) => return Outcome::fail("C19:psk-roundtrip-fails", json!({"text": printed, "error": format!("{e:?}")})),
                Ok(Ok(k)) => ensure!(k == PreSharedKey::new(*key), "C19:psk-roundtrip-differs", json!({"text": printed})),
            }
            let lines: Vec<&str> = printed.lines().collect();
            let mut key_line = lines[2].to_string();
            for (off, rep) in edits {
                apply_edit(&mut key_line, *off as usize, rep);
            }
            if !key_line.is_ascii() && key_line.len() == 64 {
                labels.push("non_ascii_key_line_of_64_bytes");
            } else if !key_line.is_ascii() {
                labels.push("non_ascii_key_line");
            }
            let nl = if *crlf { "\r\n" } else { "\n" };
            let mut t = format!("{}{nl}{}{nl}{}{nl}", lines[0], lines[1], key_line);
            for l in extra_lines {
                t.push_str(l);
                t.push_str(nl);
            }
            t
        }
        KeyText::Free(s) => {
            labels.push("free_text");
            s.clone()
        }
        KeyText::Headed(s) => {
            labels.push("headed_text");
            if !s.is_ascii() && s.trim_end().len() == 64 {
                labels.push("non_ascii_key_line_of_64_bytes");
            }
            format!("/key/swarm/psk/1.0.0/\n/base16/\n{s}\n")
        }
    };
    match vcore::runner::catch(|| text.parse::<PreSharedKey>()) {
        Err(p) => Outcome::fail(
            if text.is_ascii() { "C19:psk-parse-panics" } else { "C19:psk-parse-panics-on-non-ascii" },
            json!({"text": text, "panic": p}),
        ),
        Ok(Err(_)) => {
            labels.push("parse_err");
            let nt = labels.contains(&"non_ascii_key_line_of_64_bytes");
            Outcome::pass_l(nt, labels)
        }
        Ok(Ok(k)) => {
            // whatever parses must print and re-parse to the same key
            let again = k.to_key_file().parse::<PreSharedKey>();
            ensure!(again == Ok(k), "C19:psk-roundtrip-differs", json!({"text": text}));
            labels.push("parse_ok");
            Outcome::pass_l(true, labels)
        }
    }
}

/// every offset of the key line × every replacement width, for a fixed key (deterministic sweep)
fn key_sweep_items(lane: usize) -> impl Iterator<Item = KeyText> {
    let reps = ["é", "€", "😀", "\u{0301}", "ß"];
    let key: [u8; 32] = core::array::from_fn(|i| (i as u8).wrapping_mul(37).wrapping_add(11));
    (0..64 * reps.len()).skip(lane).step_by(vcore::runner::LANES).map(move |i| KeyText::Edited {
        key,
        edits: vec![((i / reps.len()) as u8, reps[i % reps.len()].to_string())],
        crlf: false,
        extra_lines: vec![],
    })
}

pub fn run(ctx: &mut Ctx) {
    ctx.assume("plaintext: identities are ed25519 / secp256k1 (the 100-byte handshake frame admits no larger keys); the remote is the harness writing a hand-encoded Exchange");
    ctx.assume("pnet: both endpoints write their 24-byte nonce before reading the peer's, so the pipe buffers at least 24 bytes per direction (bounded capacities are generated from 24 up)");
    ctx.assume("pnet: both endpoints are the real implementation; nonces come from the implementation's own RNG and no assertion depends on them");
    ctx.check::<PlainCase>(
        "plaintext",
        "remote announces {matching, other pool key's id, synthetic id, missing id, missing key, one flipped id byte} followed in the same write by 0..200 bytes, delivered whole or cut at up to 3 positions under a generated chunk script, then 0..100 later bytes and EOF; non-trivial = a mismatching id was announced, or a matching one with follow-up bytes present",
        ctx.n(40_000, 1_200_000),
        &|| plain_strategy().boxed(),
        &check_plain,
    );
    ctx.check::<PnetCase>(
        "pnet",
        "two real endpoints with the same generated PSK over a pipe with generated read/write chunk scripts, spurious Pending and optional bounded capacity in both directions; each side write_all()s 0..8 blocks of 1..5000 bytes with flushes, reads with generated buffer sizes; scheduling of the 4 tasks generated; non-trivial = bytes were sent and the pipe took partial writes",
        ctx.n(8_000, 250_000),
        &|| pnet_strategy().boxed(),
        &check_pnet,
    );
    ctx.sweep::<KeyText, _>(
        "keyfile-multibyte-sweep",
        "a printed key file whose key line has a 2/3/4-byte character substituted at every byte offset 0..63 (byte length of the line preserved when possible); non-trivial = the key line is non-ASCII with byte length 64 or the text parses",
        true,
        &key_sweep_items,
        &check_key,
    );
    ctx.check::<KeyText>(
        "keyfile",
        "printed key files of generated keys with 0..3 substitutions (multibyte characters, non-hex characters, deletions) in the key line, LF/CRLF, trailing lines; arbitrary unicode text; header lines followed by an arbitrary line; non-trivial = non-ASCII 64-byte key line or a successful parse (round-trip asserted)",
        ctx.n(300_000, 6_000_000),
        &|| keytext_strategy().boxed(),
        &check_key,
    );
}
