//! C56 — WebRTC stream half-close state machine.
//!
//! One real `libp2p_webrtc_utils::Stream` over a cloneable in-memory data channel; the harness is the
//! remote and injects hand-encoded frames (varint length prefix + protobuf `Message{flag, message}`).
//! The channel hands the stream exactly one frame per read, so "frames consumed by the stream" is an
//! observable counter and the reference model is driven by *consumed* flags, never by predictions.
//! Every local operation is exactly one poll of the corresponding method.

use futures::io::{AsyncRead, AsyncWrite};
use futures::task::noop_waker;
use libp2p_webrtc_utils::Stream;
use proptest::prelude::*;
use serde::{Deserialize, Serialize};
use serde_json::json;
use std::collections::VecDeque;
use std::io;
use std::pin::Pin;
use std::sync::{Arc, Mutex};
use std::task::{Context, Poll};
use vcore::refcodec::{lp, pb_bytes, pb_parse, pb_varint, read_uvarint};
use vcore::runner::LANES;
use crate::chan::{Chan, ChanSt};
use vcore::simio::plain_pair;
use vcore::{Ctx, Outcome};

/// `MAX_MSG_LEN - VARINT_LEN - PROTO_OVERHEAD` (private constant of the crate, restated from the spec
/// numbers: 16 KiB message, 2-byte varint, 5 bytes protobuf overhead).
const MAX_DATA_LEN: usize = libp2p_webrtc_utils::MAX_MSG_LEN - 2 - 5;

#[derive(Clone, Copy, Debug, PartialEq, Eq, Serialize, Deserialize)]
pub enum Flag {
    Fin,
    Stop,
    Reset,
}

impl Flag {
    fn wire(self) -> u64 {
        match self {
            Flag::Fin => 0,
            Flag::Stop => 1,
            Flag::Reset => 2,
        }
    }
}

#[derive(Clone, Debug, PartialEq, Eq, Serialize, Deserialize)]
pub enum Op {
    /// one `poll_read` with a buffer of n bytes (n >= 1)
    Read(u16),
    /// one `poll_write` of n bytes (n >= 1)
    Write(u16),
    /// one `poll_close` (close the write half)
    CloseWrite,
    /// one `poll_close_read`
    CloseRead,
    /// one `poll_flush` (not asserted, only for state coverage)
    Flush,
    /// remote sends a data frame of n bytes (n >= 1)
    InData(u8),
    /// remote sends a flag frame, optionally carrying n data bytes
    InFlag(Flag, u8),
    /// the data channel reports end-of-file
    InEof,
}

#[derive(Clone, Debug, Serialize, Deserialize)]
pub struct Case {
    ops: Vec<Op>,
    /// per write poll on the channel: true = return Pending once (self-waking)
    wpend: Vec<bool>,
}

// ---------------------------------------------------------------------------------------------
// reference model (half-close semantics of the libp2p WebRTC spec)

#[derive(Default, Clone, Debug)]
struct Model {
    read_closed_local: bool,
    write_closed_local: bool,
    fin_rx: bool,
    stop_rx: bool,
    reset: bool,
    /// data consumed by the stream and not yet handed to the application
    pending: VecDeque<u8>,
    close_read_in_progress: bool,
    close_write_in_progress: bool,
}

impl Model {
    fn read_open(&self) -> bool {
        !self.read_closed_local && !self.fin_rx && !self.reset
    }
    fn write_open(&self) -> bool {
        !self.write_closed_local && !self.stop_rx && !self.reset
    }
    fn apply(&mut self, flag: Option<Flag>, data: &[u8]) {
        if self.read_open() {
            self.pending.extend(data.iter().copied());
        }
        match flag {
            Some(Flag::Fin) => self.fin_rx = true,
            Some(Flag::Stop) => self.stop_rx = true,
            Some(Flag::Reset) => {
                self.reset = true;
                self.pending.clear();
            }
            None => {}
        }
    }
}

fn encode_frame(flag: Option<Flag>, data: &[u8]) -> Vec<u8> {
    let mut m = vec![];
    if let Some(f) = flag {
        m.extend(pb_varint(1, f.wire()));
    }
    if !data.is_empty() {
        m.extend(pb_bytes(2, data));
    }
    lp(&m)
}

#[derive(Debug)]
struct WireFrame {
    flag: Option<u64>,
    data: Vec<u8>,
}

fn decode_wire(mut b: &[u8]) -> Option<Vec<WireFrame>> {
    let mut out = vec![];
    while !b.is_empty() {
        let (l, n) = read_uvarint(b)?;
        b = &b[n..];
        if (l as usize) > b.len() {
            return None;
        }
        let fields = pb_parse(&b[..l as usize])?;
        b = &b[l as usize..];
        let mut f = WireFrame { flag: None, data: vec![] };
        for (field, wire, payload) in fields {
            match (field, wire) {
                (1, 0) => f.flag = Some(u64::from_le_bytes(payload[..8].try_into().ok()?)),
                (2, 2) => f.data = payload,
                _ => return None,
            }
        }
        out.push(f);
    }
    Some(out)
}

fn res_str<T: std::fmt::Debug>(r: &Poll<io::Result<T>>) -> String {
    match r {
        Poll::Pending => "Pending".into(),
        Poll::Ready(Ok(v)) => format!("Ok({v:?})"),
        Poll::Ready(Err(e)) => format!("Err({:?})", e.kind()),
    }
}

fn check(case: &Case) -> Outcome {
    let (a, _b) = plain_pair();
    let st = Arc::new(Mutex::new(ChanSt { wpend: case.wpend.iter().copied().collect(), ..Default::default() }));
    let chan = Chan { io: a.clone(), st: st.clone() };
    let (mut stream, _listener) = Stream::new(chan);
    let w = noop_waker();
    let mut cx = Context::from_waker(&w);

    let mut m = Model::default();
    let mut frames: Vec<(Option<Flag>, Vec<u8>)> = vec![];
    let mut applied = 0usize;
    let mut seen_eofs = 0usize;
    let mut in_ctr: u8 = 0;
    let mut out_ctr: u8 = 0;
    let mut accepted: Vec<u8> = vec![];
    let mut wire: Vec<u8> = vec![];
    let mut fin_started = false;
    let mut fin_done = false;
    let mut stop_started = false;
    let mut stop_done = false;
    let mut labels: Vec<&'static str> = vec![];
    let mut rejected = 0u32;
    let mut succeeded = 0u32;
    let mut trace: Vec<String> = vec![];

    macro_rules! fail {
        ($sig:expr, $what:expr) => {
            return Outcome::fail($sig, json!({"what": $what, "trace": trace}))
        };
    }

    for (step, op) in case.ops.iter().enumerate() {
        let pre = m.clone();
        // run the operation (exactly one poll), then advance the model by what the stream consumed
        enum R {
            Read(Poll<io::Result<usize>>, Vec<u8>),
            Write(Poll<io::Result<usize>>, Vec<u8>),
            Unit(Poll<io::Result<()>>),
            None,
        }
        let r = match op {
            Op::Read(n) => {
                let mut buf = vec![0u8; (*n).max(1) as usize];
                let r = Pin::new(&mut stream).poll_read(&mut cx, &mut buf);
                if let Poll::Ready(Ok(k)) = &r {
                    buf.truncate(*k);
                }
                R::Read(r, buf)
            }
            Op::Write(n) => {
                let data: Vec<u8> = (0..(*n).max(1) as usize)
                    .map(|_| {
                        out_ctr = out_ctr.wrapping_add(1);
                        out_ctr
                    })
                    .collect();
                let r = Pin::new(&mut stream).poll_write(&mut cx, &data);
                R::Write(r, data)
            }
            Op::CloseWrite => R::Unit(Pin::new(&mut stream).poll_close(&mut cx)),
            Op::CloseRead => R::Unit(Pin::new(&mut stream).poll_close_read(&mut cx)),
            Op::Flush => {
                let _ = Pin::new(&mut stream).poll_flush(&mut cx);
                R::None
            }
            Op::InData(n) => {
                let data: Vec<u8> = (0..(*n).max(1))
                    .map(|_| {
                        in_ctr = in_ctr.wrapping_add(1);
                        in_ctr
                    })
                    .collect();
                let enc = encode_frame(None, &data);
                st.lock().unwrap().frame_rem.push_back(enc.len());
                a.push_raw(&enc);
                frames.push((None, data));
                R::None
            }
            Op::InFlag(f, n) => {
                // data in the same frame as FIN is dropped by the implementation and not part of the
                // statement: not generated
                let n = if *f == Flag::Fin { 0 } else { *n };
                let data: Vec<u8> = (0..n)
                    .map(|_| {
                        in_ctr = in_ctr.wrapping_add(1);
                        in_ctr
                    })
                    .collect();
                let enc = encode_frame(Some(*f), &data);
                st.lock().unwrap().frame_rem.push_back(enc.len());
                a.push_raw(&enc);
                frames.push((Some(*f), data));
                R::None
            }
            Op::InEof => {
                a.close_incoming();
                R::None
            }
        };
        wire.extend(a.take_raw());
        let (consumed, eofs) = {
            let s = st.lock().unwrap();
            (s.consumed, s.eofs)
        };
        let consumed_now = consumed - applied;
        while applied < consumed {
            let (f, d) = &frames[applied];
            m.apply(*f, d);
            match f {
                Some(Flag::Fin) => labels.push("fin_consumed"),
                Some(Flag::Stop) => labels.push("stop_consumed"),
                Some(Flag::Reset) => labels.push("reset_consumed"),
                None => {}
            }
            applied += 1;
        }
        if eofs > seen_eofs {
            // end-of-file of the channel is the remote's FIN
            seen_eofs = eofs;
            m.apply(Some(Flag::Fin), &[]);
            labels.push("eof_observed");
        }

        match r {
            R::None => {
                trace.push(format!("{step}: {op:?}"));
            }
            R::Read(res, got) => {
                trace.push(format!("{step}: {op:?} -> {} (consumed {consumed_now} frame(s))", res_str(&res)));
                match &res {
                    Poll::Ready(Ok(k)) if *k > 0 => {
                        if pre.reset {
                            fail!("C56:read-succeeds-after-reset", "read returned data after a consumed RESET");
                        }
                        if !pre.read_open() {
                            fail!("C56:read-after-read-half-closed", "read returned data although the read half was closed before the operation");
                        }
                        // bytes must be the next undelivered bytes, in order
                        let want: Vec<u8> = m.pending.iter().take(*k).copied().collect();
                        if want.len() < *k || want != got {
                            fail!("C56:read-wrong-bytes", format!("got {got:?}, next undelivered bytes {want:?}"));
                        }
                        for _ in 0..*k {
                            m.pending.pop_front();
                        }
                        succeeded += 1;
                        labels.push("read_data");
                    }
                    Poll::Ready(Ok(_)) => {
                        if pre.reset {
                            fail!("C56:read-succeeds-after-reset", "read returned Ok(0) after a consumed RESET");
                        }
                        if pre.read_open() && !pre.pending.is_empty() {
                            fail!("C56:read-eof-with-buffered-data", "read returned Ok(0) while consumed data was undelivered and the read half open");
                        }
                        if pre.read_open() {
                            labels.push("read_zero_while_open");
                        } else {
                            labels.push("read_zero_while_closed");
                        }
                    }
                    Poll::Ready(Err(e)) => {
                        if pre.reset {
                            if e.kind() != io::ErrorKind::ConnectionReset {
                                fail!("C56:after-reset-not-connectionreset", format!("read failed with {:?} after a consumed RESET", e.kind()));
                            }
                            labels.push("read_rejected_reset");
                        } else if pre.read_open() && m.read_open() {
                            fail!("C56:read-fails-while-read-half-open", format!("read failed with {:?} while the read half was open", e.kind()));
                        } else {
                            labels.push("read_rejected");
                        }
                        rejected += 1;
                    }
                    Poll::Pending => {
                        if pre.reset {
                            fail!("C56:after-reset-not-connectionreset", "read is Pending after a consumed RESET");
                        }
                        if pre.read_open() && !pre.pending.is_empty() {
                            fail!("C56:read-pending-with-buffered-data", "read is Pending while consumed data is undelivered");
                        }
                        labels.push("read_pending");
                    }
                }
            }
            R::Write(res, data) => {
                trace.push(format!("{step}: Write({}) -> {} (consumed {consumed_now} frame(s))", data.len(), res_str(&res)));
                match &res {
                    Poll::Ready(Ok(k)) => {
                        if pre.reset {
                            fail!("C56:write-succeeds-after-reset", "write accepted after a consumed RESET");
                        }
                        if !pre.write_open() {
                            fail!("C56:write-after-write-half-closed", "write accepted although the write half was closed before the operation");
                        }
                        // a write on a read-closed stream first consumes the pending inbound flags: if one of them
                        // closed the write half (STOP_SENDING) or reset the stream, this very write must not be accepted
                        if m.reset || !m.write_open() {
                            fail!(
                                "C56:write-accepted-by-the-operation-that-consumed-stop-sending-or-reset",
                                format!("write accepted although the stream consumed {consumed_now} frame(s) during this operation that closed the write half or reset the stream")
                            );
                        }
                        if *k == 0 || *k > data.len() || *k > MAX_DATA_LEN {
                            fail!("C56:write-bad-count", format!("write of {} bytes returned {k}", data.len()));
                        }
                        accepted.extend_from_slice(&data[..*k]);
                        // rewind the generator of outgoing bytes for the part that was not accepted
                        out_ctr = out_ctr.wrapping_sub((data.len() - *k) as u8);
                        succeeded += 1;
                        labels.push("write_ok");
                    }
                    Poll::Ready(Err(e)) => {
                        out_ctr = out_ctr.wrapping_sub(data.len() as u8);
                        if pre.reset {
                            if e.kind() != io::ErrorKind::ConnectionReset {
                                fail!("C56:after-reset-not-connectionreset", format!("write failed with {:?} after a consumed RESET", e.kind()));
                            }
                            labels.push("write_rejected_reset");
                        } else if pre.write_open() && m.write_open() {
                            fail!("C56:write-fails-while-write-half-open", format!("write failed with {:?} while the write half was open", e.kind()));
                        } else {
                            labels.push("write_rejected");
                        }
                        rejected += 1;
                    }
                    Poll::Pending => {
                        out_ctr = out_ctr.wrapping_sub(data.len() as u8);
                        if pre.reset {
                            fail!("C56:after-reset-not-connectionreset", "write is Pending after a consumed RESET");
                        }
                        labels.push("write_pending");
                    }
                }
            }
            R::Unit(res) => {
                trace.push(format!("{step}: {op:?} -> {}", res_str(&res)));
                let is_write = *op == Op::CloseWrite;
                match &res {
                    Poll::Ready(Err(e)) => {
                        if pre.reset {
                            if e.kind() != io::ErrorKind::ConnectionReset {
                                fail!("C56:after-reset-not-connectionreset", format!("{op:?} failed with {:?} after a consumed RESET", e.kind()));
                            }
                            labels.push("close_rejected_reset");
                        } else if is_write && pre.write_open() && !pre.close_read_in_progress {
                            fail!("C56:close-write-fails-while-open", format!("poll_close failed with {:?} while the write half was open", e.kind()));
                        } else if !is_write && pre.read_open() && !pre.close_write_in_progress {
                            fail!("C56:close-read-fails-while-open", format!("poll_close_read failed with {:?} while the read half was open", e.kind()));
                        } else {
                            labels.push("close_rejected");
                        }
                        rejected += 1;
                    }
                    Poll::Ready(Ok(())) | Poll::Pending => {
                        if pre.reset {
                            fail!("C56:after-reset-not-connectionreset", format!("{op:?} returned {} after a consumed RESET", res_str(&res)));
                        }
                        let done = matches!(res, Poll::Ready(Ok(())));
                        if is_write {
                            if pre.write_open() {
                                fin_started = true;
                                m.close_write_in_progress = true;
                            }
                            if done {
                                if fin_started {
                                    fin_done = true;
                                }
                                m.close_write_in_progress = false;
                            } else {
                                labels.push("close_write_pending");
                            }
                            m.write_closed_local = true;
                        } else {
                            if pre.read_open() {
                                stop_started = true;
                                m.close_read_in_progress = true;
                            }
                            if done {
                                if stop_started {
                                    stop_done = true;
                                }
                                m.close_read_in_progress = false;
                            } else {
                                labels.push("close_read_pending");
                            }
                            m.read_closed_local = true;
                            m.pending.clear();
                        }
                    }
                }
            }
        }
        if m.reset {
            m.close_read_in_progress = false;
            m.close_write_in_progress = false;
        }
    }

    // what the stream put on the wire: accepted bytes in order, nothing after FIN
    let mut flushed = false;
    for _ in 0..case.wpend.len() + 4 {
        if let Poll::Ready(r) = Pin::new(&mut stream).poll_flush(&mut cx) {
            flushed = r.is_ok();
            break;
        }
    }
    wire.extend(a.take_raw());
    let Some(wf) = decode_wire(&wire) else {
        fail!("C56:wire-undecodable", "bytes written by the stream are not a sequence of length-prefixed Messages");
    };
    let mut data_out: Vec<u8> = vec![];
    let mut fin_seen = 0;
    let mut stop_seen = 0;
    for f in &wf {
        if !f.data.is_empty() {
            if fin_seen > 0 {
                fail!("C56:data-after-fin-on-wire", "a data message was sent after FIN");
            }
            if f.data.len() > MAX_DATA_LEN {
                fail!("C56:oversized-message", format!("data message of {} bytes", f.data.len()));
            }
            data_out.extend_from_slice(&f.data);
        }
        match f.flag {
            Some(0) => fin_seen += 1,
            Some(1) => stop_seen += 1,
            Some(2) | None => {}
            Some(x) => fail!("C56:wire-undecodable", format!("unknown flag {x}")),
        }
    }
    if flushed && data_out != accepted {
        fail!("C56:wire-data-differs-from-accepted-writes", format!("accepted {} bytes, wire carries {} bytes", accepted.len(), data_out.len()));
    }
    if !flushed && !accepted.starts_with(&data_out) {
        fail!("C56:wire-data-differs-from-accepted-writes", "wire data is not a prefix of the accepted writes");
    }
    if fin_seen > 1 || stop_seen > 1 {
        fail!("C56:duplicate-flag-on-wire", format!("FIN x{fin_seen}, STOP_SENDING x{stop_seen}"));
    }
    if (fin_done && fin_seen != 1) || (stop_done && stop_seen != 1) {
        fail!("C56:close-completed-without-flag", format!("close completed: FIN {fin_done}/{fin_seen}, STOP_SENDING {stop_done}/{stop_seen}"));
    }

    labels.sort();
    labels.dedup();
    Outcome::pass_l(rejected > 0 && succeeded > 0, labels)
}

// ---------------------------------------------------------------------------------------------

const ALPHABET: usize = 9;

fn symbol(i: usize) -> Op {
    match i {
        0 => Op::Read(2),
        1 => Op::Write(2),
        2 => Op::CloseWrite,
        3 => Op::CloseRead,
        4 => Op::InData(3),
        5 => Op::InFlag(Flag::Fin, 0),
        6 => Op::InFlag(Flag::Stop, 0),
        7 => Op::InFlag(Flag::Reset, 0),
        _ => Op::InEof,
    }
}

fn nth_sequence(len: usize, mut idx: usize) -> Vec<Op> {
    let mut v = Vec::with_capacity(len);
    for _ in 0..len {
        v.push(symbol(idx % ALPHABET));
        idx /= ALPHABET;
    }
    v
}

fn op_strategy() -> impl Strategy<Value = Op> {
    prop_oneof![
        6 => prop_oneof![Just(1u16), Just(2u16), 3u16..=16, Just(4096u16)].prop_map(Op::Read),
        4 => prop_oneof![4 => 1u16..=8, 1 => Just(MAX_DATA_LEN as u16), 1 => Just(MAX_DATA_LEN as u16 + 1), 1 => Just(20000u16)].prop_map(Op::Write),
        3 => Just(Op::CloseWrite),
        3 => Just(Op::CloseRead),
        1 => Just(Op::Flush),
        5 => (1u8..=6).prop_map(Op::InData),
        2 => Just(Op::InFlag(Flag::Fin, 0)),
        2 => (0u8..=3).prop_map(|n| Op::InFlag(Flag::Stop, n)),
        2 => (0u8..=3).prop_map(|n| Op::InFlag(Flag::Reset, n)),
        1 => Just(Op::InEof),
    ]
}

pub fn run(ctx: &mut Ctx) {
    ctx.assume("the data channel delivers whole frames (one per read) and never fails; frames are well-formed Messages");
    ctx.assume("a flag takes effect when the stream consumes the frame carrying it (observed through the channel's frame counter); end-of-file of the channel counts as FIN");
    ctx.assume("data carried in the same frame as FIN is not generated (the implementation drops it; outside the statement)");
    ctx.assume("`poll_flush` results are not asserted; for reads and closes the result of the very operation that consumes a RESET is not asserted (only later operations); a write must not be accepted by the operation that itself consumed STOP_SENDING or RESET");

    let depth = ctx.tier.sel(6usize, 7usize);
    ctx.sweep(
        "exhaustive",
        &format!("every sequence of length 1..={depth} over the 9 symbols read(2) write(2) close_write close_read in-data(3) in-FIN in-STOP_SENDING in-RESET in-EOF, channel always writable; non-trivial = at least one operation accepted and one rejected because of a closed half or reset"),
        true,
        &|lane| {
            (1..=depth).flat_map(move |len| {
                let total = ALPHABET.pow(len as u32);
                (0..total).skip(lane).step_by(LANES).map(move |i| Case { ops: nth_sequence(len, i), wpend: vec![] })
            })
        },
        &check,
    );

    ctx.check::<Case>(
        "random",
        "random sequences of 1..=24 operations with varied sizes (reads 1..4096, writes up to beyond the message limit), flags carrying data, and a channel whose writes return Pending at scripted polls so that close operations stay in progress across other operations; non-trivial as above",
        ctx.n(300_000, 6_000_000),
        &|| {
            (proptest::collection::vec(op_strategy(), 1..=24), proptest::collection::vec(prop::bool::weighted(0.3), 0..=12))
                .prop_map(|(ops, wpend)| Case { ops, wpend })
                .boxed()
        },
        &check,
    );
}
