//! C26 — mplex limits: max_substreams (excess inbound opens are reset), max_buffer_len (+1 frame),
//! Block never drops data, ResetStream resets the overflowing substream and its reads end.
//!
//! The harness is the raw remote: it injects hand-encoded mplex frames (one frame per read of the
//! muxer, so the number of frames the muxer has decoded is observable) and interprets local
//! operations as single polls of the real `StreamMuxer` / substream API.
//!
//! The remote can also stop reading (`Stall` / `Unstall`: every write of the muxer to the connection
//! is Pending) while the application writes on held substreams (`WriteLocal`), so that the muxer's
//! send buffer goes above its high-water mark and closes, opens, resets and flushes run into write
//! back-pressure. A small *bulk* class of cases constructs exactly that: stall, write past the
//! high-water mark, poll_close (cannot complete), release, close again, then a burst of remote
//! opens and data, checked by the same limit / no-loss model.

use crate::chan::Chan;
use futures::io::{AsyncRead, AsyncWrite};
use futures::task::noop_waker;
use futures::FutureExt;
use libp2p_core::muxing::StreamMuxer;
use libp2p_core::upgrade::InboundConnectionUpgrade;
use libp2p_mplex::{Config, MaxBufferBehaviour, Substream};
use proptest::prelude::*;
use serde::{Deserialize, Serialize};
use serde_json::json;
use std::collections::{BTreeMap, BTreeSet, VecDeque};
use std::pin::Pin;
use std::task::{Context, Poll};
use vcore::refcodec::{read_uvarint, uvarint};
use vcore::simio::plain_pair;
use vcore::{pick, Ctx, Outcome};

#[derive(Clone, Debug, Serialize, Deserialize)]
pub enum Op {
    /// remote opens a fresh substream (numbers 0,1,2,… with generated gaps)
    ROpen { gap: u8 },
    /// remote sends a data frame of `len` payload bytes on one of its streams
    RData { s: u16, len: u8 },
    RClose { s: u16 },
    RReset { s: u16 },
    /// one poll_inbound
    Accept,
    /// one poll_read (64-byte buffer ≥ any frame) on a held substream
    Read { h: u16 },
    /// drop a held substream
    Drop { h: u16 },
    /// one poll_close on a held substream
    CloseLocal { h: u16 },
    /// one poll_flush on a held substream
    Flush { h: u16 },
    /// one poll_outbound
    OpenOut,
    /// up to `frames` poll_write calls (64 KiB buffer, i.e. one frame of split_send_size bytes each)
    /// on a held substream, stopping at the first Pending / error; nothing is flushed
    WriteLocal { h: u16, frames: u8 },
    /// the remote stops reading: every write to the connection is Pending until `Unstall`
    Stall,
    Unstall,
}

#[derive(Clone, Debug, Serialize, Deserialize)]
pub struct Case {
    max_substreams: u8,
    max_buffer_len: u8,
    reset_mode: bool,
    ops: Vec<Op>,
    #[serde(default = "default_split")]
    split_send_size: u16,
}

fn default_split() -> u16 {
    8192
}

/// send high-water mark of the `asynchronous_codec::Framed` sink mplex writes into
const HWM: u64 = 128 * 1024;

fn op() -> impl Strategy<Value = Op> {
    prop_oneof![
        5 => prop_oneof![4 => Just(0u8), 1 => 1u8..=3].prop_map(|gap| Op::ROpen { gap }),
        14 => (any::<u16>(), 1u8..=20).prop_map(|(s, len)| Op::RData { s, len }),
        2 => any::<u16>().prop_map(|s| Op::RClose { s }),
        1 => any::<u16>().prop_map(|s| Op::RReset { s }),
        5 => Just(Op::Accept),
        6 => any::<u16>().prop_map(|h| Op::Read { h }),
        2 => any::<u16>().prop_map(|h| Op::Drop { h }),
        1 => any::<u16>().prop_map(|h| Op::CloseLocal { h }),
        1 => any::<u16>().prop_map(|h| Op::Flush { h }),
        1 => Just(Op::OpenOut),
        1 => (any::<u16>(), 1u8..=3).prop_map(|(h, frames)| Op::WriteLocal { h, frames }),
        1 => prop_oneof![Just(Op::Stall), Just(Op::Unstall)],
    ]
}

fn split() -> impl Strategy<Value = u16> {
    prop_oneof![4 => Just(8192u16), 1 => Just(64u16), 1 => Just(1024u16), 1 => Just(u16::MAX)]
}

fn strategy(max_ops: usize) -> impl Strategy<Value = Case> {
    (1u8..=6, 1u8..=5, any::<bool>(), proptest::collection::vec(op(), 1..=max_ops), split())
        .prop_map(|(max_substreams, max_buffer_len, reset_mode, ops, split_send_size)| Case { max_substreams, max_buffer_len, reset_mode, ops, split_send_size })
}

/// Bulk class, built by construction: some accepted substreams, generated prefix, `Stall`, enough
/// `WriteLocal` on one held substream to put the send buffer above the high-water mark,
/// `CloseLocal` on it (cannot complete), generated remote traffic, `Unstall`, optionally the
/// retried `CloseLocal`, a burst of remote opens, then a generated tail. Between `Stall` and the
/// retried close no operation changes the set of held substreams, so `h` names the same one.
fn bulk_strategy(max_ops: usize) -> impl Strategy<Value = Case> {
    let quiet_op = || {
        prop_oneof![
            2 => prop_oneof![4 => Just(0u8), 1 => 1u8..=3].prop_map(|gap| Op::ROpen { gap }),
            6 => (any::<u16>(), 1u8..=20).prop_map(|(s, len)| Op::RData { s, len }),
            1 => any::<u16>().prop_map(|s| Op::RClose { s }),
            3 => any::<u16>().prop_map(|h| Op::Read { h }),
            1 => any::<u16>().prop_map(|h| Op::Flush { h }),
        ]
    };
    (
        (1u8..=6, 1u8..=5, any::<bool>(), prop_oneof![Just(1024u16), Just(4096u16), Just(8192u16), Just(16384u16), Just(u16::MAX)]),
        (1usize..=3, proptest::collection::vec(op(), 0..=8), prop_oneof![Just(0u16), Just(0x8000u16), Just(u16::MAX)], 0u8..=3),
        (proptest::collection::vec(quiet_op(), 0..=4), proptest::collection::vec(quiet_op(), 0..=4), any::<bool>(), 0usize..=6),
        proptest::collection::vec(op(), 4..=max_ops / 2),
    )
        .prop_map(|((max_substreams, max_buffer_len, reset_mode, split_send_size), (n_in, pre, h, extra), (mid1, mid2, retry, burst), tail)| {
            let mut ops = vec![];
            for _ in 0..n_in {
                ops.push(Op::ROpen { gap: 0 });
                ops.push(Op::Accept);
            }
            ops.extend(pre);
            ops.push(Op::Unstall);
            ops.push(Op::Flush { h });
            ops.push(Op::Stall);
            let frames = (HWM as usize / split_send_size as usize + 1 + extra as usize).min(255) as u8;
            ops.push(Op::WriteLocal { h, frames });
            ops.extend(mid1);
            ops.push(Op::CloseLocal { h });
            ops.extend(mid2);
            ops.push(Op::Unstall);
            if retry {
                ops.push(Op::CloseLocal { h });
            }
            for _ in 0..burst {
                ops.push(Op::ROpen { gap: 0 });
            }
            ops.extend(tail);
            Case { max_substreams, max_buffer_len, reset_mode, ops, split_send_size }
        })
}

// wire format (mplex spec): header = num << 3 | flag, then length, then payload
const F_OPEN: u64 = 0;
const F_DATA_INITIATOR: u64 = 2;
const F_CLOSE_INITIATOR: u64 = 4;
const F_RESET_RECEIVER: u64 = 5;
const F_RESET_INITIATOR: u64 = 6;

fn frame(num: u64, flag: u64, payload: &[u8]) -> Vec<u8> {
    let mut v = uvarint((num << 3) | flag);
    v.extend(uvarint(payload.len() as u64));
    v.extend_from_slice(payload);
    v
}

fn decode_wire(mut b: &[u8]) -> Option<Vec<(u64, u64, Vec<u8>)>> {
    let mut out = vec![];
    while !b.is_empty() {
        let (h, n) = read_uvarint(b)?;
        b = &b[n..];
        let (l, n) = read_uvarint(b)?;
        b = &b[n..];
        if l as usize > b.len() {
            return None;
        }
        out.push((h >> 3, h & 7, b[..l as usize].to_vec()));
        b = &b[l as usize..];
    }
    Some(out)
}

#[derive(Clone, Debug)]
enum Sent {
    Open(u64),
    Data(u64, Vec<u8>),
    Close(u64),
    Reset(u64),
}

#[derive(Default, Debug)]
struct RStream {
    /// remote side: no more frames may be sent on it
    remote_finished: bool,
    seq: u8,
    // model, advanced when the muxer consumes frames
    seen: bool,
    refused: bool,
    accepted: bool,
    dropped: bool,
    recv_open: bool,
    overflowed: bool,
    buf: usize,
    /// frames the muxer accepted for this stream and the harness has not read yet
    unread: VecDeque<Vec<u8>>,
    eof_seen: bool,
    /// the muxer decoded a Reset of the remote for it
    reset_by_remote: bool,
    /// probe: a local poll_close on it hit write back-pressure
    close_bp: bool,
}

enum Held {
    In(u64, Substream<Chan>),
    Out(Substream<Chan>),
}

fn done(nontrivial: bool, mut labels: Vec<&'static str>) -> Outcome {
    labels.sort();
    labels.dedup();
    Outcome::pass_l(nontrivial, labels)
}

fn check(case: &Case) -> Outcome {
    let (a, _b) = plain_pair();
    let chan = Chan::new(a.clone());
    let mut cfg = Config::new();
    cfg.set_max_num_streams(case.max_substreams as usize)
        .set_split_send_size(case.split_send_size.max(1) as usize)
        .set_max_buffer_size(case.max_buffer_len as usize)
        .set_max_buffer_behaviour(if case.reset_mode { MaxBufferBehaviour::ResetStream } else { MaxBufferBehaviour::Block });
    let mut muxer = cfg.upgrade_inbound(chan.clone(), "/mplex/6.7.0").now_or_never().unwrap().unwrap();
    let max_sub = case.max_substreams as usize;
    let max_buf = case.max_buffer_len as usize;
    let w = noop_waker();
    let mut cx = Context::from_waker(&w);

    let mut streams: BTreeMap<u64, RStream> = BTreeMap::new();
    let mut order: Vec<u64> = vec![]; // remote streams in opening order
    let mut next_num: u64 = 0;
    let mut sent: Vec<Sent> = vec![];
    let mut applied = 0usize;
    let mut live = 0usize; // model: substreams the muxer holds (accepted or outbound, not dropped)
    let mut accept_queue: VecDeque<u64> = VecDeque::new();
    let mut held: Vec<Held> = vec![];
    let mut expect_reset: BTreeSet<u64> = BTreeSet::new();
    let mut blocking: Option<u64> = None;
    let mut labels: Vec<&'static str> = vec![];
    let mut trace: Vec<String> = vec![];
    let mut limit_hit = false;
    let mut conn_error = false;
    let mut stalled = false;
    let mut wire: Vec<u8> = vec![];
    // back-pressure bookkeeping (labels only): payload bytes accepted by poll_write, whether the
    // remote currently reads, handles whose poll_close was already called, back-pressured closes seen
    let mut accepted_payload: u64 = 0;
    let mut stalled_writes = false;
    let mut close_polled: Vec<bool> = vec![];
    let mut any_close_bp = false;
    let zeros = vec![0u8; 65536];

    macro_rules! fail {
        ($sig:expr, $what:expr) => {
            return Outcome::fail($sig, json!({"what": $what, "max_substreams": max_sub, "max_buffer_len": max_buf, "reset_mode": case.reset_mode, "trace": trace}))
        };
    }

    // apply the frames consumed by the muxer during the last operation to the model
    macro_rules! advance {
        ($reading:expr) => {{
            let consumed = chan.consumed();
            let reading: Option<u64> = $reading;
            while applied < consumed {
                match &sent[applied] {
                    Sent::Open(n) => {
                        let s = streams.get_mut(n).unwrap();
                        s.seen = true;
                        if any_close_bp {
                            labels.push("open-after-close-under-backpressure");
                        }
                        if live >= max_sub {
                            s.refused = true;
                            expect_reset.insert(*n);
                            limit_hit = true;
                            labels.push("open_refused");
                        } else {
                            s.accepted = true;
                            s.recv_open = true;
                            live += 1;
                            accept_queue.push_back(*n);
                        }
                    }
                    Sent::Data(n, d) => {
                        let s = streams.get_mut(n).unwrap();
                        if s.accepted && !s.dropped && s.recv_open {
                            let direct = reading == Some(*n) && s.buf == 0;
                            s.unread.push_back(d.clone());
                            if s.close_bp {
                                labels.push("data-after-close-under-backpressure");
                            }
                            if !direct {
                                s.buf += 1;
                                if s.buf >= 3 {
                                    labels.push("buffered>=3-frames");
                                }
                                if s.buf > max_buf + 1 {
                                    fail!("C26:buffer-exceeds-max-buffer-len-plus-one", format!("stream {n}: {} frames decoded and not read", s.buf));
                                }
                                if s.buf > max_buf {
                                    limit_hit = true;
                                    if case.reset_mode {
                                        s.recv_open = false;
                                        s.overflowed = true;
                                        expect_reset.insert(*n);
                                        labels.push("buffer_overflow_reset");
                                    } else {
                                        blocking = Some(*n);
                                        labels.push("buffer_full_blocking");
                                    }
                                }
                            }
                        }
                    }
                    Sent::Close(n) | Sent::Reset(n) => {
                        let s = streams.get_mut(n).unwrap();
                        if s.accepted && !s.dropped {
                            s.recv_open = false;
                            if matches!(&sent[applied], Sent::Reset(_)) {
                                s.reset_by_remote = true;
                            }
                        }
                    }
                }
                applied += 1;
            }
        }};
    }

    let pick_remote = |order: &Vec<u64>, s: u16| -> Option<u64> { if order.is_empty() { None } else { Some(order[pick(s, order.len())]) } };

    // one poll_read on held[i]; returns false when the case must end (connection error)
    macro_rules! do_read {
        ($i:expr) => {{
            let i: usize = $i;
            let mut buf = [0u8; 64];
            let (num, res) = match &mut held[i] {
                Held::In(n, sub) => (Some(*n), Pin::new(sub).poll_read(&mut cx, &mut buf)),
                Held::Out(sub) => (None, Pin::new(sub).poll_read(&mut cx, &mut buf)),
            };
            let pre_buf = num.map(|n| streams[&n].buf).unwrap_or(0);
            advance!(num);
            let mut progressed = false;
            match (num, res) {
                (_, Poll::Ready(Err(e))) => {
                    trace.push(format!("read held[{i}] -> Err({e})"));
                    conn_error = true;
                }
                (None, Poll::Ready(Ok(k))) => {
                    trace.push(format!("read outbound held[{i}] -> Ok({k})"));
                    if k > 0 {
                        fail!("C26:stream-delivers-foreign-bytes", "an outbound substream on which the remote never sent data returned bytes");
                    }
                    fail!("C26:eof-on-open-stream", "an outbound substream the remote never closed returned EOF");
                }
                (None, Poll::Pending) => {}
                (Some(n), Poll::Ready(Ok(k))) if k > 0 => {
                    trace.push(format!("read stream {n} -> Ok({k})"));
                    let s = streams.get_mut(&n).unwrap();
                    let got = &buf[..k];
                    match s.unread.pop_front() {
                        Some(want) if want == got => {}
                        Some(want) => {
                            let foreign = got[0] as u64 != n;
                            fail!(
                                if foreign { "C26:stream-delivers-foreign-bytes" } else if case.reset_mode { "C26:frame-lost-or-reordered" } else { "C26:block-mode-dropped-or-reordered-frame" },
                                format!("stream {n}: read {got:?}, next accepted frame is {want:?}")
                            );
                        }
                        None => fail!("C26:read-unexpected-frame", format!("stream {n}: read {got:?} but every accepted frame was already read")),
                    }
                    if pre_buf > 0 {
                        s.buf -= 1;
                        if blocking == Some(n) {
                            blocking = None;
                        }
                    }
                    progressed = true;
                }
                (Some(n), Poll::Ready(Ok(_))) => {
                    trace.push(format!("read stream {n} -> EOF"));
                    let s = streams.get_mut(&n).unwrap();
                    if s.recv_open {
                        fail!("C26:eof-on-open-stream", format!("stream {n} returned EOF although neither side closed or reset it"));
                    }
                    if !s.unread.is_empty() {
                        fail!(
                            if case.reset_mode { "C26:buffered-frames-lost-at-eof" } else { "C26:block-mode-dropped-or-reordered-frame" },
                            format!("stream {n} returned EOF with {} accepted frame(s) unread", s.unread.len())
                        );
                    }
                    s.eof_seen = true;
                }
                (Some(n), Poll::Pending) => {
                    let s = &streams[&n];
                    if !s.unread.is_empty() {
                        trace.push(format!("read stream {n} -> Pending"));
                        fail!(
                            if case.reset_mode { "C26:read-pending-with-buffered-frames" } else { "C26:block-mode-dropped-or-reordered-frame" },
                            format!("stream {n}: read is Pending although {} accepted frame(s) are unread", s.unread.len())
                        );
                    }
                    if !s.recv_open {
                        trace.push(format!("read stream {n} -> Pending"));
                        fail!(
                            if s.overflowed { "C26:reads-on-reset-stream-do-not-end" } else { "C26:reads-on-closed-stream-do-not-end" },
                            format!("stream {n}: read is Pending although the stream is closed/reset and has nothing buffered")
                        );
                    }
                }
            }
            progressed
        }};
    }

    macro_rules! do_accept {
        () => {{
            let res = Pin::new(&mut muxer).poll_inbound(&mut cx);
            advance!(None);
            match res {
                Poll::Ready(Ok(sub)) => {
                    let Some(n) = accept_queue.pop_front() else {
                        fail!("C26:more-open-substreams-than-max", "poll_inbound returned a substream although every accepted open was already delivered (an open beyond the limit was accepted)");
                    };
                    trace.push(format!("accept -> stream {n}"));
                    held.push(Held::In(n, sub));
                    close_polled.push(false);
                    true
                }
                Poll::Ready(Err(e)) => {
                    trace.push(format!("accept -> Err({e})"));
                    conn_error = true;
                    false
                }
                Poll::Pending => false,
            }
        }};
    }

    'ops: for op in &case.ops {
        match op {
            Op::ROpen { gap } => {
                next_num += *gap as u64;
                let n = next_num;
                next_num += 1;
                streams.insert(n, RStream::default());
                order.push(n);
                chan.push_frame(&frame(n, F_OPEN, b""));
                sent.push(Sent::Open(n));
                trace.push(format!("remote: Open {n}"));
            }
            Op::RData { s, len } => {
                let Some(n) = pick_remote(&order, *s) else { continue };
                let st = streams.get_mut(&n).unwrap();
                if st.remote_finished {
                    continue;
                }
                // payload: [stream number, sequence number, filler…] — unique per frame
                let mut d = vec![n as u8, st.seq];
                st.seq = st.seq.wrapping_add(1);
                while d.len() < (*len).max(2) as usize {
                    d.push((d.len() as u8).wrapping_mul(31) ^ (n as u8));
                }
                chan.push_frame(&frame(n, F_DATA_INITIATOR, &d));
                sent.push(Sent::Data(n, d));
                trace.push(format!("remote: Data {n} #{}", st.seq.wrapping_sub(1)));
            }
            Op::RClose { s } | Op::RReset { s } => {
                let Some(n) = pick_remote(&order, *s) else { continue };
                let st = streams.get_mut(&n).unwrap();
                if st.remote_finished {
                    continue;
                }
                st.remote_finished = true;
                if matches!(op, Op::RClose { .. }) {
                    chan.push_frame(&frame(n, F_CLOSE_INITIATOR, b""));
                    sent.push(Sent::Close(n));
                    trace.push(format!("remote: Close {n}"));
                } else {
                    chan.push_frame(&frame(n, F_RESET_INITIATOR, b""));
                    sent.push(Sent::Reset(n));
                    trace.push(format!("remote: Reset {n}"));
                }
            }
            Op::Accept => {
                do_accept!();
            }
            Op::Read { h } => {
                if held.is_empty() {
                    continue;
                }
                do_read!(pick(*h, held.len()));
            }
            Op::Drop { h } => {
                if held.is_empty() {
                    continue;
                }
                let i = pick(*h, held.len());
                close_polled.remove(i);
                if blocking.is_some() && !matches!(&held[i], Held::In(n, _) if blocking == Some(*n)) {
                    labels.push("other-substream-dropped-while-blocked");
                }
                match held.remove(i) {
                    Held::In(n, sub) => {
                        drop(sub);
                        trace.push(format!("drop stream {n}"));
                        let s = streams.get_mut(&n).unwrap();
                        s.dropped = true;
                        s.unread.clear();
                        live -= 1;
                        if blocking == Some(n) {
                            // the connection stays blocked on a stream nobody can read any more;
                            // liveness after that is outside the statement: end the case here
                            stalled = true;
                            labels.push("dropped_blocking_stream");
                        }
                    }
                    Held::Out(sub) => {
                        drop(sub);
                        trace.push("drop outbound".into());
                        live -= 1;
                    }
                }
            }
            Op::CloseLocal { h } | Op::Flush { h } => {
                if held.is_empty() {
                    continue;
                }
                let i = pick(*h, held.len());
                let close = matches!(op, Op::CloseLocal { .. });
                let res = match &mut held[i] {
                    Held::In(_, sub) | Held::Out(sub) => {
                        if close {
                            Pin::new(sub).poll_close(&mut cx)
                        } else {
                            Pin::new(sub).poll_flush(&mut cx)
                        }
                    }
                };
                advance!(None);
                trace.push(format!("{} held[{i}] -> {res:?}", if close { "close" } else { "flush" }));
                if let Poll::Ready(Err(_)) = res {
                    conn_error = true;
                }
                if close {
                    // probe: first poll_close of a substream that still has to send its Close frame,
                    // with the send buffer above the high-water mark before and after the poll while
                    // the connection accepts nothing: the Close frame itself could not be queued
                    let sink = accepted_payload.saturating_sub(a.written());
                    let needs_frame = match &held[i] {
                        Held::In(n, _) => !streams[n].reset_by_remote && !streams[n].overflowed,
                        Held::Out(_) => true,
                    };
                    if !close_polled[i] && needs_frame && stalled_writes && sink >= HWM && res.is_pending() {
                        labels.push("close-under-backpressure");
                        any_close_bp = true;
                        if let Held::In(n, _) = &held[i] {
                            streams.get_mut(n).unwrap().close_bp = true;
                        }
                    }
                    close_polled[i] = true;
                }
            }
            Op::WriteLocal { h, frames } => {
                if held.is_empty() {
                    continue;
                }
                let i = pick(*h, held.len());
                let mut wrote = 0usize;
                let mut last = String::new();
                for _ in 0..*frames {
                    let res = match &mut held[i] {
                        Held::In(_, sub) | Held::Out(sub) => Pin::new(sub).poll_write(&mut cx, &zeros),
                    };
                    match res {
                        Poll::Ready(Ok(k)) => {
                            wrote += k;
                            accepted_payload += k as u64;
                            if k == 0 {
                                break;
                            }
                        }
                        // a substream error (closed for writing / reset), or a connection error that
                        // the next muxer operation will report
                        Poll::Ready(Err(e)) => {
                            last = format!(" then Err({e})");
                            break;
                        }
                        Poll::Pending => {
                            last = " then Pending".into();
                            break;
                        }
                    }
                }
                advance!(None);
                trace.push(format!("write held[{i}]: {wrote} bytes accepted{last}"));
                if accepted_payload.saturating_sub(a.written()) >= HWM {
                    labels.push("sink-above-high-water-mark");
                }
            }
            Op::Stall => {
                chan.set_blocked(true);
                stalled_writes = true;
                trace.push("remote stops reading".into());
            }
            Op::Unstall => {
                if stalled_writes {
                    trace.push("remote reads again".into());
                }
                chan.set_blocked(false);
                stalled_writes = false;
            }
            Op::OpenOut => {
                let res = Pin::new(&mut muxer).poll_outbound(&mut cx);
                advance!(None);
                match res {
                    Poll::Ready(Ok(sub)) => {
                        trace.push("open outbound -> Ok".into());
                        if live >= max_sub {
                            fail!("C26:more-open-substreams-than-max", format!("poll_outbound returned a substream while {live} substreams were open"));
                        }
                        live += 1;
                        held.push(Held::Out(sub));
                        close_polled.push(false);
                    }
                    Poll::Ready(Err(e)) => {
                        trace.push(format!("open outbound -> Err({e})"));
                        conn_error = true;
                    }
                    Poll::Pending => {
                        trace.push("open outbound -> Pending".into());
                        if live >= max_sub {
                            limit_hit = true;
                            labels.push("outbound_open_blocked");
                        }
                    }
                }
            }
        }
        wire.extend(a.take_raw());
        if held.len() > max_sub {
            fail!("C26:more-open-substreams-than-max", format!("{} substreams held by the application", held.len()));
        }
        if conn_error || stalled {
            break 'ops;
        }
    }

    if conn_error {
        labels.push("connection_error");
        return done(false, labels);
    }
    if stalled {
        return done(false, labels);
    }

    // final phase: the remote reads again; accept everything, read everything
    chan.set_blocked(false);
    let mut rounds = 0;
    loop {
        rounds += 1;
        if rounds > 2000 {
            return Outcome::Inconclusive("final drain did not finish within 2000 rounds".into());
        }
        let mut progress = false;
        let consumed_at_round_start = chan.consumed();
        loop {
            let got = do_accept!();
            if held.len() > max_sub {
                fail!("C26:more-open-substreams-than-max", format!("{} substreams held by the application", held.len()));
            }
            if !got {
                break;
            }
            progress = true;
        }
        for i in 0..held.len() {
            for _ in 0..(max_buf + 4) {
                let before = chan.consumed();
                if do_read!(i) || chan.consumed() > before {
                    progress = true;
                } else {
                    break;
                }
                if conn_error {
                    break;
                }
            }
        }
        if conn_error {
            labels.push("connection_error");
            return done(false, labels);
        }
        if !progress && chan.consumed() == consumed_at_round_start {
            break;
        }
    }
    if applied < sent.len() {
        fail!("C26:frames-left-undecoded", format!("{} of {} frames were never decoded although every substream was read until Pending/EOF", sent.len() - applied, sent.len()));
    }
    // streams closed/reset by either side must have ended
    for h in &held {
        if let Held::In(n, _) = h {
            let s = &streams[n];
            if !s.recv_open && !s.eof_seen {
                fail!(if s.overflowed { "C26:reads-on-reset-stream-do-not-end" } else { "C26:reads-on-closed-stream-do-not-end" }, format!("stream {n} never returned EOF"));
            }
        }
    }
    // flush pending frames so that resets become visible on the wire
    if held.is_empty() {
        if let Poll::Ready(Ok(sub)) = Pin::new(&mut muxer).poll_outbound(&mut cx) {
            held.push(Held::Out(sub));
            close_polled.push(false);
        }
    }
    let mut flushed = false;
    if let Some(Held::In(_, sub) | Held::Out(sub)) = held.first_mut() {
        for _ in 0..8 {
            if let Poll::Ready(r) = Pin::new(&mut *sub).poll_flush(&mut cx) {
                flushed = r.is_ok();
                break;
            }
        }
    }
    wire.extend(a.take_raw());
    let Some(frames) = decode_wire(&wire) else {
        fail!("C26:wire-undecodable", "bytes written by the muxer are not a sequence of mplex frames");
    };
    let resets: BTreeSet<u64> = frames.iter().filter(|f| f.1 == F_RESET_RECEIVER).map(|f| f.0).collect();
    if flushed {
        for n in &expect_reset {
            if !resets.contains(n) {
                let s = &streams[n];
                fail!(
                    if s.refused { "C26:excess-open-not-answered-with-reset" } else { "C26:overflowing-stream-not-reset" },
                    format!("no Reset frame for stream {n} on the wire; resets seen for {resets:?}")
                );
            }
        }
    } else {
        labels.push("no_final_flush");
    }
    for n in &resets {
        let Some(s) = streams.get(n) else {
            fail!("C26:unexpected-reset", format!("Reset for a stream {n} the remote never opened"));
        };
        if !(s.refused || s.overflowed || s.dropped) {
            fail!("C26:unexpected-reset", format!("Reset for stream {n}, which was accepted, is still held and never overflowed"));
        }
    }
    if streams.values().any(|s| s.accepted && s.seq > 0) {
        labels.push("data_delivered");
    }
    done(limit_hit, labels)
}

// keep the trait imports used
#[allow(dead_code)]
fn _assert_traits<T: AsyncRead + AsyncWrite>() {}

pub fn run(ctx: &mut Ctx) {
    ctx.assume("the remote is the harness: well-formed frames only, fresh stream numbers for every Open, no data after its own Close/Reset; the pipe never fails; while the remote does not read (Stall..Unstall) every write to the connection is Pending, otherwise it accepts everything; the remote always reads again before the final phase");
    ctx.assume("the muxer is given exactly one frame per read, so the frames it has decoded are counted exactly; the reference model is advanced only by decoded frames and by the harness's own operations");
    ctx.assume("inbound substreams are handed out in the order their Open frames were decoded (used to name the substream returned by poll_inbound; every byte read is then checked against that stream's own frames)");
    ctx.assume("dropping the substream that currently blocks the connection (Block mode, full buffer) ends the case: what happens afterwards is outside the statement; dropping any other substream while one blocks continues the case");
    ctx.assume("local writes and closes are not modelled (their results are only traced): they must not change which substreams count, which frames are delivered, or which resets appear");
    let max_ops = ctx.tier.sel(60, 120);
    ctx.check::<Case>(
        "limits",
        "max_substreams 1..6, max_buffer_len 1..5, Block or ResetStream; 93 %: split_send_size in {64,1024,8192,65535}, 1..60 operations {remote Open/Data(2..20 bytes)/Close/Reset/stop reading/read again; local poll_inbound, poll_read, drop, poll_close, poll_flush, poll_outbound, poll_write x1..3}; 7 % bulk cases with split_send_size in {1024,4096,8192,16384,65535} built as [Open+accept x1..3, 0..8 ops, remote stops reading, poll_write until > 128 KiB are queued, 0..4 remote ops/reads, poll_close (back-pressured), 0..4 remote ops/reads, remote reads again, (poll_close again), 0..6 Opens, 4..30 ops]; then accept and read everything, flush; non-trivial = an Open was refused, a buffer reached max_buffer_len+1 frames, or poll_outbound was refused at the limit",
        ctx.n(400_000, 10_000_000),
        &move || prop_oneof![93 => strategy(max_ops).boxed(), 7 => bulk_strategy(max_ops).boxed()].boxed(),
        &check,
    );
}
