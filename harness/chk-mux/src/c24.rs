//! C24 — mplex and yamux substreams deliver exactly their own bytes, in order, then EOF.
//!
//! Both endpoints are the real `StreamMuxer`s over one in-memory pipe (generated chunking, spurious
//! Pending, optional bounded capacity). Every substream half has its own writer / reader task, each
//! endpoint has a driver task owning the muxer; the harness-owned executor decides which woken task
//! runs next (generated schedule, then a fair drain to quiescence).
//!
//! Byte j of stream i in direction d is a fixed function of (i, d, j) and the first four bytes the
//! opener writes are a tag naming the stream, so every received byte is checked against the one
//! sequence it may belong to.
//!
//! Case classes: the *general* class (small writes, any chunking) and a small *bulk* class: one
//! substream carries 130..300 KiB written without an intermediate flush over a pipe whose written
//! direction is bounded, so that the muxer's send buffer goes above its high-water mark while the
//! connection's `poll_write` is Pending, and the half-close is issued in exactly that state; the
//! other side answers only after it has seen end-of-stream (`WOp::AwaitEof`, request/response).

use futures::future::poll_fn;
use futures::io::{AsyncRead, AsyncReadExt, AsyncWrite, AsyncWriteExt};
use futures::FutureExt;
use libp2p_core::muxing::StreamMuxer;
use libp2p_core::upgrade::{InboundConnectionUpgrade, OutboundConnectionUpgrade};
use proptest::prelude::*;
use serde::{Deserialize, Serialize};
use serde_json::json;
use std::any::Any;
use std::cell::Cell;
use std::collections::VecDeque;
use std::pin::Pin;
use std::sync::{Arc, Mutex};
use std::task::{Poll, Waker};
use vcore::runner::LANES;
use vcore::simexec::Exec;
use vcore::simio::{self, DirCfg, Duplex, Script, Step};
use vcore::{Ctx, Outcome};

#[derive(Clone, Debug, Serialize, Deserialize, PartialEq)]
pub enum Kind {
    /// per endpoint (split_send_size, max_buffer_len); behaviour is Block
    Mplex { a: (u16, u8), b: (u16, u8) },
    Yamux,
}

#[derive(Clone, Debug, Serialize, Deserialize, PartialEq)]
pub enum WOp {
    Write(u16),
    Flush,
    Close,
    /// write n KiB (all of it, like `Write`)
    Bulk(u16),
    /// wait until this endpoint's reader of the *other* direction of the same substream has seen
    /// end-of-stream (request/response: answer only after the whole request)
    AwaitEof,
}

/// send high-water mark of the `asynchronous_codec::Framed` sink mplex writes into
const HWM: u64 = 128 * 1024;

#[derive(Clone, Debug, Serialize, Deserialize)]
pub struct StreamSpec {
    /// true: endpoint A opens the stream
    a_opens: bool,
    /// number of driver polls to wait before opening
    open_delay: u8,
    opener_script: Vec<WOp>,
    acceptor_script: Vec<WOp>,
    opener_reads: Vec<u16>,
    acceptor_reads: Vec<u16>,
}

#[derive(Clone, Debug, Serialize, Deserialize)]
pub struct Case {
    kind: Kind,
    a_to_b: DirCfg,
    b_to_a: DirCfg,
    streams: Vec<StreamSpec>,
    schedule: Vec<u16>,
}

fn tag(i: usize) -> [u8; 4] {
    [0xC2, 0x40 + i as u8, 0xFF - i as u8, 0x4C]
}

/// expected byte j of stream i, direction d (0 = opener→acceptor, 1 = acceptor→opener)
fn byte(i: usize, d: usize, j: usize) -> u8 {
    if d == 0 && j < 4 {
        return tag(i)[j];
    }
    let x = j.wrapping_mul(131).wrapping_add(i.wrapping_mul(31)).wrapping_add(d.wrapping_mul(17));
    (x ^ (x >> 8) ^ (j >> 11)) as u8
}

#[derive(Default, Debug, Clone)]
struct DirState {
    sent: usize,
    flushed: usize,
    closed: bool,
    writer_started: bool,
    writer_done: bool,
    /// the writer is parked in `AwaitEof`
    awaiting: bool,
    /// probes: this half's close hit send back-pressure / bytes were written after an AwaitEof
    close_bp: bool,
    resp_after_eof: bool,
    recv: usize,
    eof: bool,
}

#[derive(Default)]
struct Shared {
    dirs: Vec<[DirState; 2]>,
    /// first violation observed inside a task: (signature, detail)
    bad: Option<(String, String)>,
    accepted: Vec<bool>,
    opened: usize,
    /// finished halves are parked here so that no substream is dropped (= reset) before the end
    graveyard: Vec<Box<dyn Any + Send>>,
    /// wakers of writers parked in `AwaitEof`, indexed like `dirs` by the direction whose EOF they wait for
    eof_wakers: Vec<[Option<Waker>; 2]>,
    /// the two pipe ends (0 = endpoint A) and the bytes of the Data frames (mplex encoding) that the
    /// substreams of each endpoint accepted
    pipes: Vec<Duplex>,
    payload: [u64; 2],
    // generator-distribution probes (labels only)
    sink_above_hwm: bool,
    close_under_backpressure: bool,
    response_after_eof: bool,
}

impl Shared {
    /// lower bound of the bytes queued in the mplex send buffer of endpoint `side`: Data frames its
    /// substreams accepted minus everything (any frame) that already reached the pipe
    fn sink_lower_bound(&self, side: usize) -> u64 {
        self.pipes.get(side).map(|p| self.payload[side].saturating_sub(p.written())).unwrap_or(0)
    }
}

type Sh = Arc<Mutex<Shared>>;

fn set_bad(sh: &Sh, sig: &str, detail: String) {
    let mut g = sh.lock().unwrap();
    if g.bad.is_none() {
        g.bad = Some((sig.to_string(), detail));
    }
}

async fn writer<W: AsyncWrite + Unpin + Send + 'static>(mut w: W, i: usize, d: usize, side: usize, script: Vec<WOp>, sh: Sh) {
    sh.lock().unwrap().dirs[i][d].writer_started = true;
    let mut ops: Vec<WOp> = vec![];
    if d == 0 {
        ops.push(WOp::Write(4)); // the tag
    }
    ops.extend(script);
    let mut closed = false;
    let mut awaited = false;
    for op in ops {
        if closed {
            break;
        }
        match op {
            WOp::Write(_) | WOp::Bulk(_) => {
                let n = match op {
                    WOp::Write(n) => n as usize,
                    WOp::Bulk(k) => k as usize * 1024,
                    _ => unreachable!(),
                };
                let start = sh.lock().unwrap().dirs[i][d].sent;
                let data: Vec<u8> = (start..start + n).map(|j| byte(i, d, j)).collect();
                let mut off = 0;
                while off < data.len() {
                    match w.write(&data[off..]).await {
                        Ok(0) => {
                            set_bad(&sh, "C24:unexpected-error", format!("stream {i} dir {d}: write returned 0"));
                            sh.lock().unwrap().graveyard.push(Box::new(w));
                            return;
                        }
                        Ok(k) => {
                            off += k;
                            let mut g = sh.lock().unwrap();
                            g.dirs[i][d].sent += k;
                            // one write = one mplex Data frame: header varint (1 byte for the ids used
                            // here) + length varint + payload
                            g.payload[side] += k as u64 + 1 + if k < 128 { 1 } else if k < 16384 { 2 } else { 3 };
                            if g.sink_lower_bound(side) >= HWM {
                                g.sink_above_hwm = true;
                            }
                            if awaited {
                                g.response_after_eof = true;
                                g.dirs[i][d].resp_after_eof = true;
                            }
                        }
                        Err(e) => {
                            set_bad(&sh, "C24:unexpected-error", format!("stream {i} dir {d}: write failed: {e}"));
                            sh.lock().unwrap().graveyard.push(Box::new(w));
                            return;
                        }
                    }
                }
            }
            WOp::Flush => {
                let upto = sh.lock().unwrap().dirs[i][d].sent;
                if let Err(e) = w.flush().await {
                    set_bad(&sh, "C24:unexpected-error", format!("stream {i} dir {d}: flush failed: {e}"));
                    break;
                }
                let mut g = sh.lock().unwrap();
                g.dirs[i][d].flushed = upto;
            }
            WOp::Close => {
                let upto = sh.lock().unwrap().dirs[i][d].sent;
                // probe: the first poll of the close found the send buffer above the high-water mark
                // and left it there, i.e. the Close frame itself could not be queued (back-pressure)
                let above_before = sh.lock().unwrap().sink_lower_bound(side) >= HWM;
                let mut first = true;
                let res = poll_fn(|cx| {
                    let r = Pin::new(&mut w).poll_close(cx);
                    if first {
                        first = false;
                        let mut g = sh.lock().unwrap();
                        if above_before && r.is_pending() && g.sink_lower_bound(side) >= HWM {
                            g.close_under_backpressure = true;
                            g.dirs[i][d].close_bp = true;
                        }
                    }
                    r
                })
                .await;
                if let Err(e) = res {
                    set_bad(&sh, "C24:unexpected-error", format!("stream {i} dir {d}: close failed: {e}"));
                    break;
                }
                let mut g = sh.lock().unwrap();
                g.dirs[i][d].flushed = upto;
                g.dirs[i][d].closed = true;
                closed = true;
            }
            WOp::AwaitEof => {
                sh.lock().unwrap().dirs[i][d].awaiting = true;
                poll_fn(|cx| {
                    let mut g = sh.lock().unwrap();
                    if g.dirs[i][1 - d].eof {
                        Poll::Ready(())
                    } else {
                        g.eof_wakers[i][1 - d] = Some(cx.waker().clone());
                        Poll::Pending
                    }
                })
                .await;
                sh.lock().unwrap().dirs[i][d].awaiting = false;
                awaited = true;
            }
        }
    }
    let mut g = sh.lock().unwrap();
    g.dirs[i][d].writer_done = true;
    g.graveyard.push(Box::new(w));
}

/// reads direction `d` of stream `i` from offset `from`, checking every byte
async fn reader<R: AsyncRead + Unpin + Send + 'static>(mut r: R, i: usize, d: usize, from: usize, sizes: Vec<u16>, sh: Sh) {
    let mut pos = from;
    let mut k = 0usize;
    let mut store = vec![0u8; sizes.iter().copied().max().unwrap_or(1).max(1) as usize];
    loop {
        let n = sizes[k % sizes.len()].max(1) as usize;
        k += 1;
        let buf = &mut store[..n];
        match r.read(buf).await {
            Ok(0) => {
                let mut g = sh.lock().unwrap();
                g.dirs[i][d].eof = true;
                if let Some(w) = g.eof_wakers[i][d].take() {
                    w.wake();
                }
                break;
            }
            Ok(m) => {
                for (o, b) in buf[..m].iter().enumerate() {
                    if *b != byte(i, d, pos + o) {
                        set_bad(
                            &sh,
                            "C24:substream-delivers-wrong-bytes",
                            format!("stream {i} dir {d}: byte at offset {} is {:#04x}, written byte was {:#04x}", pos + o, b, byte(i, d, pos + o)),
                        );
                        sh.lock().unwrap().graveyard.push(Box::new(r));
                        return;
                    }
                }
                pos += m;
                sh.lock().unwrap().dirs[i][d].recv = pos;
            }
            Err(e) => {
                set_bad(&sh, "C24:unexpected-error", format!("stream {i} dir {d}: read failed: {e}"));
                break;
            }
        }
    }
    sh.lock().unwrap().graveyard.push(Box::new(r));
}

async fn accepted<S: AsyncRead + AsyncWrite + Unpin + Send + 'static>(sub: S, side_is_a: bool, specs: Arc<Vec<StreamSpec>>, sh: Sh, ex: Exec) {
    let (mut r, w) = sub.split();
    let mut t = [0u8; 4];
    let mut got = 0;
    while got < 4 {
        match r.read(&mut t[got..]).await {
            Ok(0) => {
                set_bad(&sh, "C24:bytes-lost-before-eof", format!("an inbound substream ended after {got} bytes (every opener writes a 4-byte tag first)"));
                sh.lock().unwrap().graveyard.push(Box::new((r, w)));
                return;
            }
            Ok(k) => got += k,
            Err(e) => {
                set_bad(&sh, "C24:unexpected-error", format!("inbound substream: read failed: {e}"));
                return;
            }
        }
    }
    let i = t[1].wrapping_sub(0x40) as usize;
    let ok = i < specs.len() && t == tag(i) && specs[i].a_opens != side_is_a;
    if !ok {
        set_bad(&sh, "C24:substream-delivers-wrong-bytes", format!("an inbound substream starts with {t:?}, which is not the tag of any substream opened by the other endpoint"));
        sh.lock().unwrap().graveyard.push(Box::new((r, w)));
        return;
    }
    {
        let mut g = sh.lock().unwrap();
        if g.accepted[i] {
            drop(g);
            set_bad(&sh, "C24:substream-delivers-wrong-bytes", format!("two inbound substreams start with the tag of stream {i}"));
            return;
        }
        g.accepted[i] = true;
        g.dirs[i][0].recv = 4;
    }
    ex.spawn(writer(w, i, 1, if side_is_a { 0 } else { 1 }, specs[i].acceptor_script.clone(), sh.clone()));
    reader(r, i, 0, 4, specs[i].acceptor_reads.clone(), sh).await;
}

fn driver<M>(mut muxer: M, side_is_a: bool, specs: Arc<Vec<StreamSpec>>, sh: Sh, ex: Exec) -> impl std::future::Future<Output = ()> + Send + 'static
where
    M: StreamMuxer + Unpin + Send + 'static,
    M::Substream: Send + Unpin + 'static,
    M::Error: std::fmt::Display,
{
    let mut to_open: VecDeque<(usize, u8)> = specs.iter().enumerate().filter(|(_, s)| s.a_opens == side_is_a).map(|(i, s)| (i, s.open_delay)).collect();
    poll_fn(move |cx| {
        while let Some(front) = to_open.front_mut() {
            if front.1 > 0 {
                front.1 -= 1;
                cx.waker().wake_by_ref();
                break;
            }
            match Pin::new(&mut muxer).poll_outbound(cx) {
                Poll::Ready(Ok(sub)) => {
                    let i = front.0;
                    to_open.pop_front();
                    sh.lock().unwrap().opened += 1;
                    let (r, w) = sub.split();
                    ex.spawn(writer(w, i, 0, if side_is_a { 0 } else { 1 }, specs[i].opener_script.clone(), sh.clone()));
                    ex.spawn(reader(r, i, 1, 0, specs[i].opener_reads.clone(), sh.clone()));
                }
                Poll::Ready(Err(e)) => {
                    set_bad(&sh, "C24:unexpected-error", format!("poll_outbound failed: {e}"));
                    return Poll::Ready(());
                }
                Poll::Pending => break,
            }
        }
        loop {
            match Pin::new(&mut muxer).poll_inbound(cx) {
                Poll::Ready(Ok(sub)) => {
                    ex.spawn(accepted(sub, side_is_a, specs.clone(), sh.clone(), ex.clone()));
                }
                Poll::Ready(Err(e)) => {
                    set_bad(&sh, "C24:unexpected-error", format!("poll_inbound failed: {e}"));
                    return Poll::Ready(());
                }
                Poll::Pending => break,
            }
        }
        match Pin::new(&mut muxer).poll(cx) {
            Poll::Ready(Err(e)) => {
                set_bad(&sh, "C24:unexpected-error", format!("StreamMuxer::poll failed: {e}"));
                Poll::Ready(())
            }
            Poll::Ready(Ok(_)) => {
                cx.waker().wake_by_ref();
                Poll::Pending
            }
            Poll::Pending => Poll::Pending,
        }
    })
}

// ---------------------------------------------------------------------------------------------
// generator probe: how many frames mplex parked in one substream's receive buffer. mplex reports
// every buffered frame as a TRACE event carrying `data_buffer` = resulting buffer length; a
// subscriber that is interested in that one call site only records the maximum per case. Used for
// a label (distribution of the generator) and nothing else.

thread_local! {
    static MAX_BUFFERED: Cell<u64> = const { Cell::new(0) };
    static PROBE: tracing::subscriber::DefaultGuard = tracing::subscriber::set_default(BufProbe);
}

struct BufProbe;

fn probed(m: &tracing::Metadata<'_>) -> bool {
    m.is_event() && m.target().starts_with("libp2p_mplex") && m.fields().field("data_buffer").is_some()
}

struct BufVisit(u64);
impl tracing::field::Visit for BufVisit {
    fn record_debug(&mut self, field: &tracing::field::Field, value: &dyn std::fmt::Debug) {
        if field.name() == "data_buffer" {
            self.0 = format!("{value:?}").parse().unwrap_or(0);
        }
    }
}

impl tracing::Subscriber for BufProbe {
    fn register_callsite(&self, m: &'static tracing::Metadata<'static>) -> tracing::subscriber::Interest {
        if probed(m) {
            tracing::subscriber::Interest::always()
        } else {
            tracing::subscriber::Interest::never()
        }
    }
    fn enabled(&self, m: &tracing::Metadata<'_>) -> bool {
        probed(m)
    }
    fn max_level_hint(&self) -> Option<tracing::level_filters::LevelFilter> {
        Some(tracing::level_filters::LevelFilter::TRACE)
    }
    fn new_span(&self, _: &tracing::span::Attributes<'_>) -> tracing::span::Id {
        tracing::span::Id::from_u64(1)
    }
    fn record(&self, _: &tracing::span::Id, _: &tracing::span::Record<'_>) {}
    fn record_follows_from(&self, _: &tracing::span::Id, _: &tracing::span::Id) {}
    fn event(&self, e: &tracing::Event<'_>) {
        let mut v = BufVisit(0);
        e.record(&mut v);
        MAX_BUFFERED.with(|m| m.set(m.get().max(v.0)));
    }
    fn enter(&self, _: &tracing::span::Id) {}
    fn exit(&self, _: &tracing::span::Id) {}
}

struct ClearOnDrop(Exec);
impl Drop for ClearOnDrop {
    fn drop(&mut self) {
        self.0.clear();
    }
}

fn check(case: &Case) -> Outcome {
    if case.streams.is_empty() || case.streams.len() > 16 {
        return Outcome::Discard;
    }
    let is_mplex = matches!(case.kind, Kind::Mplex { .. });
    if is_mplex {
        PROBE.with(|_| ());
        MAX_BUFFERED.with(|m| m.set(0));
    }
    let (a, b): (Duplex, Duplex) = simio::pair(case.a_to_b.clone(), case.b_to_a.clone());
    let sh: Sh = Arc::new(Mutex::new(Shared {
        dirs: vec![Default::default(); case.streams.len()],
        accepted: vec![false; case.streams.len()],
        eof_wakers: vec![Default::default(); case.streams.len()],
        pipes: vec![a.clone(), b.clone()],
        ..Default::default()
    }));
    let specs = Arc::new(case.streams.clone());
    let ex = Exec::new();
    let _guard = ClearOnDrop(ex.clone());
    match &case.kind {
        Kind::Mplex { a: ca, b: cb } => {
            let mk = |c: &(u16, u8)| {
                let mut cfg = libp2p_mplex::Config::new();
                cfg.set_split_send_size(c.0.max(1) as usize).set_max_buffer_size(c.1.max(1) as usize).set_max_buffer_behaviour(libp2p_mplex::MaxBufferBehaviour::Block);
                cfg
            };
            let ma = mk(ca).upgrade_outbound(a, "/mplex/6.7.0").now_or_never().unwrap().unwrap();
            let mb = mk(cb).upgrade_inbound(b, "/mplex/6.7.0").now_or_never().unwrap().unwrap();
            ex.spawn_named("driver-a", driver(ma, true, specs.clone(), sh.clone(), ex.clone()));
            ex.spawn_named("driver-b", driver(mb, false, specs.clone(), sh.clone(), ex.clone()));
        }
        Kind::Yamux => {
            let ma = libp2p_yamux::Config::default().upgrade_outbound(a, "/yamux/1.0.0").now_or_never().unwrap().unwrap();
            let mb = libp2p_yamux::Config::default().upgrade_inbound(b, "/yamux/1.0.0").now_or_never().unwrap().unwrap();
            ex.spawn_named("driver-a", driver(ma, true, specs.clone(), sh.clone(), ex.clone()));
            ex.spawn_named("driver-b", driver(mb, false, specs.clone(), sh.clone(), ex.clone()));
        }
    }

    // prefix safety is checked inside the readers at every step; the generated schedule only
    // decides the interleaving
    let mut concurrent_streams = 0usize;
    for (k, &p) in case.schedule.iter().enumerate() {
        if p == u16::MAX {
            // spurious poll of some live task
            let alive = ex.alive();
            if !alive.is_empty() {
                ex.poll_task(alive[k % alive.len()]);
            }
        } else if ex.step(p).is_none() {
            break;
        }
        if sh.lock().unwrap().bad.is_some() {
            break;
        }
        let g = sh.lock().unwrap();
        let active = g.dirs.iter().filter(|d| (d[0].writer_started && !d[0].eof) || (d[1].writer_started && !d[1].eof)).count();
        concurrent_streams = concurrent_streams.max(active);
    }
    let quiescent = ex.drain(3_000_000);
    let kind_s = format!("{:?}", case.kind);
    // end-state oracle; None = fine
    let verdict = |g: &Shared| -> Option<(String, serde_json::Value)> {
        let dump = |g: &Shared| json!({"kind": kind_s, "streams": g.dirs.iter().map(|d| format!("{d:?}")).collect::<Vec<_>>(), "opened": g.opened});
        let fail = |sig: &str, v: serde_json::Value| Some((sig.to_string(), v));
        if g.opened != case.streams.len() {
            return fail("C24:stall", json!({"what": "not every substream could be opened", "state": dump(g)}));
        }
        for (i, d2) in g.dirs.iter().enumerate() {
            for (d, s) in d2.iter().enumerate() {
                if s.recv > s.sent {
                    return fail("C24:received-more-than-written", json!({"stream": i, "dir": d, "state": dump(g)}));
                }
                // a writer parked in AwaitEof whose peer never closed is waiting legitimately; if the peer
                // did close, the missing EOF is reported below
                if s.writer_started && !s.writer_done && !s.awaiting {
                    return fail("C24:stall", json!({"what": format!("writer of stream {i} dir {d} never finished"), "state": dump(g)}));
                }
                if s.recv < s.flushed {
                    return fail("C24:flushed-bytes-not-delivered", json!({"stream": i, "dir": d, "state": dump(g)}));
                }
                if s.closed && s.recv != s.sent {
                    return fail("C24:bytes-lost-before-eof", json!({"stream": i, "dir": d, "state": dump(g)}));
                }
                if s.closed && !s.eof {
                    return fail("C24:no-eof-after-close", json!({"stream": i, "dir": d, "state": dump(g)}));
                }
                if s.eof && !s.closed {
                    return fail("C24:eof-before-writer-closed", json!({"stream": i, "dir": d, "state": dump(g)}));
                }
            }
        }
        None
    };
    {
        let g = sh.lock().unwrap();
        if let Some((sig, detail)) = &g.bad {
            return Outcome::fail(sig.clone(), json!({"what": detail, "kind": kind_s}));
        }
    }
    if !quiescent {
        return Outcome::Inconclusive("tasks still runnable after 3e6 polls".into());
    }
    let first = verdict(&sh.lock().unwrap());
    if let Some((sig, detail)) = first {
        // Classification only (the case fails either way): if progress is missing at quiescence, poll
        // every parked task once without a wake-up and drain again. When that completes the case, no
        // task was blocked on anything but a notification the muxer owed it: a lost wake-up.
        if matches!(sig.as_str(), "C24:stall" | "C24:flushed-bytes-not-delivered" | "C24:no-eof-after-close") {
            for _ in 0..4 {
                for id in ex.alive() {
                    ex.poll_task(id);
                }
                if !ex.drain(3_000_000) {
                    break;
                }
                let g = sh.lock().unwrap();
                if let Some((sig, detail)) = &g.bad {
                    return Outcome::fail(sig.clone(), json!({"what": detail, "kind": kind_s, "after": "spurious polls at quiescence"}));
                }
                if verdict(&g).is_none() {
                    let name = if is_mplex { "C24:mplex-lost-wakeup" } else { "C24:yamux-lost-wakeup" };
                    return Outcome::fail(name, json!({"what": "at quiescence a substream task was parked although it could make progress: polling every parked task once (no wake-up) and draining completed the case", "at_quiescence": {"signature": sig, "detail": detail}}));
                }
            }
        }
        return Outcome::fail(sig, detail);
    }
    let g = sh.lock().unwrap();
    let mut half_closed = false;
    let mut interleaved = concurrent_streams >= 2;
    let mut total = 0usize;
    for d2 in g.dirs.iter() {
        total += d2[0].recv + d2[1].recv;
        if d2[0].closed != d2[1].closed && d2[0].sent > 4 && d2[1].sent > 0 {
            half_closed = true;
        }
    }
    if case.streams.len() < 2 {
        interleaved = false;
    }
    let mut labels = vec![];
    labels.push(if matches!(case.kind, Kind::Yamux) { "yamux" } else { "mplex" });
    if half_closed {
        labels.push("half_close");
    }
    if interleaved {
        labels.push("concurrent_streams");
    }
    if case.a_to_b.capacity.is_some() || case.b_to_a.capacity.is_some() {
        labels.push("bounded_pipe");
    }
    if case.streams.iter().any(|s| s.a_opens) && case.streams.iter().any(|s| !s.a_opens) {
        labels.push("both_sides_open");
    }
    if case.streams.iter().any(|s| s.opener_script.iter().chain(&s.acceptor_script).any(|o| matches!(o, WOp::Bulk(_)))) {
        labels.push("bulk");
    }
    if g.response_after_eof {
        labels.push("response-after-eof");
    }
    if is_mplex {
        if g.sink_above_hwm {
            labels.push("sink-above-high-water-mark");
        }
        if g.close_under_backpressure {
            labels.push("close-under-backpressure");
            if g.dirs.iter().any(|d| (d[0].close_bp && d[1].resp_after_eof) || (d[1].close_bp && d[0].resp_after_eof)) {
                labels.push("close-under-backpressure-then-peer-writes");
            }
        }
        let mb = MAX_BUFFERED.with(|m| m.get());
        if mb >= 2 {
            labels.push("buffered>=2-frames");
        }
        if mb >= 3 {
            labels.push("buffered>=3-frames");
        }
        if mb >= 5 {
            labels.push("buffered>=5-frames");
        }
    }
    Outcome::pass_l(interleaved && total > 8 && g.dirs.iter().any(|d| d[0].closed || d[1].closed), labels)
}

// ---------------------------------------------------------------------------------------------

fn wsize() -> impl Strategy<Value = u16> {
    prop_oneof![5 => 1u16..=40, 3 => 41u16..=600, 1 => 601u16..=4096]
}

fn wop() -> impl Strategy<Value = WOp> {
    prop_oneof![
        12 => wsize().prop_map(WOp::Write),
        6 => Just(WOp::Flush),
        4 => Just(WOp::Close),
        1 => Just(WOp::AwaitEof),
    ]
}

fn script() -> impl Strategy<Value = Vec<WOp>> {
    (proptest::collection::vec(wop(), 0..=6), prop::bool::weighted(0.7)).prop_map(|(mut v, close)| {
        if close {
            v.push(WOp::Close);
        }
        v
    })
}

fn reads() -> impl Strategy<Value = Vec<u16>> {
    proptest::collection::vec(prop_oneof![Just(1u16), 2u16..=17, Just(256u16), Just(4096u16)], 1..=4)
}

fn stream_spec() -> impl Strategy<Value = StreamSpec> {
    (any::<bool>(), prop_oneof![3 => Just(0u8), 2 => 1u8..=12], script(), script(), reads(), reads())
        .prop_map(|(a_opens, open_delay, opener_script, acceptor_script, opener_reads, acceptor_reads)| StreamSpec { a_opens, open_delay, opener_script, acceptor_script, opener_reads, acceptor_reads })
}

fn pipe_dir() -> impl Strategy<Value = DirCfg> {
    (simio::dircfg_strategy(30), prop_oneof![3 => Just(None), 1 => (1u32..=40).prop_map(Some), 1 => (41u32..=5000).prop_map(Some)]).prop_map(|(mut d, c)| {
        d.capacity = c;
        d
    })
}

fn kind(yamux: bool) -> BoxedStrategy<Kind> {
    if yamux {
        Just(Kind::Yamux).boxed()
    } else {
        let c = || (prop_oneof![3 => 1u16..=64, 1 => Just(1024u16), 1 => Just(8192u16)], 1u8..=8);
        (c(), c()).prop_map(|(a, b)| Kind::Mplex { a, b }).boxed()
    }
}

fn schedule() -> impl Strategy<Value = Vec<u16>> {
    proptest::collection::vec(prop_oneof![12 => any::<u16>(), 1 => Just(u16::MAX)], 0..=300)
}

fn general(yamux: bool) -> impl Strategy<Value = Case> {
    // yamux (external crate, 0.14) stops reading while it owes a Pong it cannot write; with both
    // pipe directions full and both initial pings crossing, the two connections block each other.
    // That is a property of the transport buffering yamux needs, not of substream delivery, so the
    // yamux pipes are unbounded (chunking and spurious Pending are still generated).
    let dir = move || if yamux { simio::dircfg_strategy(30).boxed() } else { pipe_dir().boxed() };
    (kind(yamux), dir(), dir(), proptest::collection::vec(stream_spec(), 1..=5), schedule())
        .prop_map(|(kind, a_to_b, b_to_a, streams, schedule)| Case { kind, a_to_b, b_to_a, streams, schedule })
}

// ---- bulk class ------------------------------------------------------------------------------

/// pipe direction for bulk cases: chunks of at least 1 KiB (cost), spurious Pending, generated capacity
fn bulk_dir(cap: BoxedStrategy<Option<u32>>) -> impl Strategy<Value = DirCfg> {
    let script = || {
        (
            proptest::collection::vec(prop_oneof![4 => (1024u16..=u16::MAX).prop_map(Step::Chunk), 1 => Just(Step::Chunk(0)), 2 => Just(Step::Pending)], 0..=12),
            prop_oneof![2 => Just(0u16), 1 => Just(1024u16), 1 => Just(4096u16), 1 => Just(8192u16), 1 => Just(u16::MAX)],
        )
            .prop_map(|(steps, default_chunk)| Script { steps, default_chunk })
    };
    (script(), script(), cap).prop_map(|(read, write, capacity)| DirCfg { read, write, capacity })
}

fn big_reads() -> impl Strategy<Value = Vec<u16>> {
    proptest::collection::vec(prop_oneof![Just(1024u16), Just(4096u16), 256u16..=u16::MAX], 1..=3)
}

/// the request: optional small prefix, 130..300 KiB in one or two writes with no flush in between,
/// optionally a small write, then (90 %) the half-close
fn bulk_request() -> impl Strategy<Value = Vec<WOp>> {
    (
        proptest::collection::vec(prop_oneof![2 => wsize().prop_map(WOp::Write), 1 => Just(WOp::Flush)], 0..=2),
        130u16..=200,
        prop_oneof![2 => Just(0u16), 1 => 1u16..=100],
        prop_oneof![3 => Just(0u16), 1 => 1u16..=600],
        prop::bool::weighted(0.9),
    )
        .prop_map(|(mut v, k1, k2, tail, close)| {
            v.push(WOp::Bulk(k1));
            if k2 > 0 {
                v.push(WOp::Bulk(k2));
            }
            if tail > 0 {
                v.push(WOp::Write(tail));
            }
            if close {
                v.push(WOp::Close);
            }
            v
        })
}

/// the response: (75 %) only after the request's end-of-stream was seen; small writes, sometimes bulk
fn bulk_response() -> impl Strategy<Value = Vec<WOp>> {
    (
        proptest::collection::vec(prop_oneof![2 => wsize().prop_map(WOp::Write), 1 => Just(WOp::Flush)], 0..=2),
        prop::bool::weighted(0.75),
        proptest::collection::vec(prop_oneof![8 => wsize().prop_map(WOp::Write), 3 => Just(WOp::Flush), 1 => (130u16..=160).prop_map(WOp::Bulk)], 1..=3),
        prop::bool::weighted(0.7),
    )
        .prop_map(|(mut v, wait, body, close)| {
            if wait {
                v.push(WOp::AwaitEof);
            }
            v.extend(body);
            if close {
                v.push(WOp::Close);
            }
            v
        })
}

fn bulk_stream() -> impl Strategy<Value = StreamSpec> {
    (any::<bool>(), prop_oneof![3 => Just(0u8), 2 => 1u8..=12], bulk_request(), prop_oneof![4 => bulk_response().boxed(), 1 => script().boxed()], reads(), big_reads()).prop_map(
        |(a_opens, open_delay, opener_script, acceptor_script, mut opener_reads, acceptor_reads)| {
            if acceptor_script.iter().any(|o| matches!(o, WOp::Bulk(_))) {
                for r in opener_reads.iter_mut() {
                    *r = (*r).max(256);
                }
            }
            StreamSpec { a_opens, open_delay, opener_script, acceptor_script, opener_reads, acceptor_reads }
        },
    )
}

fn bulk(yamux: bool) -> impl Strategy<Value = Case> {
    let kind = if yamux {
        Just(Kind::Yamux).boxed()
    } else {
        let c = || (prop_oneof![1 => Just(256u16), 1 => Just(1024u16), 1 => Just(4096u16), 2 => Just(8192u16), 1 => Just(16384u16), 1 => Just(u16::MAX)], 1u8..=8);
        (c(), c()).prop_map(|(a, b)| Kind::Mplex { a, b }).boxed()
    };
    // The direction the request is written into is bounded (unless yamux, see `general`). 60 % of
    // the time its capacity is below the writer's frame size (256 B .. 256 B + split/2): the closer
    // the capacity is to the frame size or above, the more often the send buffer drains below its
    // high-water mark before the half-close is issued (the close then meets no back-pressure).
    let cap = move || {
        if yamux {
            Just(None).boxed()
        } else {
            prop_oneof![1 => Just(None), 3 => (1024u32..=65536).prop_map(Some), 1 => (65537u32..=400_000).prop_map(Some)].boxed()
        }
    };
    (kind, bulk_dir(cap()), bulk_dir(cap()), bulk_stream(), proptest::collection::vec(stream_spec(), 0..=2), any::<u16>(), schedule(), prop::bool::weighted(0.6), any::<u16>()).prop_map(
        |(kind, mut a_to_b, mut b_to_a, bs, mut streams, at, schedule, tight, frac)| {
            if let (true, Kind::Mplex { a, b }) = (tight, &kind) {
                let split = if bs.a_opens { a.0 } else { b.0 } as u32;
                let c = Some(256 + (frac as u32 * split.max(1)) / (2 * 65536));
                if bs.a_opens {
                    a_to_b.capacity = c;
                } else {
                    b_to_a.capacity = c;
                }
            }
            let at = vcore::pick(at, streams.len() + 1);
            streams.insert(at, bs);
            Case { kind, a_to_b, b_to_a, streams, schedule }
        },
    )
}

/// general class plus a small fraction (6 % mplex, 3 % yamux) of bulk cases
fn strategy(yamux: bool) -> impl Strategy<Value = Case> {
    prop_oneof![
        if yamux { 97 } else { 94 } => general(yamux).boxed(),
        if yamux { 3 } else { 6 } => bulk(yamux).boxed(),
    ]
}

/// bounded-exhaustive schedules for a fixed two-stream scenario: every sequence of `len` choices
/// among {first, middle, last} runnable task
fn sweep_case(yamux: bool, len: usize, mut idx: usize) -> Case {
    let mut schedule = vec![];
    for _ in 0..len {
        schedule.push([0u16, 0x8000, 0xFFFE][idx % 3]);
        idx /= 3;
    }
    let spec = |a_opens: bool| StreamSpec {
        a_opens,
        open_delay: 0,
        opener_script: vec![WOp::Write(9), WOp::Flush, WOp::Write(5), WOp::Close],
        acceptor_script: vec![WOp::Write(7), WOp::Close],
        opener_reads: vec![3],
        acceptor_reads: vec![2, 5],
    };
    Case {
        kind: if yamux { Kind::Yamux } else { Kind::Mplex { a: (4, 1), b: (8, 2) } },
        a_to_b: DirCfg { read: Script::chunks(5), write: Script::whole(), capacity: None },
        b_to_a: DirCfg { read: Script::whole(), write: Script::chunks(3), capacity: if yamux { None } else { Some(16) } },
        streams: vec![spec(true), spec(false), spec(true)],
        schedule,
    }
}

pub fn run(ctx: &mut Ctx) {
    ctx.assume("mplex endpoints use MaxBufferBehaviour::Block (ResetStream drops data by design: C26); the pipe never fails and nobody drops a substream before the end of a case");
    ctx.assume("bytes written but not followed by a completed flush/close need not be delivered; at quiescence flushed <= received <= written, and EOF iff the writer's close completed; a writer waiting for its peer's end-of-stream (AwaitEof) that never comes because the peer never closes is not a stall");
    ctx.assume("yamux pipes are unbounded: with both directions of a bounded pipe full, yamux 0.14 endpoints that each owe a Pong stop reading and block each other (transport-buffering requirement of the external crate, outside this statement)");
    ctx.assume("yamux measures round-trip times with the wall clock (window tuning); no assertion depends on frame or window sizes; yamux uses no randomness");
    ctx.assume("labels buffered>=N-frames read mplex's own TRACE event for a buffered frame (field data_buffer) and the labels sink-above-high-water-mark / close-under-backpressure compare the bytes of accepted Data frames with the bytes that reached the pipe (lower bound of the send buffer, 128 KiB mark of asynchronous_codec): they measure the generator and take no part in the verdict");
    let n_m = ctx.n(40_000, 1_200_000);
    let n_y = ctx.n(25_000, 800_000);
    let rule = "general class: 1..5 substreams opened by either endpoint after generated delays; per direction a script of 0..6 {write 1..4096 bytes, flush, close, wait for the peer's end-of-stream} (+ final close 70 %), generated read sizes; pipe with generated chunk scripts / spurious Pending / optional capacity. Bulk class: one substream whose opener writes 130..300 KiB in 1..2 writes without a flush in between and then (90 %) half-closes, whose acceptor (75 %) answers only after it has seen end-of-stream (small writes, sometimes 130..160 KiB), plus 0..2 general substreams; pipe chunks >= 1 KiB, spurious Pending. Every case: schedule of 0..300 picks (incl. spurious polls) then fair drain; non-trivial = at least 2 substreams were active at the same time, data flowed and a half was closed";
    ctx.check::<Case>(
        "mplex",
        &format!("mplex (Block), max_buffer_len 1..8 per endpoint; 94 % general class with split_send_size in {{1..64,1024,8192}}, 6 % bulk class with split_send_size in {{256,1024,4096,8192,16384,65535}} and the written direction of the pipe bounded (60 %: 256 B .. 256 B + split/2, else unbounded / 1 KiB..64 KiB / up to 400 KB) so that the send buffer exceeds its 128 KiB high-water mark while the connection is not writable and the half-close is issued under that back-pressure; {rule}"),
        n_m,
        &|| strategy(false).boxed(),
        &check,
    );
    ctx.check::<Case>("yamux", &format!("yamux default config, unbounded pipe; 97 % general class, 3 % bulk class; {rule}"), n_y, &|| strategy(true).boxed(), &check);
    let len = ctx.tier.sel(9usize, 12usize);
    for (name, y) in [("mplex-schedules", false), ("yamux-schedules", true)] {
        ctx.sweep::<Case, _>(
            name,
            &format!("fixed scenario (3 substreams opened from both sides, write/flush/write/close vs write/close, small split size and buffers, chunked bounded pipe) under every schedule prefix of length {len} over {{first, middle, last}} runnable task"),
            true,
            &|lane| (0..3usize.pow(len as u32)).skip(lane).step_by(LANES).map(move |i| sweep_case(y, len, i)),
            &check,
        );
    }
}
