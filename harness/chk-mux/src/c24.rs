//! C24 — mplex and yamux substreams deliver exactly their own bytes, in order, then EOF.
//!
//! Both endpoints are the real `StreamMuxer`s over one in-memory pipe (generated chunking, spurious
//! Pending, optional bounded capacity). Every substream half has its own writer / reader task, each
//! endpoint has a driver task owning the muxer; the harness-owned executor decides which woken task
//! runs next (generated schedule, then a fair drain to quiescence).
//!
//! Byte j of stream i in direction d is a fixed function of (i, d, j) and the first four bytes the
//! opener writes are a tag naming the stream, so every received byte is checked against the one
//! sequence it may belong to.

use futures::future::poll_fn;
use futures::io::{AsyncRead, AsyncReadExt, AsyncWrite, AsyncWriteExt};
use futures::FutureExt;
use libp2p_core::muxing::StreamMuxer;
use libp2p_core::upgrade::{InboundConnectionUpgrade, OutboundConnectionUpgrade};
use proptest::prelude::*;
use serde::{Deserialize, Serialize};
use serde_json::json;
use std::any::Any;
use std::collections::VecDeque;
use std::pin::Pin;
use std::sync::{Arc, Mutex};
use std::task::Poll;
use vcore::runner::LANES;
use vcore::simexec::Exec;
use vcore::simio::{self, DirCfg, Duplex, Script};
use vcore::{Ctx, Outcome};

#[derive(Clone, Debug, Serialize, Deserialize, PartialEq)]
pub enum Kind {
    /// per endpoint (split_send_size, max_buffer_len); behaviour is Block
    Mplex { a: (u16, u8), b: (u16, u8) },
    Yamux,
}

#[derive(Clone, Debug, Serialize, Deserialize, PartialEq)]
pub enum WOp {
    Write(u16),
    Flush,
    Close,
}

#[derive(Clone, Debug, Serialize, Deserialize)]
pub struct StreamSpec {
    /// true: endpoint A opens the stream
    a_opens: bool,
    /// number of driver polls to wait before opening
    open_delay: u8,
    opener_script: Vec<WOp>,
    acceptor_script: Vec<WOp>,
    opener_reads: Vec<u16>,
    acceptor_reads: Vec<u16>,
}

#[derive(Clone, Debug, Serialize, Deserialize)]
pub struct Case {
    kind: Kind,
    a_to_b: DirCfg,
    b_to_a: DirCfg,
    streams: Vec<StreamSpec>,
    schedule: Vec<u16>,
}

fn tag(i: usize) -> [u8; 4] {
    [0xC2, 0x40 + i as u8, 0xFF - i as u8, 0x4C]
}

/// expected byte j of stream i, direction d (0 = opener→acceptor, 1 = acceptor→opener)
fn byte(i: usize, d: usize, j: usize) -> u8 {
    if d == 0 && j < 4 {
        return tag(i)[j];
    }
    let x = j.wrapping_mul(131).wrapping_add(i.wrapping_mul(31)).wrapping_add(d.wrapping_mul(17));
    (x ^ (x >> 8) ^ (j >> 11)) as u8
}

#[derive(Default, Debug, Clone)]
struct DirState {
    sent: usize,
    flushed: usize,
    closed: bool,
    writer_started: bool,
    writer_done: bool,
    recv: usize,
    eof: bool,
}

#[derive(Default)]
struct Shared {
    dirs: Vec<[DirState; 2]>,
    /// first violation observed inside a task: (signature, detail)
    bad: Option<(String, String)>,
    accepted: Vec<bool>,
    opened: usize,
    /// finished halves are parked here so that no substream is dropped (= reset) before the end
    graveyard: Vec<Box<dyn Any + Send>>,
}

type Sh = Arc<Mutex<Shared>>;

fn set_bad(sh: &Sh, sig: &str, detail: String) {
    let mut g = sh.lock().unwrap();
    if g.bad.is_none() {
        g.bad = Some((sig.to_string(), detail));
    }
}

async fn writer<W: AsyncWrite + Unpin + Send + 'static>(mut w: W, i: usize, d: usize, script: Vec<WOp>, sh: Sh) {
    sh.lock().unwrap().dirs[i][d].writer_started = true;
    let mut ops: Vec<WOp> = vec![];
    if d == 0 {
        ops.push(WOp::Write(4)); // the tag
    }
    ops.extend(script);
    let mut closed = false;
    for op in ops {
        if closed {
            break;
        }
        match op {
            WOp::Write(n) => {
                let start = sh.lock().unwrap().dirs[i][d].sent;
                let data: Vec<u8> = (start..start + n as usize).map(|j| byte(i, d, j)).collect();
                let mut off = 0;
                while off < data.len() {
                    match w.write(&data[off..]).await {
                        Ok(0) => {
                            set_bad(&sh, "C24:unexpected-error", format!("stream {i} dir {d}: write returned 0"));
                            sh.lock().unwrap().graveyard.push(Box::new(w));
                            return;
                        }
                        Ok(k) => {
                            off += k;
                            sh.lock().unwrap().dirs[i][d].sent += k;
                        }
                        Err(e) => {
                            set_bad(&sh, "C24:unexpected-error", format!("stream {i} dir {d}: write failed: {e}"));
                            sh.lock().unwrap().graveyard.push(Box::new(w));
                            return;
                        }
                    }
                }
            }
            WOp::Flush => {
                let upto = sh.lock().unwrap().dirs[i][d].sent;
                if let Err(e) = w.flush().await {
                    set_bad(&sh, "C24:unexpected-error", format!("stream {i} dir {d}: flush failed: {e}"));
                    break;
                }
                let mut g = sh.lock().unwrap();
                g.dirs[i][d].flushed = upto;
            }
            WOp::Close => {
                let upto = sh.lock().unwrap().dirs[i][d].sent;
                if let Err(e) = w.close().await {
                    set_bad(&sh, "C24:unexpected-error", format!("stream {i} dir {d}: close failed: {e}"));
                    break;
                }
                let mut g = sh.lock().unwrap();
                g.dirs[i][d].flushed = upto;
                g.dirs[i][d].closed = true;
                closed = true;
            }
        }
    }
    let mut g = sh.lock().unwrap();
    g.dirs[i][d].writer_done = true;
    g.graveyard.push(Box::new(w));
}

/// reads direction `d` of stream `i` from offset `from`, checking every byte
async fn reader<R: AsyncRead + Unpin + Send + 'static>(mut r: R, i: usize, d: usize, from: usize, sizes: Vec<u16>, sh: Sh) {
    let mut pos = from;
    let mut k = 0usize;
    loop {
        let n = sizes[k % sizes.len()].max(1) as usize;
        k += 1;
        let mut buf = vec![0u8; n];
        match r.read(&mut buf).await {
            Ok(0) => {
                sh.lock().unwrap().dirs[i][d].eof = true;
                break;
            }
            Ok(m) => {
                for (o, b) in buf[..m].iter().enumerate() {
                    if *b != byte(i, d, pos + o) {
                        set_bad(
                            &sh,
                            "C24:substream-delivers-wrong-bytes",
                            format!("stream {i} dir {d}: byte at offset {} is {:#04x}, written byte was {:#04x}", pos + o, b, byte(i, d, pos + o)),
                        );
                        sh.lock().unwrap().graveyard.push(Box::new(r));
                        return;
                    }
                }
                pos += m;
                sh.lock().unwrap().dirs[i][d].recv = pos;
            }
            Err(e) => {
                set_bad(&sh, "C24:unexpected-error", format!("stream {i} dir {d}: read failed: {e}"));
                break;
            }
        }
    }
    sh.lock().unwrap().graveyard.push(Box::new(r));
}

async fn accepted<S: AsyncRead + AsyncWrite + Unpin + Send + 'static>(sub: S, side_is_a: bool, specs: Arc<Vec<StreamSpec>>, sh: Sh, ex: Exec) {
    let (mut r, w) = sub.split();
    let mut t = [0u8; 4];
    let mut got = 0;
    while got < 4 {
        match r.read(&mut t[got..]).await {
            Ok(0) => {
                set_bad(&sh, "C24:bytes-lost-before-eof", format!("an inbound substream ended after {got} bytes (every opener writes a 4-byte tag first)"));
                sh.lock().unwrap().graveyard.push(Box::new((r, w)));
                return;
            }
            Ok(k) => got += k,
            Err(e) => {
                set_bad(&sh, "C24:unexpected-error", format!("inbound substream: read failed: {e}"));
                return;
            }
        }
    }
    let i = t[1].wrapping_sub(0x40) as usize;
    let ok = i < specs.len() && t == tag(i) && specs[i].a_opens != side_is_a;
    if !ok {
        set_bad(&sh, "C24:substream-delivers-wrong-bytes", format!("an inbound substream starts with {t:?}, which is not the tag of any substream opened by the other endpoint"));
        sh.lock().unwrap().graveyard.push(Box::new((r, w)));
        return;
    }
    {
        let mut g = sh.lock().unwrap();
        if g.accepted[i] {
            drop(g);
            set_bad(&sh, "C24:substream-delivers-wrong-bytes", format!("two inbound substreams start with the tag of stream {i}"));
            return;
        }
        g.accepted[i] = true;
        g.dirs[i][0].recv = 4;
    }
    ex.spawn(writer(w, i, 1, specs[i].acceptor_script.clone(), sh.clone()));
    reader(r, i, 0, 4, specs[i].acceptor_reads.clone(), sh).await;
}

fn driver<M>(mut muxer: M, side_is_a: bool, specs: Arc<Vec<StreamSpec>>, sh: Sh, ex: Exec) -> impl std::future::Future<Output = ()> + Send + 'static
where
    M: StreamMuxer + Unpin + Send + 'static,
    M::Substream: Send + Unpin + 'static,
    M::Error: std::fmt::Display,
{
    let mut to_open: VecDeque<(usize, u8)> = specs.iter().enumerate().filter(|(_, s)| s.a_opens == side_is_a).map(|(i, s)| (i, s.open_delay)).collect();
    poll_fn(move |cx| {
        while let Some(front) = to_open.front_mut() {
            if front.1 > 0 {
                front.1 -= 1;
                cx.waker().wake_by_ref();
                break;
            }
            match Pin::new(&mut muxer).poll_outbound(cx) {
                Poll::Ready(Ok(sub)) => {
                    let i = front.0;
                    to_open.pop_front();
                    sh.lock().unwrap().opened += 1;
                    let (r, w) = sub.split();
                    ex.spawn(writer(w, i, 0, specs[i].opener_script.clone(), sh.clone()));
                    ex.spawn(reader(r, i, 1, 0, specs[i].opener_reads.clone(), sh.clone()));
                }
                Poll::Ready(Err(e)) => {
                    set_bad(&sh, "C24:unexpected-error", format!("poll_outbound failed: {e}"));
                    return Poll::Ready(());
                }
                Poll::Pending => break,
            }
        }
        loop {
            match Pin::new(&mut muxer).poll_inbound(cx) {
                Poll::Ready(Ok(sub)) => {
                    ex.spawn(accepted(sub, side_is_a, specs.clone(), sh.clone(), ex.clone()));
                }
                Poll::Ready(Err(e)) => {
                    set_bad(&sh, "C24:unexpected-error", format!("poll_inbound failed: {e}"));
                    return Poll::Ready(());
                }
                Poll::Pending => break,
            }
        }
        match Pin::new(&mut muxer).poll(cx) {
            Poll::Ready(Err(e)) => {
                set_bad(&sh, "C24:unexpected-error", format!("StreamMuxer::poll failed: {e}"));
                Poll::Ready(())
            }
            Poll::Ready(Ok(_)) => {
                cx.waker().wake_by_ref();
                Poll::Pending
            }
            Poll::Pending => Poll::Pending,
        }
    })
}

struct ClearOnDrop(Exec);
impl Drop for ClearOnDrop {
    fn drop(&mut self) {
        self.0.clear();
    }
}

fn check(case: &Case) -> Outcome {
    if case.streams.is_empty() || case.streams.len() > 16 {
        return Outcome::Discard;
    }
    let (a, b): (Duplex, Duplex) = simio::pair(case.a_to_b.clone(), case.b_to_a.clone());
    let sh: Sh = Arc::new(Mutex::new(Shared {
        dirs: vec![Default::default(); case.streams.len()],
        accepted: vec![false; case.streams.len()],
        ..Default::default()
    }));
    let specs = Arc::new(case.streams.clone());
    let ex = Exec::new();
    let _guard = ClearOnDrop(ex.clone());
    match &case.kind {
        Kind::Mplex { a: ca, b: cb } => {
            let mk = |c: &(u16, u8)| {
                let mut cfg = libp2p_mplex::Config::new();
                cfg.set_split_send_size(c.0.max(1) as usize).set_max_buffer_size(c.1.max(1) as usize).set_max_buffer_behaviour(libp2p_mplex::MaxBufferBehaviour::Block);
                cfg
            };
            let ma = mk(ca).upgrade_outbound(a, "/mplex/6.7.0").now_or_never().unwrap().unwrap();
            let mb = mk(cb).upgrade_inbound(b, "/mplex/6.7.0").now_or_never().unwrap().unwrap();
            ex.spawn_named("driver-a", driver(ma, true, specs.clone(), sh.clone(), ex.clone()));
            ex.spawn_named("driver-b", driver(mb, false, specs.clone(), sh.clone(), ex.clone()));
        }
        Kind::Yamux => {
            let ma = libp2p_yamux::Config::default().upgrade_outbound(a, "/yamux/1.0.0").now_or_never().unwrap().unwrap();
            let mb = libp2p_yamux::Config::default().upgrade_inbound(b, "/yamux/1.0.0").now_or_never().unwrap().unwrap();
            ex.spawn_named("driver-a", driver(ma, true, specs.clone(), sh.clone(), ex.clone()));
            ex.spawn_named("driver-b", driver(mb, false, specs.clone(), sh.clone(), ex.clone()));
        }
    }

    // prefix safety is checked inside the readers at every step; the generated schedule only
    // decides the interleaving
    let mut concurrent_streams = 0usize;
    for (k, &p) in case.schedule.iter().enumerate() {
        if p == u16::MAX {
            // spurious poll of some live task
            let alive = ex.alive();
            if !alive.is_empty() {
                ex.poll_task(alive[k % alive.len()]);
            }
        } else if ex.step(p).is_none() {
            break;
        }
        if sh.lock().unwrap().bad.is_some() {
            break;
        }
        let g = sh.lock().unwrap();
        let active = g.dirs.iter().filter(|d| (d[0].writer_started && !d[0].eof) || (d[1].writer_started && !d[1].eof)).count();
        concurrent_streams = concurrent_streams.max(active);
    }
    let quiescent = ex.drain(3_000_000);
    let g = sh.lock().unwrap();
    if let Some((sig, detail)) = &g.bad {
        return Outcome::fail(sig.clone(), json!({"what": detail, "kind": format!("{:?}", case.kind)}));
    }
    if !quiescent {
        return Outcome::Inconclusive("tasks still runnable after 3e6 polls".into());
    }
    let dump = |g: &Shared| json!({"kind": format!("{:?}", case.kind), "streams": g.dirs.iter().map(|d| format!("{d:?}")).collect::<Vec<_>>(), "opened": g.opened});
    if g.opened != case.streams.len() {
        return Outcome::fail("C24:stall", json!({"what": "not every substream could be opened", "state": dump(&g)}));
    }
    let mut half_closed = false;
    let mut interleaved = concurrent_streams >= 2;
    let mut total = 0usize;
    for (i, d2) in g.dirs.iter().enumerate() {
        for (d, s) in d2.iter().enumerate() {
            total += s.recv;
            if s.recv > s.sent {
                return Outcome::fail("C24:received-more-than-written", json!({"stream": i, "dir": d, "state": dump(&g)}));
            }
            if s.writer_started && !s.writer_done {
                return Outcome::fail("C24:stall", json!({"what": format!("writer of stream {i} dir {d} never finished"), "state": dump(&g)}));
            }
            if s.recv < s.flushed {
                return Outcome::fail("C24:flushed-bytes-not-delivered", json!({"stream": i, "dir": d, "state": dump(&g)}));
            }
            if s.closed && s.recv != s.sent {
                return Outcome::fail("C24:bytes-lost-before-eof", json!({"stream": i, "dir": d, "state": dump(&g)}));
            }
            if s.closed && !s.eof {
                return Outcome::fail("C24:no-eof-after-close", json!({"stream": i, "dir": d, "state": dump(&g)}));
            }
            if s.eof && !s.closed {
                return Outcome::fail("C24:eof-before-writer-closed", json!({"stream": i, "dir": d, "state": dump(&g)}));
            }
        }
        if d2[0].closed != d2[1].closed && d2[0].sent > 4 && d2[1].sent > 0 {
            half_closed = true;
        }
    }
    if case.streams.len() < 2 {
        interleaved = false;
    }
    let mut labels = vec![];
    labels.push(if matches!(case.kind, Kind::Yamux) { "yamux" } else { "mplex" });
    if half_closed {
        labels.push("half_close");
    }
    if interleaved {
        labels.push("concurrent_streams");
    }
    if case.a_to_b.capacity.is_some() || case.b_to_a.capacity.is_some() {
        labels.push("bounded_pipe");
    }
    if case.streams.iter().any(|s| s.a_opens) && case.streams.iter().any(|s| !s.a_opens) {
        labels.push("both_sides_open");
    }
    Outcome::pass_l(interleaved && total > 8 && g.dirs.iter().any(|d| d[0].closed || d[1].closed), labels)
}

// ---------------------------------------------------------------------------------------------

fn wop() -> impl Strategy<Value = WOp> {
    prop_oneof![
        6 => prop_oneof![5 => 1u16..=40, 3 => 41u16..=600, 1 => 601u16..=4096].prop_map(WOp::Write),
        3 => Just(WOp::Flush),
        2 => Just(WOp::Close),
    ]
}

fn script() -> impl Strategy<Value = Vec<WOp>> {
    (proptest::collection::vec(wop(), 0..=6), prop::bool::weighted(0.7)).prop_map(|(mut v, close)| {
        if close {
            v.push(WOp::Close);
        }
        v
    })
}

fn reads() -> impl Strategy<Value = Vec<u16>> {
    proptest::collection::vec(prop_oneof![Just(1u16), 2u16..=17, Just(256u16), Just(4096u16)], 1..=4)
}

fn stream_spec() -> impl Strategy<Value = StreamSpec> {
    (any::<bool>(), prop_oneof![3 => Just(0u8), 2 => 1u8..=12], script(), script(), reads(), reads())
        .prop_map(|(a_opens, open_delay, opener_script, acceptor_script, opener_reads, acceptor_reads)| StreamSpec { a_opens, open_delay, opener_script, acceptor_script, opener_reads, acceptor_reads })
}

fn pipe_dir() -> impl Strategy<Value = DirCfg> {
    (simio::dircfg_strategy(30), prop_oneof![3 => Just(None), 1 => (1u32..=40).prop_map(Some), 1 => (41u32..=5000).prop_map(Some)]).prop_map(|(mut d, c)| {
        d.capacity = c;
        d
    })
}

fn kind(yamux: bool) -> BoxedStrategy<Kind> {
    if yamux {
        Just(Kind::Yamux).boxed()
    } else {
        let c = || (prop_oneof![3 => 1u16..=64, 1 => Just(1024u16), 1 => Just(8192u16)], 1u8..=8);
        (c(), c()).prop_map(|(a, b)| Kind::Mplex { a, b }).boxed()
    }
}

fn strategy(yamux: bool) -> impl Strategy<Value = Case> {
    // yamux (external crate, 0.14) stops reading while it owes a Pong it cannot write; with both
    // pipe directions full and both initial pings crossing, the two connections block each other.
    // That is a property of the transport buffering yamux needs, not of substream delivery, so the
    // yamux pipes are unbounded (chunking and spurious Pending are still generated).
    let dir = move || if yamux { simio::dircfg_strategy(30).boxed() } else { pipe_dir().boxed() };
    (
        kind(yamux),
        dir(),
        dir(),
        proptest::collection::vec(stream_spec(), 1..=5),
        proptest::collection::vec(prop_oneof![12 => any::<u16>(), 1 => Just(u16::MAX)], 0..=300),
    )
        .prop_map(|(kind, a_to_b, b_to_a, streams, schedule)| Case { kind, a_to_b, b_to_a, streams, schedule })
}

/// bounded-exhaustive schedules for a fixed two-stream scenario: every sequence of `len` choices
/// among {first, middle, last} runnable task
fn sweep_case(yamux: bool, len: usize, mut idx: usize) -> Case {
    let mut schedule = vec![];
    for _ in 0..len {
        schedule.push([0u16, 0x8000, 0xFFFE][idx % 3]);
        idx /= 3;
    }
    let spec = |a_opens: bool| StreamSpec {
        a_opens,
        open_delay: 0,
        opener_script: vec![WOp::Write(9), WOp::Flush, WOp::Write(5), WOp::Close],
        acceptor_script: vec![WOp::Write(7), WOp::Close],
        opener_reads: vec![3],
        acceptor_reads: vec![2, 5],
    };
    Case {
        kind: if yamux { Kind::Yamux } else { Kind::Mplex { a: (4, 1), b: (8, 2) } },
        a_to_b: DirCfg { read: Script::chunks(5), write: Script::whole(), capacity: None },
        b_to_a: DirCfg { read: Script::whole(), write: Script::chunks(3), capacity: if yamux { None } else { Some(16) } },
        streams: vec![spec(true), spec(false), spec(true)],
        schedule,
    }
}

pub fn run(ctx: &mut Ctx) {
    ctx.assume("mplex endpoints use MaxBufferBehaviour::Block (ResetStream drops data by design: C26); the pipe never fails and nobody drops a substream before the end of a case");
    ctx.assume("bytes written but not followed by a completed flush/close need not be delivered; at quiescence flushed <= received <= written, and EOF iff the writer's close completed");
    ctx.assume("yamux pipes are unbounded: with both directions of a bounded pipe full, yamux 0.14 endpoints that each owe a Pong stop reading and block each other (transport-buffering requirement of the external crate, outside this statement)");
    ctx.assume("yamux measures round-trip times with the wall clock (window tuning); no assertion depends on frame or window sizes; yamux uses no randomness");
    let n_m = ctx.n(40_000, 1_200_000);
    let n_y = ctx.n(25_000, 800_000);
    let rule = "1..5 substreams opened by either endpoint after generated delays; per direction a script of 0..6 {write 1..4096 bytes, flush, close} (+ final close 70 %), generated read sizes; pipe with generated chunk scripts / spurious Pending / optional capacity; schedule of 0..300 picks (incl. spurious polls) then fair drain; non-trivial = at least 2 substreams were active at the same time, data flowed and a half was closed";
    ctx.check::<Case>("mplex", &format!("mplex, per endpoint split_send_size in {{1..64,1024,8192}} and max_buffer_len 1..8 (Block); {rule}"), n_m, &|| strategy(false).boxed(), &check);
    ctx.check::<Case>("yamux", &format!("yamux default config; {rule}"), n_y, &|| strategy(true).boxed(), &check);
    let len = ctx.tier.sel(9usize, 12usize);
    for (name, y) in [("mplex-schedules", false), ("yamux-schedules", true)] {
        ctx.sweep::<Case, _>(
            name,
            &format!("fixed scenario (3 substreams opened from both sides, write/flush/write/close vs write/close, small split size and buffers, chunked bounded pipe) under every schedule prefix of length {len} over {{first, middle, last}} runnable task"),
            true,
            &|lane| (0..3usize.pow(len as u32)).skip(lane).step_by(LANES).map(move |i| sweep_case(y, len, i)),
            &check,
        );
    }
}
