//! Data channel that hands the reader exactly one pushed frame per read (so "frames consumed" is an
//! observable counter) and whose writes can be scripted to return Pending.

use futures::io::{AsyncRead, AsyncWrite};
use std::collections::VecDeque;
use std::io;
use std::pin::Pin;
use std::sync::{Arc, Mutex};
use std::task::{Context, Poll};
use vcore::simio::Duplex;

// ---------------------------------------------------------------------------------------------
// data channel: one frame per read, scripted write readiness

#[derive(Default)]
pub struct ChanSt {
    pub frame_rem: VecDeque<usize>,
    pub consumed: usize,
    pub eofs: usize,
    pub wpend: VecDeque<bool>,
    /// while set, every write returns Pending (the remote does not read); the harness polls by hand
    pub blocked: bool,
}

#[derive(Clone)]
pub struct Chan {
    pub io: Duplex,
    pub st: Arc<Mutex<ChanSt>>,
}

impl AsyncRead for Chan {
    fn poll_read(mut self: Pin<&mut Self>, cx: &mut Context<'_>, buf: &mut [u8]) -> Poll<io::Result<usize>> {
        let st = self.st.clone();
        let mut st = st.lock().unwrap();
        match st.frame_rem.front().copied() {
            Some(rem) => {
                let n = rem.min(buf.len());
                match Pin::new(&mut self.io).poll_read(cx, &mut buf[..n]) {
                    Poll::Ready(Ok(k)) => {
                        if k == rem {
                            st.frame_rem.pop_front();
                            st.consumed += 1;
                        } else {
                            *st.frame_rem.front_mut().unwrap() = rem - k;
                        }
                        Poll::Ready(Ok(k))
                    }
                    other => other,
                }
            }
            None => {
                let r = Pin::new(&mut self.io).poll_read(cx, buf);
                if let Poll::Ready(Ok(0)) = r {
                    st.eofs += 1;
                }
                r
            }
        }
    }
}

impl AsyncWrite for Chan {
    fn poll_write(mut self: Pin<&mut Self>, cx: &mut Context<'_>, buf: &[u8]) -> Poll<io::Result<usize>> {
        if self.st.lock().unwrap().blocked {
            return Poll::Pending;
        }
        let p = self.st.lock().unwrap().wpend.pop_front().unwrap_or(false);
        if p {
            cx.waker().wake_by_ref();
            return Poll::Pending;
        }
        Pin::new(&mut self.io).poll_write(cx, buf)
    }
    fn poll_flush(mut self: Pin<&mut Self>, cx: &mut Context<'_>) -> Poll<io::Result<()>> {
        Pin::new(&mut self.io).poll_flush(cx)
    }
    fn poll_close(mut self: Pin<&mut Self>, cx: &mut Context<'_>) -> Poll<io::Result<()>> {
        Pin::new(&mut self.io).poll_close(cx)
    }
}


impl Chan {
    pub fn new(io: Duplex) -> Self {
        Chan { io, st: Arc::new(Mutex::new(ChanSt::default())) }
    }
    /// inject one frame towards the reader of this channel
    pub fn push_frame(&self, bytes: &[u8]) {
        self.st.lock().unwrap().frame_rem.push_back(bytes.len());
        self.io.push_raw(bytes);
    }
    pub fn consumed(&self) -> usize {
        self.st.lock().unwrap().consumed
    }
    pub fn set_blocked(&self, b: bool) {
        self.st.lock().unwrap().blocked = b;
    }
}
