//! Shared by C42 and C43: a real `kad::Behaviour<MemoryStore>` driven directly through
//! `NetworkBehaviour::on_connection_handler_event` and `poll` (no swarm, no sockets).
use futures::task::noop_waker_ref;
use libp2p_identity::PeerId;
use libp2p_kad::store::MemoryStore;
use libp2p_kad::{Behaviour, Config, Event, InboundRequest, StoreInserts};
use libp2p_swarm::{NetworkBehaviour, StreamProtocol, THandlerInEvent, THandlerOutEvent, ToSwarm};
use std::num::NonZeroUsize;
use std::task::{Context, Poll};
use std::time::Duration;

pub type B = Behaviour<MemoryStore>;
pub type HandlerOut = THandlerOutEvent<B>;
pub type HandlerIn = THandlerInEvent<B>;

pub fn local() -> PeerId {
    vcore::gen::peer(0)
}

pub struct Cfg {
    pub record_ttl: Option<Duration>,
    pub provider_ttl: Option<Duration>,
    pub filter: bool,
    pub replication_factor: usize,
}

pub fn behaviour(c: &Cfg) -> B {
    let mut cfg = Config::new(StreamProtocol::new("/ipfs/kad/1.0.0"));
    cfg.set_record_ttl(c.record_ttl);
    cfg.set_provider_record_ttl(c.provider_ttl);
    cfg.set_record_filtering(if c.filter { StoreInserts::FilterBoth } else { StoreInserts::Unfiltered });
    cfg.set_replication_factor(NonZeroUsize::new(c.replication_factor.max(1)).unwrap());
    cfg.set_replication_interval(None);
    cfg.set_publication_interval(None);
    cfg.set_provider_publication_interval(None);
    cfg.set_periodic_bootstrap_interval(None);
    Behaviour::with_config(local(), MemoryStore::new(local()), cfg)
}

/// everything `poll` hands out until it returns Pending (bounded)
pub fn drain(b: &mut B) -> Vec<ToSwarm<Event, HandlerIn>> {
    let mut cx = Context::from_waker(noop_waker_ref());
    let mut out = vec![];
    for _ in 0..10_000 {
        match b.poll(&mut cx) {
            Poll::Ready(e) => out.push(e),
            Poll::Pending => break,
        }
    }
    out
}

/// the `InboundRequest`s among drained events
pub fn inbound_requests(evs: Vec<ToSwarm<Event, HandlerIn>>) -> Vec<InboundRequest> {
    evs.into_iter()
        .filter_map(|e| match e {
            ToSwarm::GenerateEvent(Event::InboundRequest { request }) => Some(request),
            _ => None,
        })
        .collect()
}
