//! C39 — iterative lookups are bounded, terminate and return the closest responders
//! (ClosestPeersIter, ClosestDisjointPeersIter, FixedPeersIter driven by one interpreter).
use crate::util::*;
use libp2p_identity::PeerId;
use libp2p_kad::verif::{ClosestPeersIter, ClosestPeersIterConfig, Disjoint, Fixed, PeersIterState};
use libp2p_kad::KBucketKey;
use proptest::prelude::*;
use serde::{Deserialize, Serialize};
use serde_json::{json, Value};
use std::collections::{BTreeMap, BTreeSet};
use std::num::NonZeroUsize;
use std::sync::OnceLock;
use std::time::{Duration, Instant};
use vcore::runner::LANES;
use vcore::{pick, Ctx, Outcome};

const TIMEOUT_MS: u64 = 1000;
const UNIVERSE: usize = 40;

fn peers() -> &'static Vec<(PeerId, B32)> {
    static P: OnceLock<Vec<(PeerId, B32)>> = OnceLock::new();
    P.get_or_init(|| {
        (0..UNIVERSE)
            .map(|i| {
                let p = vcore::gen::synthetic_peer(1 + i as u64);
                let k = KBucketKey::from(p);
                let mut b = [0u8; 32];
                b.copy_from_slice(k.hashed_bytes());
                (p, b)
            })
            .collect()
    })
}

#[derive(Clone, Copy, Debug, Serialize, Deserialize, PartialEq, Eq)]
pub enum Kind {
    Plain,
    Disjoint,
    Fixed,
}

#[derive(Clone, Debug, Serialize, Deserialize)]
pub enum Step {
    /// deliver a result for the pick-th deliverable request (live or already timed out)
    Deliver { pick: u16, ok: bool },
    /// the pick-th deliverable request will never be answered
    Silence { pick: u16 },
    /// let time pass
    Advance { ms: u16 },
    /// let time pass up to the deadline of the pick-th deliverable request (+ extra ms)
    ToDeadline { pick: u16, extra: u8 },
    /// report a result for an arbitrary peer of the universe (unknown / not contacted / answered)
    Bogus { peer: u8, ok: bool },
    /// `finish()` called by the owner of the iterator
    ForceFinish,
}

#[derive(Clone, Debug, Serialize, Deserialize)]
pub struct Case {
    kind: Kind,
    n: u8,
    target: B32,
    /// initially known peers (indices mod n), in the order handed to the constructor
    initial: Vec<u8>,
    /// closer-peers answer of every peer (indices mod n)
    answers: Vec<Vec<u8>>,
    parallelism: u8,
    num_results: u8,
    /// max consecutive `next` calls before a script step is taken
    batch: u8,
    script: Vec<Step>,
}

enum St {
    Issue(PeerId),
    WaitNone,
    AtCapacity,
    Finished,
}

fn own(s: PeersIterState<'_>) -> St {
    match s {
        PeersIterState::Waiting(Some(p)) => St::Issue(p.into_owned()),
        PeersIterState::Waiting(None) => St::WaitNone,
        PeersIterState::WaitingAtCapacity => St::AtCapacity,
        PeersIterState::Finished => St::Finished,
    }
}

enum It {
    Plain(ClosestPeersIter),
    Disjoint(Disjoint),
    Fixed(Fixed),
}

impl It {
    fn next(&mut self, now: Instant) -> St {
        match self {
            It::Plain(i) => own(i.next(now)),
            It::Disjoint(i) => own(i.next(now)),
            It::Fixed(i) => own(i.next()),
        }
    }
    fn on_success(&mut self, p: &PeerId, closer: Vec<PeerId>) -> bool {
        match self {
            It::Plain(i) => i.on_success(p, closer),
            It::Disjoint(i) => i.on_success(p, closer),
            It::Fixed(i) => i.on_success(p),
        }
    }
    fn on_failure(&mut self, p: &PeerId) -> bool {
        match self {
            It::Plain(i) => i.on_failure(p),
            It::Disjoint(i) => i.on_failure(p),
            It::Fixed(i) => i.on_failure(p),
        }
    }
    fn finish(&mut self) {
        match self {
            It::Plain(i) => i.finish(),
            It::Disjoint(i) => i.finish(),
            It::Fixed(i) => i.finish(),
        }
    }
    fn is_finished(&self) -> bool {
        match self {
            It::Plain(i) => i.is_finished(),
            It::Disjoint(i) => i.is_finished(),
            It::Fixed(i) => i.is_finished(),
        }
    }
    /// per path (num_waiting, stalled); the fixed iterator exposes nothing
    fn paths(&self) -> Vec<(usize, bool)> {
        match self {
            It::Plain(i) => vec![(i.num_waiting(), i.verif_is_stalled())],
            It::Disjoint(i) => i.paths().into_iter().map(|(w, s, _)| (w, s)).collect(),
            It::Fixed(_) => vec![],
        }
    }
    fn into_result(self) -> Vec<PeerId> {
        match self {
            It::Plain(i) => i.into_result().collect(),
            It::Disjoint(i) => i.into_result(),
            It::Fixed(i) => i.into_result(),
        }
    }
}

#[derive(Default)]
struct Stats {
    failures: u32,
    timeouts: u32,
    late: u32,
    stalled: bool,
    hops: u32,
    forced: bool,
    issued: usize,
    result_len: usize,
    over_par: bool,
    /// a failure / success was accepted for a request that had already run into the peer timeout
    late_failure: u32,
    late_success: u32,
    /// a success was delivered while a request to a closer peer was still in flight (not timed out)
    reordered: bool,
    /// ... and at that moment a peer closer than both had already failed or timed out
    reordered_behind_failed: bool,
    /// the lookup finished on its own with a failed / timed-out peer closer than the farthest result
    finished_past_failed_closer: bool,
}

fn fail(sig: &str, d: Value) -> Result<Stats, Outcome> {
    Err(Outcome::fail(sig, d))
}

fn drive(c: &Case) -> Result<Stats, Outcome> {
    let uni = peers();
    let n = (c.n as usize).clamp(1, UNIVERSE);
    let idx_of = |p: &PeerId| uni[..n].iter().position(|(q, _)| q == p);
    let par = c.parallelism.max(1) as usize;
    let nr = c.num_results.max(1) as usize;
    let cfg = ClosestPeersIterConfig { parallelism: NonZeroUsize::new(par).unwrap(), num_results: NonZeroUsize::new(nr).unwrap(), peer_timeout: Duration::from_millis(TIMEOUT_MS) };
    let initial: Vec<usize> = c.initial.iter().map(|i| *i as usize % n).collect();
    let target = raw_key(&c.target);
    let dist = |i: usize| xor(&uni[i].1, &c.target);
    let mut it = match c.kind {
        Kind::Plain => It::Plain(ClosestPeersIter::with_config(cfg, target, initial.iter().map(|i| KBucketKey::from(uni[*i].0)))),
        Kind::Disjoint => It::Disjoint(Disjoint::with_config(cfg, target, initial.iter().map(|i| KBucketKey::from(uni[*i].0)))),
        Kind::Fixed => It::Fixed(Fixed::new(initial.iter().map(|i| uni[*i].0), NonZeroUsize::new(par).unwrap())),
    };
    let n_paths = if c.kind == Kind::Disjoint { par } else { 1 };
    let big = nr.max(par);
    // harness-side bookkeeping -------------------------------------------------------------------
    let base = Instant::now();
    let mut now_ms: u64 = 0;
    let mut issued: BTreeMap<usize, u64> = BTreeMap::new(); // idx → deadline (ms)
    let mut answered: BTreeSet<usize> = BTreeSet::new();
    let mut silent: BTreeSet<usize> = BTreeSet::new();
    let mut succeeded: BTreeSet<usize> = BTreeSet::new();
    // learned peers and the hop count at which they were learned
    let mut learned: BTreeMap<usize, u32> = BTreeMap::new();
    let first: Vec<usize> = if c.kind == Kind::Fixed { initial.clone() } else { initial.iter().take(20).cloned().collect() };
    for i in &first {
        learned.entry(*i).or_insert(0);
    }
    let mut st = Stats::default();
    let mut ever_stalled = false;
    let mut script = c.script.iter();
    let limit = 4 * (n + 1) * 3 + c.script.len() * 2 + 20;
    let mut stuck = 0;
    let mut self_finished = false;
    let mut finished = false;
    // peers for which a second, contradictory report (a success after the request had already been
    // answered with a failure) was delivered and refused by the iterator
    let mut dup_success_after_failure: BTreeSet<usize> = BTreeSet::new();
    let mut fixed_cursor = 0usize;
    let mut batch_left = c.batch.max(1);
    let mut steps = 0usize;
    let mut trace: Vec<String> = vec![];
    macro_rules! ctx {
        ($($k:tt : $v:expr),*) => { json!({"trace": trace, "now_ms": now_ms, "par": par, "num_results": nr, $($k: $v),*}) };
    }
    loop {
        steps += 1;
        if steps > limit {
            return fail("C39:does-not-terminate", ctx!("steps": steps));
        }
        let now = base + Duration::from_millis(now_ms);
        let s = it.next(now);
        // ---- bounds after every call -------------------------------------------------------------
        let outstanding: Vec<usize> = issued.keys().filter(|i| !answered.contains(i)).cloned().collect();
        let inflight = outstanding.iter().filter(|i| issued[i] > now_ms).count() + usize::from(matches!(s, St::Issue(_)));
        let paths = it.paths();
        for (w, stalled) in &paths {
            ever_stalled |= *stalled;
            st.stalled |= *stalled;
            if *w > big {
                return fail("C39:path-waiting-exceeds-max(num_results,parallelism)", ctx!("num_waiting": w));
            }
            if !ever_stalled && *w > par {
                return fail("C39:waiting-exceeds-parallelism-while-never-stalled", ctx!("num_waiting": w));
            }
        }
        if c.kind == Kind::Plain {
            let w = paths[0].0;
            // the iterator's counter brackets the harness's own view
            let out_after = outstanding.len() + usize::from(matches!(s, St::Issue(_)));
            if w < inflight || w > out_after {
                return fail("C39:num_waiting-inconsistent-with-requests", ctx!("num_waiting": w, "unexpired_in_flight": inflight, "outstanding": out_after));
            }
        }
        if inflight > par {
            st.over_par = true;
        }
        let cap_total = if c.kind == Kind::Fixed { par } else { n_paths * if ever_stalled { big } else { par } };
        if inflight > cap_total {
            return fail("C39:in-flight-exceeds-bound", ctx!("in_flight": inflight, "bound": cap_total, "ever_stalled": ever_stalled));
        }
        match s {
            St::Issue(p) => {
                let Some(i) = idx_of(&p) else { return fail("C39:unknown-peer-issued", ctx!("peer": p.to_string())) };
                trace.push(format!("issue {i}"));
                if issued.contains_key(&i) {
                    return fail("C39:peer-contacted-twice", ctx!("peer": i));
                }
                if !learned.contains_key(&i) {
                    return fail("C39:contacted-peer-never-learned", ctx!("peer": i));
                }
                // a new request is only issued below the bound that applies in the current state
                match c.kind {
                    Kind::Plain => {
                        let bound = if paths[0].1 { big } else { par };
                        if inflight > bound {
                            return fail("C39:request-issued-at-capacity", ctx!("in_flight": inflight, "bound": bound, "stalled": paths[0].1));
                        }
                    }
                    Kind::Fixed => {
                        // order of the list, duplicates skipped
                        while fixed_cursor < initial.len() && issued.contains_key(&initial[fixed_cursor]) {
                            fixed_cursor += 1;
                        }
                        if initial.get(fixed_cursor) != Some(&i) {
                            return fail("C39:fixed-order-violated", ctx!("peer": i));
                        }
                    }
                    Kind::Disjoint => {}
                }
                issued.insert(i, now_ms + TIMEOUT_MS);
                st.issued += 1;
                st.hops = st.hops.max(learned[&i]);
                batch_left -= 1;
                if batch_left > 0 {
                    continue;
                }
            }
            St::Finished => {
                self_finished = !st.forced;
                finished = true;
            }
            St::WaitNone | St::AtCapacity => {}
        }
        if finished {
            break;
        }
        batch_left = c.batch.max(1);
        // ---- one script step (or the default) -----------------------------------------------------
        let deliverable: Vec<usize> = issued.keys().filter(|i| !answered.contains(i) && !silent.contains(i)).cloned().collect();
        let waiting_state = matches!(s, St::WaitNone | St::AtCapacity);
        let step = script.next().cloned();
        let mut do_default = false;
        match step {
            Some(Step::Deliver { pick: pk, ok }) if !deliverable.is_empty() => {
                let i = deliverable[pick(pk, deliverable.len())];
                deliver(&mut it, c, uni, n, i, ok, now_ms, &issued, &mut answered, &mut succeeded, &mut learned, &mut st, &mut trace)?;
            }
            Some(Step::Silence { pick: pk }) if !deliverable.is_empty() && c.kind != Kind::Fixed => {
                let i = deliverable[pick(pk, deliverable.len())];
                trace.push(format!("silence {i}"));
                silent.insert(i);
            }
            Some(Step::Advance { ms }) if c.kind != Kind::Fixed => {
                now_ms += ms as u64;
                trace.push(format!("advance {ms}"));
            }
            Some(Step::ToDeadline { pick: pk, extra }) if !deliverable.is_empty() && c.kind != Kind::Fixed => {
                let i = deliverable[pick(pk, deliverable.len())];
                let t = issued[&i] + extra as u64;
                if t > now_ms {
                    now_ms = t;
                }
                trace.push(format!("to-deadline {i} +{extra}"));
            }
            Some(Step::Bogus { peer, ok }) => {
                let i = peer as usize % n;
                if deliverable.contains(&i) || silent.contains(&i) {
                    do_default = true;
                } else {
                    // never contacted, unknown or already answered: must be refused and change nothing
                    let r = if ok { it.on_success(&uni[i].0, vec![uni[(i + 1) % n].0]) } else { it.on_failure(&uni[i].0) };
                    trace.push(format!("bogus {i} ok={ok} -> {r}"));
                    if r {
                        return fail("C39:result-accepted-for-peer-not-waited-for", ctx!("peer": i));
                    }
                    if ok && answered.contains(&i) && !succeeded.contains(&i) {
                        dup_success_after_failure.insert(i);
                    }
                }
            }
            Some(Step::ForceFinish) => {
                it.finish();
                st.forced = true;
                trace.push("finish()".into());
                if !it.is_finished() {
                    return fail("C39:finish-did-not-finish", ctx!());
                }
            }
            _ => do_default = true,
        }
        if do_default {
            if !deliverable.is_empty() {
                deliver(&mut it, c, uni, n, deliverable[0], true, now_ms, &issued, &mut answered, &mut succeeded, &mut learned, &mut st, &mut trace)?;
            } else if waiting_state {
                // nothing can be delivered: only time can help (silent peers run into their timeout)
                let pending_deadline = issued.iter().filter(|(i, d)| !answered.contains(i) && **d > now_ms).map(|(_, d)| *d).max();
                match pending_deadline {
                    Some(d) => {
                        now_ms = d;
                        trace.push(format!("auto-advance to {d}"));
                    }
                    None => {
                        // every request has been answered or has timed out, and the iterator still waits
                        // (a disjoint path that picked up a peer already contacted by another path waits for
                        // it with its own, later deadline: let one more peer_timeout pass per path)
                        stuck += 1;
                        now_ms += TIMEOUT_MS;
                        trace.push(format!("nothing in flight: advance {TIMEOUT_MS}"));
                        if stuck > n_paths + 2 {
                            return fail("C39:stuck-waiting-with-all-requests-answered-or-timed-out", ctx!("outstanding_timed_out": outstanding));
                        }
                    }
                }
            }
        }
    }
    // ---- result ---------------------------------------------------------------------------------------
    let final_now = now_ms;
    // requests that ran into the peer timeout without an answer (answered late or never)
    st.timeouts += issued.iter().filter(|(i, d)| !answered.contains(i) && **d <= final_now).count() as u32;
    let result = it.into_result();
    let mut res_idx = vec![];
    for p in &result {
        match idx_of(p) {
            Some(i) => res_idx.push(i),
            None => return fail("C39:unknown-peer-in-result", ctx!()),
        }
    }
    st.result_len = res_idx.len();
    for i in &res_idx {
        if !succeeded.contains(i) {
            // the disjoint iterator returned `false` for the duplicate report, yet a path that did not
            // initiate the request took it for the answer it was waiting for
            let sig = if c.kind == Kind::Disjoint && dup_success_after_failure.contains(i) { "C39:disjoint-refused-duplicate-success-still-counted-by-another-path" } else { "C39:result-contains-peer-that-did-not-respond" };
            return fail(sig, ctx!("peer": i, "result": res_idx));
        }
    }
    let uniq: BTreeSet<usize> = res_idx.iter().cloned().collect();
    if uniq.len() != res_idx.len() {
        return fail("C39:duplicate-in-result", ctx!("result": res_idx));
    }
    match c.kind {
        Kind::Fixed => {
            if uniq != succeeded {
                return fail("C39:fixed-result-is-not-the-set-of-responders", ctx!("result": res_idx, "succeeded": succeeded));
            }
            if self_finished {
                let all: BTreeSet<usize> = initial.iter().cloned().collect();
                let done: BTreeSet<usize> = answered.clone();
                if all != done {
                    return fail("C39:fixed-finished-before-all-peers-answered", ctx!("answered": done));
                }
            }
        }
        Kind::Plain | Kind::Disjoint => {
            for w in res_idx.windows(2) {
                if dist(w[0]) >= dist(w[1]) {
                    return fail("C39:result-not-in-increasing-distance", ctx!("result": res_idx));
                }
            }
            let max_len = if c.kind == Kind::Plain { nr } else { nr * n_paths };
            if res_idx.len() > max_len {
                return fail("C39:more-than-num_results-returned", ctx!("result": res_idx));
            }
            if c.kind == Kind::Plain {
                // the closest responders: first num_results of all responders by distance
                let mut succ: Vec<usize> = succeeded.iter().cloned().collect();
                succ.sort_by_key(|i| dist(*i));
                succ.truncate(nr);
                if succ != res_idx {
                    return fail("C39:result-not-the-closest-responders", ctx!("result": res_idx, "closest_responders": succ));
                }
                if self_finished {
                    if let Some(far) = res_idx.last() {
                        let far_d = dist(*far);
                        st.finished_past_failed_closer = issued.iter().any(|(i, d)| dist(*i) < far_d && !succeeded.contains(i) && (answered.contains(i) || *d <= final_now));
                        for (i, _) in learned.iter() {
                            if dist(*i) < far_d {
                                let resolved = answered.contains(i) || issued.get(i).is_some_and(|d| *d <= final_now);
                                if !resolved {
                                    let sig = if issued.contains_key(i) { "C39:finished-while-closer-peer-still-waiting" } else { "C39:finished-with-closer-peer-uncontacted" };
                                    return fail(sig, ctx!("peer": i, "result": res_idx));
                                }
                            }
                        }
                    }
                    // a self-finished lookup with fewer than num_results results has exhausted every learned peer
                    if res_idx.len() < nr {
                        for (i, _) in learned.iter() {
                            let resolved = answered.contains(i) || issued.get(i).is_some_and(|d| *d <= final_now);
                            if !resolved {
                                return fail("C39:finished-short-with-unresolved-peer", ctx!("peer": i, "result": res_idx));
                            }
                        }
                    }
                }
            }
        }
    }
    Ok(st)
}

#[allow(clippy::too_many_arguments)]
fn deliver(
    it: &mut It,
    c: &Case,
    uni: &[(PeerId, B32)],
    n: usize,
    i: usize,
    ok: bool,
    now_ms: u64,
    issued: &BTreeMap<usize, u64>,
    answered: &mut BTreeSet<usize>,
    succeeded: &mut BTreeSet<usize>,
    learned: &mut BTreeMap<usize, u32>,
    st: &mut Stats,
    trace: &mut Vec<String>,
) -> Result<(), Outcome> {
    let late = issued[&i] <= now_ms;
    let was_finished = it.is_finished();
    if ok && !was_finished && c.kind != Kind::Fixed {
        let d = |j: usize| xor(&uni[j].1, &c.target);
        let closer_in_flight = issued.iter().any(|(j, dl)| *j != i && !answered.contains(j) && *dl > now_ms && d(*j) < d(i));
        if closer_in_flight {
            st.reordered = true;
            let closer_dead = issued.iter().any(|(j, dl)| *j != i && d(*j) < d(i) && ((answered.contains(j) && !succeeded.contains(j)) || (!answered.contains(j) && *dl <= now_ms)));
            if closer_dead {
                st.reordered_behind_failed = true;
            }
        }
    }
    let closer_idx: Vec<usize> = c.answers.get(i).map(|v| v.iter().map(|x| *x as usize % n).collect()).unwrap_or_default();
    let r = if ok { it.on_success(&uni[i].0, closer_idx.iter().map(|j| uni[*j].0).collect()) } else { it.on_failure(&uni[i].0) };
    trace.push(format!("{} {i}{} -> {r}", if ok { "success" } else { "failure" }, if late { " (late)" } else { "" }));
    answered.insert(i);
    // (the disjoint iterator answers for the path that issued the request, which may have finished on its own)
    if (r && was_finished) || (!r && !was_finished && c.kind != Kind::Disjoint) {
        // a result for a request the iterator issued and that was not yet reported is accepted unless finished
        return Err(Outcome::fail(if r { "C39:result-accepted-after-finish" } else { "C39:result-for-outstanding-request-refused" }, json!({"trace": trace, "peer": i, "late": late})));
    }
    // the disjoint iterator reports the initiating path's verdict; the other paths may still take the
    // response into account, so for it every success delivered before the overall finish counts as a response
    if ok && !r && !was_finished && c.kind == Kind::Disjoint {
        succeeded.insert(i);
    }
    if r {
        if ok {
            succeeded.insert(i);
            if c.kind != Kind::Fixed {
                let hop = learned.get(&i).cloned().unwrap_or(0) + 1;
                for j in closer_idx {
                    learned.entry(j).or_insert(hop);
                }
            }
        } else {
            st.failures += 1;
        }
        if late {
            st.late += 1;
            if ok {
                st.late_success += 1;
            } else {
                st.late_failure += 1;
            }
        }
    }
    if late {
        st.timeouts += 1;
    }
    Ok(())
}

fn check(c: &Case) -> Outcome {
    check_with(c, false)
}

fn check_with(c: &Case, small: bool) -> Outcome {
    match drive(c) {
        Err(o) => o,
        Ok(st) => {
            let mut labels = vec![match c.kind {
                Kind::Plain => "plain",
                Kind::Disjoint => "disjoint",
                Kind::Fixed => "fixed",
            }];
            for (f, l) in [
                (st.failures > 0, "failure"),
                (st.timeouts > 0, "timeout"),
                (st.late > 0, "late-result-accepted"),
                (st.late_failure > 0, "late-failure-accepted"),
                (st.late_success > 0, "late-success-accepted"),
                (st.reordered, "success-while-closer-peer-in-flight"),
                (st.reordered_behind_failed, "success-while-closer-peer-in-flight+even-closer-peer-failed"),
                (st.finished_past_failed_closer, "self-finished-past-failed-closer-peer"),
                (st.stalled, "stalled"),
                (st.over_par, "in-flight>parallelism"),
                (st.hops >= 2, "hops>=2"),
                (st.forced, "forced-finish"),
                (st.result_len > 0, "non-empty-result"),
                (st.issued >= 8, "issued>=8"),
            ] {
                if f {
                    labels.push(l);
                }
            }
            let nt = if c.kind == Kind::Fixed {
                st.failures > 0 && st.issued >= 3
            } else if small {
                // three peers: a second hop leaves room for only one more decision
                (st.failures > 0 || st.timeouts > 0) && st.hops >= 2
            } else {
                st.failures > 0 && st.timeouts > 0 && st.hops >= 2
            };
            Outcome::pass_l(nt, labels)
        }
    }
}

// ---------------------------------------------------------------------------------------------
// exhaustive small graphs: 3 peers, every answer relation, every non-empty initial set, every
// (parallelism, num_results), every decision string

#[derive(Clone, Debug, Serialize, Deserialize)]
pub struct Small {
    kind: Kind,
    graph: u8,   // 6 bits: answers[i] contains j (j != i)
    initial: u8, // 1..=7 bitmask
    parallelism: u8,
    num_results: u8,
    decisions: Vec<u8>,
    /// outcomes per decision: 3 = success/failure/silence, 4 = + run to the deadline first
    outcomes: u8,
}

fn small_case(s: &Small) -> Case {
    let mut answers = vec![vec![]; 3];
    let mut bit = 0;
    for (i, a) in answers.iter_mut().enumerate() {
        for j in 0..3u8 {
            if j as usize != i {
                if (s.graph >> bit) & 1 == 1 {
                    a.push(j);
                }
                bit += 1;
            }
        }
    }
    let initial = (0..3u8).filter(|i| (s.initial >> i) & 1 == 1).collect();
    let mut script = vec![];
    for d in &s.decisions {
        let pk = ((d / s.outcomes) as u16).saturating_mul(22000); // 0,1,2 → distinct thirds of the u16 range
        match d % s.outcomes {
            0 => script.push(Step::Deliver { pick: pk, ok: true }),
            1 => script.push(Step::Deliver { pick: pk, ok: false }),
            2 => script.push(Step::Silence { pick: pk }),
            _ => script.push(Step::ToDeadline { pick: pk, extra: 0 }),
        }
    }
    let mut target = [0u8; 32];
    target[0] = 0x42;
    Case { kind: s.kind, n: 3, target, initial, answers, parallelism: s.parallelism, num_results: s.num_results, batch: 8, script }
}

fn small_check(s: &Small) -> Outcome {
    check_with(&small_case(s), true)
}

fn case_strategy(kind: Kind, max_n: u8) -> impl Strategy<Value = Case> {
    (2u8..=max_n, any::<B32>(), 1u8..=4, 1u8..=6, 1u8..=8).prop_flat_map(move |(n, target, parallelism, num_results, batch)| {
        let init = proptest::collection::vec(0u8..n, 1..=(n as usize).min(26));
        let answers = proptest::collection::vec(proptest::collection::vec(0u8..n, 0..8), n as usize);
        let step = prop_oneof![
            8 => (any::<u16>(), prop_oneof![4 => Just(true), 1 => Just(false)]).prop_map(|(pick, ok)| Step::Deliver { pick, ok }),
            2 => any::<u16>().prop_map(|pick| Step::Silence { pick }),
            2 => (0u16..2500).prop_map(|ms| Step::Advance { ms }),
            2 => (any::<u16>(), 0u8..3).prop_map(|(pick, extra)| Step::ToDeadline { pick, extra }),
            1 => (0u8..n, any::<bool>()).prop_map(|(peer, ok)| Step::Bogus { peer, ok }),
        ];
        let script = (proptest::collection::vec(step, 0..60), proptest::option::weighted(0.08, 0usize..60)).prop_map(|(mut v, f)| {
            if let Some(pos) = f {
                let pos = pos.min(v.len());
                v.insert(pos, Step::ForceFinish);
            }
            v
        });
        (init, answers, script).prop_map(move |(initial, answers, script)| Case { kind, n, target, initial, answers, parallelism, num_results, batch, script })
    })
}

pub fn run(ctx: &mut Ctx) {
    ctx.assume("the crate-private iterators are reached through cfg(libp2p_verif) re-exports/wrappers (verif::{ClosestPeersIter, Disjoint, Fixed}); is_stalled and the per-path counters are read through added accessors");
    ctx.assume("'in flight' = requests issued by next() that were neither answered nor older than peer_timeout at the `now` handed to the iterator (the harness keeps its own count and also checks the iterator's num_waiting against it)");
    ctx.assume("after the iterator was Stalled it may keep more than `parallelism` requests in flight while Iterating (documented); a new request must still only be issued below the bound of the current state, and the total never exceeds max(num_results, parallelism)");
    ctx.assume("disjoint-path iterator: bounds are asserted per path (each path keeps the full parallelism) and real requests against the sum; its result may hold up to num_results per path (documented); the closer-peer completeness clause is asserted for the plain iterator only");
    let outcomes: u8 = ctx.tier.sel(3, 4);
    let len: usize = ctx.tier.sel(3, 4);
    let per = (3 * outcomes as usize).pow(len as u32);
    let cfgs: Vec<(u8, u8)> = vec![(1, 1), (1, 2), (2, 1), (2, 2), (1, 3), (3, 1), (2, 3), (3, 3), (3, 2)];
    let total = 2 * 64 * 7 * cfgs.len() * per;
    ctx.sweep(
        "exhaustive-3-peers",
        &format!("plain and disjoint iterator over every answer relation on 3 peers (64), every non-empty initial set (7), (parallelism,num_results) in 1..3 x 1..3, and every string of {len} decisions (which outstanding request x success/failure/never-answers{}); afterwards remaining requests succeed / time out; non-trivial = a second hop and a failure or timeout occurred", if outcomes == 4 { "/run-to-deadline" } else { "" }),
        true,
        &|lane| {
            let cfgs = cfgs.clone();
            (0..total).skip(lane).step_by(LANES).map(move |mut x| {
                let kind = if x % 2 == 0 { Kind::Plain } else { Kind::Disjoint };
                x /= 2;
                let graph = (x % 64) as u8;
                x /= 64;
                let initial = 1 + (x % 7) as u8;
                x /= 7;
                let (parallelism, num_results) = cfgs[x % cfgs.len()];
                x /= cfgs.len();
                let mut decisions = vec![];
                for _ in 0..len {
                    decisions.push((x % (3 * outcomes as usize)) as u8);
                    x /= 3 * outcomes as usize;
                }
                Small { kind, graph, initial, parallelism, num_results, decisions, outcomes }
            })
        },
        &small_check,
    );
    ctx.check(
        "plain",
        "ClosestPeersIter: 2..30 peers with generated closer-peer answers (0..7 each), 1..26 initially known peers (order as given; only the first 20 count), parallelism 1..4, num_results 1..6, scripts of up to 60 steps (deliver success/failure to any outstanding request incl. timed-out ones, never answer, advance time, run to a deadline, bogus results, forced finish), 1..8 next() calls between steps; non-trivial = a failure, a timeout and a second hop occurred",
        ctx.n(60_000, 1_500_000),
        &|| case_strategy(Kind::Plain, 30).boxed(),
        &check,
    );
    ctx.check(
        "disjoint",
        "ClosestDisjointPeersIter with the same generator; bounds per path; non-trivial as above",
        ctx.n(40_000, 1_000_000),
        &|| case_strategy(Kind::Disjoint, 30).boxed(),
        &check,
    );
    ctx.check(
        "fixed",
        "FixedPeersIter over lists of 1..26 peers with duplicates, parallelism 1..4, scripts of deliveries / bogus results / forced finish; non-trivial = a failure and >=3 requests",
        ctx.n(30_000, 600_000),
        &|| case_strategy(Kind::Fixed, 12).boxed(),
        &check,
    );
}
