//! C43 — provider records are only accepted from the provider itself (and never for the local
//! node); a PUT_VALUE whose publisher is the local node never changes the local record.
use crate::behave::*;
use libp2p_identity::PeerId;
use libp2p_kad::store::RecordStore;
use libp2p_kad::verif::RequestId;
use libp2p_kad::{ConnectionType, InboundRequest, KadPeer, ProviderRecord, Record, RecordKey};
use libp2p_swarm::{ConnectionId, NetworkBehaviour};
use multiaddr::Multiaddr;
use proptest::prelude::*;
use serde::{Deserialize, Serialize};
use serde_json::json;
use std::time::{Duration, Instant};
use vcore::{ensure, Ctx, Outcome};

const KEYS: u8 = 3;

#[derive(Clone, Copy, Debug, Serialize, Deserialize, PartialEq, Eq)]
pub enum Who {
    Sender,
    Local,
    /// another remote peer (index into the pool, never the sender, never local)
    Other(u8),
}

#[derive(Clone, Debug, Serialize, Deserialize)]
pub enum Op {
    /// inbound ADD_PROVIDER from pool peer `sender` (0 = the local id itself, normally impossible)
    AddProvider { key: u8, sender: u8, provider: Who, addr: u8 },
    /// inbound PUT_VALUE
    PutRecord { key: u8, sender: u8, publisher: Option<Who>, value: u8, ttl_s: Option<u16> },
    /// the local node stores its own record directly (what put_record does locally)
    LocalPut { key: u8, value: u8 },
    /// the local node announces itself as provider directly in the store
    LocalProvide { key: u8 },
}

#[derive(Clone, Debug, Serialize, Deserialize)]
pub struct Case {
    filter: bool,
    provider_ttl_s: Option<u32>,
    record_ttl_s: Option<u32>,
    ops: Vec<Op>,
}

fn peer(i: u8) -> PeerId {
    vcore::gen::peer(i as usize % 8)
}
fn rkey(k: u8) -> RecordKey {
    RecordKey::new(&[b'p', k % KEYS])
}
fn resolve(w: Who, sender: PeerId) -> PeerId {
    match w {
        Who::Sender => sender,
        Who::Local => local(),
        Who::Other(i) => {
            // first pool peer from i on that is neither local nor the sender
            (0..8u8).map(|d| peer(1 + (i.wrapping_add(d)) % 7)).find(|p| *p != sender && *p != local()).expect("pool has 8 peers")
        }
    }
}
fn addrs(tag: u8) -> Vec<Multiaddr> {
    match tag % 3 {
        0 => vec![],
        1 => vec![format!("/ip4/10.1.0.{tag}/tcp/4001").parse().unwrap()],
        _ => vec![format!("/ip4/10.2.0.{tag}/udp/4001/quic-v1").parse().unwrap(), "/dns/p.example.com/tcp/1".parse().unwrap()],
    }
}

type ProvView = Vec<(u8, Vec<(PeerId, Vec<Multiaddr>, bool)>)>;
fn snapshot(b: &mut B) -> (Vec<Option<Record>>, ProvView) {
    let recs = (0..KEYS).map(|k| b.store_mut().get(&rkey(k)).map(|r| r.into_owned())).collect();
    let provs = (0..KEYS)
        .map(|k| {
            let mut v: Vec<_> = b.store_mut().providers(&rkey(k)).into_iter().map(|p| (p.provider, p.addresses, p.expires.is_some())).collect();
            v.sort_by_key(|x| x.0);
            (k, v)
        })
        .collect();
    (recs, provs)
}

fn check(c: &Case) -> Outcome {
    let cfg = Cfg { record_ttl: c.record_ttl_s.map(|s| Duration::from_secs(s as u64)), provider_ttl: c.provider_ttl_s.map(|s| Duration::from_secs(s as u64)), filter: c.filter, replication_factor: 20 };
    let mut b = behaviour(&cfg);
    let _ = drain(&mut b);
    let (mut accepted, mut rejected_other, mut rejected_local, mut local_pub_on_existing, mut local_pub, mut foreign_put) = (0, 0, 0, 0, 0, 0);
    for (step, op) in c.ops.iter().enumerate() {
        let before = snapshot(&mut b);
        match op {
            Op::LocalPut { key, value } => {
                let r = Record { key: rkey(*key), value: vec![b'L', *value], publisher: Some(local()), expires: None };
                b.store_mut().put(r).expect("default limits");
                let _ = drain(&mut b);
            }
            Op::LocalProvide { key } => {
                b.store_mut().add_provider(ProviderRecord::new(rkey(*key), local(), vec![])).expect("default limits");
                let _ = drain(&mut b);
            }
            Op::AddProvider { key, sender, provider, addr } => {
                let sender_id = peer(*sender);
                let provider_id = resolve(*provider, sender_id);
                let ev = HandlerOut::AddProvider { key: rkey(*key), provider: KadPeer { node_id: provider_id, multiaddrs: addrs(*addr), connection_ty: ConnectionType::Connected } };
                b.on_connection_handler_event(sender_id, ConnectionId::new_unchecked(*sender as usize + 1), ev);
                let reqs = inbound_requests(drain(&mut b));
                let after = snapshot(&mut b);
                let add_events: Vec<&Option<ProviderRecord>> = reqs.iter().filter_map(|r| if let InboundRequest::AddProvider { record } = r { Some(record) } else { None }).collect();
                let must_accept = provider_id == sender_id && provider_id != local();
                let detail = || json!({"step": step, "op": format!("{op:?}"), "sender": sender_id.to_string(), "provider": provider_id.to_string(), "local": local().to_string(), "filter": c.filter, "events": add_events.len()});
                if must_accept {
                    accepted += 1;
                    if c.filter {
                        ensure!(before == after, "C43:store-changed-in-filter-mode", detail());
                        ensure!(add_events.len() == 1, "C43:legitimate-provider-not-reported", detail());
                        let rec = add_events[0].as_ref();
                        ensure!(rec.is_some_and(|r| r.provider == sender_id && r.key == rkey(*key) && r.addresses == addrs(*addr)), "C43:reported-provider-record-wrong", detail());
                    } else {
                        ensure!(add_events.len() == 1 && add_events[0].is_none(), "C43:legitimate-provider-not-reported", detail());
                        let listed = after.1[(*key % KEYS) as usize].1.iter().find(|p| p.0 == sender_id);
                        ensure!(listed.is_some_and(|p| p.1 == addrs(*addr) && p.2 == c.provider_ttl_s.is_some()), "C43:legitimate-provider-not-stored", detail());
                        // nothing else moved
                        let mut a = after.clone();
                        let mut bf = before.clone();
                        a.1[(*key % KEYS) as usize].1.retain(|p| p.0 != sender_id);
                        bf.1[(*key % KEYS) as usize].1.retain(|p| p.0 != sender_id);
                        ensure!(a == bf, "C43:unrelated-store-content-changed", detail());
                    }
                } else {
                    if provider_id == local() {
                        rejected_local += 1;
                    } else {
                        rejected_other += 1;
                    }
                    let sig = if provider_id == local() { "C43:local-node-stored-as-provider-by-remote" } else { "C43:provider-accepted-from-third-party" };
                    ensure!(before == after, sig, detail());
                    ensure!(add_events.is_empty(), if provider_id == local() { "C43:local-provider-announcement-reported" } else { "C43:third-party-provider-reported" }, detail());
                }
            }
            Op::PutRecord { key, sender, publisher, value, ttl_s } => {
                let sender_id = peer(1 + *sender % 7);
                let publisher_id = publisher.map(|w| resolve(w, sender_id));
                let rec = Record { key: rkey(*key), value: vec![b'R', *value], publisher: publisher_id, expires: ttl_s.map(|s| Instant::now() + Duration::from_secs(s as u64 + 5)) };
                b.on_connection_handler_event(sender_id, ConnectionId::new_unchecked(*sender as usize + 1), HandlerOut::PutRecord { record: rec, request_id: RequestId::verif_new(step as u64) });
                let reqs = inbound_requests(drain(&mut b));
                let after = snapshot(&mut b);
                if publisher_id == Some(local()) {
                    local_pub += 1;
                    if before.0[(*key % KEYS) as usize].is_some() {
                        local_pub_on_existing += 1;
                    }
                    let detail = || json!({"step": step, "op": format!("{op:?}"), "before": format!("{:?}", before.0[(*key % KEYS) as usize]), "after": format!("{:?}", after.0[(*key % KEYS) as usize])});
                    ensure!(before == after, "C43:local-publisher-put-changed-local-record", detail());
                    let handed_out = reqs.iter().any(|r| matches!(r, InboundRequest::PutRecord { record: Some(_), .. }));
                    ensure!(!handed_out, "C43:local-publisher-put-handed-to-application-for-storing", detail());
                } else {
                    foreign_put += 1;
                }
            }
        }
    }
    let mut labels = vec![];
    for (n, l) in [(accepted, "accepted"), (rejected_other, "rejected-third-party"), (rejected_local, "rejected-local-as-provider"), (local_pub, "put-with-local-publisher"), (local_pub_on_existing, "put-with-local-publisher-on-existing-record"), (foreign_put, "put-foreign")] {
        if n > 0 {
            labels.push(l);
        }
    }
    Outcome::pass_l(accepted > 0 && (rejected_other + rejected_local) > 0 && local_pub_on_existing > 0, labels)
}

fn who() -> impl Strategy<Value = Who> {
    prop_oneof![3 => Just(Who::Sender), 2 => Just(Who::Local), 3 => (0u8..7).prop_map(Who::Other)]
}

fn op() -> impl Strategy<Value = Op> {
    prop_oneof![
        6 => (0u8..KEYS, prop_oneof![9 => 1u8..8, 1 => Just(0u8)], who(), any::<u8>()).prop_map(|(key, sender, provider, addr)| Op::AddProvider { key, sender, provider, addr }),
        4 => (0u8..KEYS, 0u8..7, proptest::option::weighted(0.85, who()), any::<u8>(), proptest::option::of(0u16..1000)).prop_map(|(key, sender, publisher, value, ttl_s)| Op::PutRecord { key, sender, publisher, value, ttl_s }),
        2 => (0u8..KEYS, any::<u8>()).prop_map(|(key, value)| Op::LocalPut { key, value }),
        1 => (0u8..KEYS).prop_map(|key| Op::LocalProvide { key }),
    ]
}

pub fn run(ctx: &mut Ctx) {
    ctx.assume("inbound requests are injected as the handler's events (AddProvider built through the THandlerOutEvent alias, PutRecord with the cfg(libp2p_verif) RequestId constructor) into the real Behaviour<MemoryStore>::on_connection_handler_event; store limits are the defaults and never reached");
    ctx.assume("sender == local id (a connection to oneself) cannot be produced by the swarm; it is generated rarely because the statement's 'and is not the local node' clause is otherwise unreachable, and the expected result is 'not stored'");
    ctx.check(
        "history",
        "histories of 1..25 ops: inbound ADD_PROVIDER {key, sender in 7 remote peers (rarely the local id), provider in {sender, local, another peer}, 0..2 addresses}, inbound PUT_VALUE {publisher None/sender/local/other}, local put / local provide; Unfiltered and FilterBoth; store and InboundRequest events compared before/after every inbound request; non-trivial = an accepted and a rejected ADD_PROVIDER and a local-publisher PUT_VALUE on an existing local record",
        ctx.n(30_000, 800_000),
        &|| {
            (any::<bool>(), proptest::option::of(1u32..100_000), proptest::option::of(1u32..100_000), proptest::collection::vec(op(), 1..25))
                .prop_map(|(filter, provider_ttl_s, record_ttl_s, ops)| Case { filter, provider_ttl_s, record_ttl_s, ops })
                .boxed()
        },
        &check,
    );
}
