//! C37 — k-bucket routing table keeps its structural invariants (reference model + model-free
//! invariants after every operation, virtual clock).
use crate::tablegen::*;
use proptest::prelude::*;
use serde::{Deserialize, Serialize};
use vcore::runner::LANES;
use vcore::{Ctx, Outcome};

fn check(s: &Setup) -> Outcome {
    let mut w = World::new(s);
    for (i, op) in s.ops.iter().enumerate() {
        if let Err(o) = w.step(op, i) {
            return o;
        }
    }
    if let Err(o) = w.drain_applied(s.ops.len()) {
        return o;
    }
    let st = &w.stats;
    let mut labels = vec![];
    for (f, l) in [
        (st.pending_created > 0, "pending-created"),
        (st.pending_applied_evict > 0, "pending-applied-evicting"),
        (st.pending_applied_room > 0, "pending-applied-into-free-slot"),
        (st.pending_dropped > 0, "pending-dropped-or-removed"),
        (st.pending_cancelled_by_update > 0, "pending-cancelled-by-reconnect"),
        (st.full > 0, "insert-full"),
        (st.local_ops > 0, "local-key-op"),
        (st.max_fill >= 3, "bucket-fill>=3"),
        (st.pending_status_changed > 0, "pending-status-changed-while-waiting"),
        (st.disc_pending_applied_mixed > 0, "disconnected-pending-applied-to-mixed-full-bucket"),
        (st.conn_pending_applied_mixed > 0, "connected-pending-applied-to-mixed-full-bucket"),
        (st.removed_while_pending > 0, "entry-removed-while-pending-waits"),
        (st.refilled_while_pending > 0, "slot-refilled-while-pending-waits"),
        (st.ready_pending_dropped > 0, "ready-pending-dropped(bucket-full-of-connected)"),
        (st.ready_pending_dropped_after_refill > 0, "ready-pending-dropped-after-removal+refill"),
    ] {
        if f {
            labels.push(l);
        }
    }
    let resolved = st.pending_applied_evict + st.pending_applied_room + st.pending_dropped > 0;
    Outcome::pass_l(st.pending_created > 0 && resolved, labels)
}

/// sweep alphabet: three keys of bucket 3 (pool 3,4,5) and one key of bucket 0
const ALPHA: usize = 13;
fn sweep_op(sym: usize, timeout_ms: u32) -> Op {
    match sym {
        0 => Op::Insert { k: 3, conn: false },
        1 => Op::Insert { k: 4, conn: false },
        2 => Op::Insert { k: 4, conn: true },
        3 => Op::Insert { k: 5, conn: true },
        4 => Op::Update { k: 3, conn: true },
        5 => Op::Update { k: 3, conn: false },
        6 => Op::Update { k: 5, conn: false },
        7 => Op::Remove { k: 3 },
        8 => Op::Advance { ms: timeout_ms },
        9 => Op::Advance { ms: timeout_ms - 1 },
        10 => Op::Look { k: 5 },
        11 => Op::IterAll,
        _ => Op::Insert { k: 0, conn: true },
    }
}

#[derive(Clone, Debug, Serialize, Deserialize)]
pub struct SweepCase {
    bucket_size: u8,
    syms: Vec<u8>,
}

fn sweep_check(c: &SweepCase) -> Outcome {
    let timeout_ms = 1000;
    let s = Setup { local: 0, bucket_size: c.bucket_size, timeout_ms, ops: c.syms.iter().map(|x| sweep_op(*x as usize, timeout_ms)).collect() };
    check(&s)
}

/// states with a waiting pending entry from which the second sweep starts
fn pending_prefix(which: usize) -> (u8, Vec<u8>) {
    match which {
        // bucket_size 1: [3:D] + pending 4:C
        0 => (1, vec![0, 2]),
        // bucket_size 2: [3:D, 4:C] + pending 5:C   (disconnected and connected entries)
        1 => (2, vec![0, 2, 3]),
        // bucket_size 2: [3:D, 4:D] + pending 5:C
        _ => (2, vec![0, 1, 3]),
    }
}
const PREFIXES: usize = 3;

pub fn run(ctx: &mut Ctx) {
    ctx.assume("the real KBucketsTable<KeyBytes,u32> is driven through the cfg(libp2p_verif) shim verif::Table (Entry API, iter, bucket, take_applied_pending, read-only snapshot) and the kbucket module reads libp2p_core::verif_clock under the cfg");
    ctx.assume("reference model = the algorithm documented in kbucket/bucket.rs (ordered list per bucket with per-node status, one pending slot with a deadline, lazy application on access)");
    let len = ctx.tier.sel(5usize, 7usize);
    let total = ALPHA.pow(len as u32) * 2;
    ctx.sweep(
        "exhaustive",
        &format!("every sequence of exactly {len} ops (all prefixes are checked on the way) over a 13-op alphabet (3 keys of one bucket + the single bucket-0 key: insert conn/disc, update, remove, look, iter, advance by timeout and timeout-1ms) for bucket_size 1 and 2; non-trivial = a pending entry was created and later applied, dropped or removed"),
        true,
        &|lane| {
            (0..total).skip(lane).step_by(LANES).map(move |i| {
                let bucket_size = 1 + (i % 2) as u8;
                let mut x = i / 2;
                let mut syms = Vec::with_capacity(len);
                for _ in 0..len {
                    syms.push((x % ALPHA) as u8);
                    x /= ALPHA;
                }
                SweepCase { bucket_size, syms }
            })
        },
        &sweep_check,
    );
    let tail = ctx.tier.sel(4usize, 5usize);
    let per = ALPHA.pow(tail as u32);
    ctx.sweep(
        "exhaustive-from-pending",
        &format!("from each of 3 states with a waiting pending entry (bucket_size 1: one disconnected entry; bucket_size 2: a disconnected and a connected entry; bucket_size 2: two disconnected entries; the pending entry is connected) every sequence of exactly {tail} further ops over the same 13-op alphabet (status change of the pending entry, removal of the head, refills, reconnects, timeout and timeout-1ms, look/iter); non-trivial as above"),
        true,
        &|lane| {
            (0..PREFIXES * per).skip(lane).step_by(LANES).map(move |i| {
                let (bucket_size, mut syms) = pending_prefix(i / per);
                let mut x = i % per;
                for _ in 0..tail {
                    syms.push((x % ALPHA) as u8);
                    x /= ALPHA;
                }
                SweepCase { bucket_size, syms }
            })
        },
        &sweep_check,
    );
    let max_ops = ctx.tier.sel(60usize, 120usize);
    ctx.check(
        "random",
        "local key in {0, all-ones, a SHA-256 image, 0x5a..01}; pool of 24 keys at chosen distances (1 in bucket 0, 2 in bucket 1, 8 in bucket 3, 5 in bucket 130, 8 in bucket 255) + the local key; bucket_size 1..4; pending_timeout 1..10 s; up to 60/120 ops insert/update/remove/look/iter/advance/advance-to-timeout±1ms/take_applied plus relative ops resolved against the current table (update/remove the waiting pending entry, update/remove the head of its bucket, insert a fresh key into its bucket); after every op the raw table is compared with the model and the model-free invariants are evaluated; non-trivial = a pending entry was created and later applied, dropped or removed",
        ctx.n(100_000, 2_500_000),
        &|| setup_strategy(max_ops).boxed(),
        &check,
    );
}
