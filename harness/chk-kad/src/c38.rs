//! C38 — closest-key enumeration yields every stored key exactly once, in non-decreasing XOR
//! distance to the target. Tables are built by C37's op sequences (full buckets, pending entries
//! that become ready while the enumeration runs).
use crate::tablegen::*;
use crate::util::*;
use libp2p_core::verif_clock;
use libp2p_kad::verif::{NodeStatus, Table};
use std::num::NonZeroUsize;
use proptest::prelude::*;
use serde::{Deserialize, Serialize};
use serde_json::json;
use std::time::Duration;
use vcore::{ensure, Ctx, Outcome};

#[derive(Clone, Debug, Serialize, Deserialize)]
pub enum Target {
    Local,
    /// a pool key (stored or not)
    Pool(u8),
    /// a pool key with one bit flipped
    Flip { k: u8, bit: u8 },
    /// local key xor pattern
    Rel(Pat),
}

#[derive(Clone, Debug, Serialize, Deserialize)]
pub struct Case {
    setup: Setup,
    /// (target, virtual time to let pass before the query in ms)
    queries: Vec<(Target, u32)>,
}

fn check(case: &Case) -> Outcome {
    let mut w = World::new(&case.setup);
    for (i, op) in case.setup.ops.iter().enumerate() {
        w.apply_sut_only(op, i);
    }
    let mut labels: Vec<&'static str> = vec![];
    let mut nontrivial = false;
    for (qi, (target, adv)) in case.queries.iter().enumerate() {
        verif_clock::advance(Duration::from_millis(*adv as u64));
        let tb: B32 = match target {
            Target::Local => w.local,
            Target::Pool(k) => xor(&w.local, &pool_dist(*k % POOL)),
            Target::Flip { k, bit } => xor(&xor(&w.local, &pool_dist(*k % POOL)), &pow2(*bit as u32)),
            Target::Rel(p) => xor(&w.local, &p.value()),
        };
        let tkey = raw_key(&tb);
        let before = w.table.snapshot();
        let got = w.table.closest_keys(&tkey);
        let after = w.table.snapshot();
        // the EntryView flavour of the same iterator
        let views = w.table.closest(&tkey);
        let after2 = w.table.snapshot();
        let stored: Vec<B32> = after.iter().flat_map(|b| b.nodes.iter().map(|n| n.key.verif_bytes())).collect();
        let got_b: Vec<B32> = got.iter().map(|k| k.verif_bytes()).collect();
        let show = |v: &[B32]| v.iter().map(|k| w.key_id(&raw_key(k)).map(|i| json!(i)).unwrap_or(json!(hex(k)))).collect::<Vec<_>>();
        let detail = || json!({"query": qi, "target_xor_local": hex(&xor(&tb, &w.local)), "yielded": show(&got_b), "stored": show(&stored)});
        for (i, k) in got_b.iter().enumerate() {
            ensure!(!got_b[..i].contains(k), "C38:key-yielded-twice", detail());
            ensure!(stored.contains(k), "C38:yielded-key-not-stored", detail());
        }
        for k in &stored {
            ensure!(got_b.contains(k), "C38:stored-key-missing", detail());
        }
        for p in got_b.windows(2) {
            ensure!(xor(&p[0], &tb) <= xor(&p[1], &tb), "C38:not-sorted-by-distance", detail());
        }
        ensure!(after2 == after, "C38:second-enumeration-changed-table", detail());
        let view_keys: Vec<B32> = views.iter().map(|v| v.key.verif_bytes()).collect();
        ensure!(view_keys == got_b, "C38:closest-and-closest_keys-disagree", json!({"keys": show(&got_b), "views": show(&view_keys)}));
        for v in &views {
            let ok = after.iter().any(|b| b.nodes.iter().any(|n| n == v));
            ensure!(ok, "C38:closest-view-differs-from-stored-entry", detail());
        }
        // distribution
        let buckets = after.iter().filter(|b| !b.nodes.is_empty()).count();
        if stored.len() >= 3 && buckets >= 2 {
            nontrivial = true;
        }
        let d = xor(&tb, &w.local);
        let mut l = vec![];
        if d == [0u8; 32] {
            l.push("target==local");
        } else if bit(&d, 0) {
            l.push("target-distance-bit0-set");
        }
        if stored.contains(&tb) {
            l.push("target-is-stored-key");
        }
        if after.iter().any(|b| b.index == 0 && !b.nodes.is_empty()) {
            l.push("bucket0-occupied");
        }
        if before != after {
            l.push("pending-applied-during-enumeration");
        }
        if after.iter().any(|b| b.pending.is_some()) {
            l.push("pending-present");
        }
        if stored.len() >= 8 {
            l.push("stored>=8");
        }
        for x in l {
            if !labels.contains(&x) {
                labels.push(x);
            }
        }
    }
    Outcome::pass_l(nontrivial, labels)
}

// ---------------------------------------------------------------------------------------------
// large buckets: bucket sizes on both sides of the default K_VALUE (20), many keys per bucket

#[derive(Clone, Debug, Serialize, Deserialize)]
pub struct BigCase {
    local: u8,
    /// configured bucket size; 20 is the crate's default (and the inline capacity of the
    /// enumeration buffer)
    bucket_size: u8,
    /// keys to insert: (bucket selector, seed of the bits below the bucket's top bit, connected)
    keys: Vec<(u8, u16, bool)>,
    queries: Vec<Target>,
}

const BIG_BUCKETS: [u32; 6] = [255, 254, 253, 200, 9, 6];

fn big_dist(sel: u8, seed: u16) -> B32 {
    let b = BIG_BUCKETS[sel as usize % BIG_BUCKETS.len()];
    let low = Pat::Hashed(seed.to_be_bytes().to_vec()).value();
    let m = pow2m1(b);
    let mut d = pow2(b);
    for i in 0..32 {
        d[i] |= low[i] & m[i];
    }
    d
}

fn big_check(c: &BigCase) -> Outcome {
    verif_clock::set(Duration::ZERO);
    let local = local_bytes(c.local);
    let cap = c.bucket_size.max(1) as usize;
    let mut table = Table::new(raw_key(&local), NonZeroUsize::new(cap).unwrap(), Duration::from_secs(60));
    let mut inserted: Vec<B32> = vec![];
    for (i, (sel, seed, conn)) in c.keys.iter().enumerate() {
        let kb = xor(&local, &big_dist(*sel, *seed));
        let _ = table.insert(&raw_key(&kb), i as u32, if *conn { NodeStatus::Connected } else { NodeStatus::Disconnected });
        inserted.push(kb);
    }
    let mut labels: Vec<&'static str> = vec![];
    let mut nontrivial = false;
    for (qi, target) in c.queries.iter().enumerate() {
        let tb: B32 = match target {
            Target::Local => local,
            Target::Pool(k) => inserted.get(*k as usize % inserted.len().max(1)).cloned().unwrap_or(local),
            Target::Flip { k, bit } => xor(&inserted.get(*k as usize % inserted.len().max(1)).cloned().unwrap_or(local), &pow2(*bit as u32)),
            Target::Rel(p) => xor(&local, &p.value()),
        };
        let tkey = raw_key(&tb);
        let got = table.closest_keys(&tkey);
        let after = table.snapshot();
        let views = table.closest(&tkey);
        let stored: Vec<B32> = after.iter().flat_map(|b| b.nodes.iter().map(|n| n.key.verif_bytes())).collect();
        let got_b: Vec<B32> = got.iter().map(|k| k.verif_bytes()).collect();
        let fill: Vec<(usize, usize)> = after.iter().map(|b| (b.index, b.nodes.len())).collect();
        let detail = || json!({"query": qi, "bucket_size": cap, "bucket_fill": fill, "target_xor_local": hex(&xor(&tb, &local)), "yielded": got_b.len(), "stored": stored.len(),
            "missing_xor_local": stored.iter().filter(|k| !got_b.contains(k)).take(4).map(|k| hex(&xor(k, &local))).collect::<Vec<_>>()});
        for (i, k) in got_b.iter().enumerate() {
            ensure!(!got_b[..i].contains(k), "C38:key-yielded-twice", detail());
            ensure!(stored.contains(k), "C38:yielded-key-not-stored", detail());
        }
        for k in &stored {
            ensure!(got_b.contains(k), "C38:stored-key-missing", detail());
        }
        for p in got_b.windows(2) {
            ensure!(xor(&p[0], &tb) <= xor(&p[1], &tb), "C38:not-sorted-by-distance", detail());
        }
        let view_keys: Vec<B32> = views.iter().map(|v| v.key.verif_bytes()).collect();
        ensure!(view_keys == got_b, "C38:closest-and-closest_keys-disagree", detail());
        let max_fill = fill.iter().map(|f| f.1).max().unwrap_or(0);
        let mut l = vec![];
        if cap > 20 {
            l.push("bucket_size>20");
        } else if cap == 20 {
            l.push("bucket_size==20");
        } else {
            l.push("bucket_size<20");
        }
        if max_fill > 20 {
            l.push("a-bucket-holds>20");
            nontrivial = true;
        } else if max_fill >= 8 {
            l.push("a-bucket-holds>=8");
        }
        if max_fill == cap {
            l.push("a-bucket-is-full");
        }
        if stored.len() >= 40 {
            l.push("stored>=40");
        }
        if stored.contains(&tb) {
            l.push("target-is-stored-key");
        }
        for x in l {
            if !labels.contains(&x) {
                labels.push(x);
            }
        }
    }
    Outcome::pass_l(nontrivial, labels)
}

fn target() -> impl Strategy<Value = Target> {
    prop_oneof![
        2 => Just(Target::Local),
        4 => (0u8..POOL).prop_map(Target::Pool),
        2 => (0u8..POOL, any::<u8>()).prop_map(|(k, bit)| Target::Flip { k, bit }),
        1 => (0u8..POOL, 0u8..5).prop_map(|(k, bit)| Target::Flip { k, bit }),
        3 => pat().prop_map(Target::Rel),
    ]
}

pub fn run(ctx: &mut Ctx) {
    ctx.assume("tables are the real KBucketsTable<KeyBytes,u32> behind verif::Table, built by C37 op sequences without oracle; the expected key set is the read-only snapshot taken right after the enumeration (pending entries are applied lazily while it runs)");
    let max_ops = ctx.tier.sel(50usize, 100usize);
    ctx.check(
        "random",
        "C37 table setups (bucket_size 1..4, 24-key pool over buckets 0,1,3,130,255, up to 50/100 ops incl. clock advances) followed by 1..4 queries with target in {local key, pool key, pool key with one bit flipped, local xor edge/random pattern} after letting 0..12 s pass; closest_keys and closest are compared with the stored set and ordered with byte-wise XOR; non-trivial = >=3 stored keys in >=2 buckets",
        ctx.n(100_000, 2_500_000),
        &|| (setup_strategy(max_ops), proptest::collection::vec((target(), prop_oneof![3 => Just(0u32), 1 => 0u32..12_000]), 1..5)).prop_map(|(setup, queries)| Case { setup, queries }).boxed(),
        &check,
    );
    ctx.check(
        "large-buckets",
        "bucket_size 1..48 (below, at and above the default of 20), 0..90 connected/disconnected keys spread over buckets 255/254/253/200/9/6 with a bias to the top buckets so that single buckets hold up to 48 entries, 1..3 queries with target in {local key, stored key, stored key with one bit flipped, local xor pattern}; same oracle (every stored key exactly once, non-decreasing byte-wise XOR distance, closest == closest_keys); non-trivial = some bucket holds more than 20 entries",
        ctx.n(12_000, 300_000),
        &|| {
            let key = (prop_oneof![5 => Just(0u8), 2 => Just(1u8), 1 => 2u8..6], any::<u16>(), any::<bool>());
            (0u8..4, prop_oneof![2 => 1u8..20, 1 => Just(20u8), 4 => 21u8..=48], proptest::collection::vec(key, 0..90), proptest::collection::vec(target(), 1..4))
                .prop_map(|(local, bucket_size, keys, queries)| BigCase { local, bucket_size, keys, queries })
                .boxed()
        },
        &big_check,
    );
}
