//! C38 — closest-key enumeration yields every stored key exactly once, in non-decreasing XOR
//! distance to the target. Tables are built by C37's op sequences (full buckets, pending entries
//! that become ready while the enumeration runs).
use crate::tablegen::*;
use crate::util::*;
use libp2p_core::verif_clock;
use proptest::prelude::*;
use serde::{Deserialize, Serialize};
use serde_json::json;
use std::time::Duration;
use vcore::{ensure, Ctx, Outcome};

#[derive(Clone, Debug, Serialize, Deserialize)]
pub enum Target {
    Local,
    /// a pool key (stored or not)
    Pool(u8),
    /// a pool key with one bit flipped
    Flip { k: u8, bit: u8 },
    /// local key xor pattern
    Rel(Pat),
}

#[derive(Clone, Debug, Serialize, Deserialize)]
pub struct Case {
    setup: Setup,
    /// (target, virtual time to let pass before the query in ms)
    queries: Vec<(Target, u32)>,
}

fn check(case: &Case) -> Outcome {
    let mut w = World::new(&case.setup);
    for (i, op) in case.setup.ops.iter().enumerate() {
        w.apply_sut_only(op, i);
    }
    let mut labels: Vec<&'static str> = vec![];
    let mut nontrivial = false;
    for (qi, (target, adv)) in case.queries.iter().enumerate() {
        verif_clock::advance(Duration::from_millis(*adv as u64));
        let tb: B32 = match target {
            Target::Local => w.local,
            Target::Pool(k) => xor(&w.local, &pool_dist(*k % POOL)),
            Target::Flip { k, bit } => xor(&xor(&w.local, &pool_dist(*k % POOL)), &pow2(*bit as u32)),
            Target::Rel(p) => xor(&w.local, &p.value()),
        };
        let tkey = raw_key(&tb);
        let before = w.table.snapshot();
        let got = w.table.closest_keys(&tkey);
        let after = w.table.snapshot();
        // the EntryView flavour of the same iterator
        let views = w.table.closest(&tkey);
        let after2 = w.table.snapshot();
        let stored: Vec<B32> = after.iter().flat_map(|b| b.nodes.iter().map(|n| n.key.verif_bytes())).collect();
        let got_b: Vec<B32> = got.iter().map(|k| k.verif_bytes()).collect();
        let show = |v: &[B32]| v.iter().map(|k| w.key_id(&raw_key(k)).map(|i| json!(i)).unwrap_or(json!(hex(k)))).collect::<Vec<_>>();
        let detail = || json!({"query": qi, "target_xor_local": hex(&xor(&tb, &w.local)), "yielded": show(&got_b), "stored": show(&stored)});
        for (i, k) in got_b.iter().enumerate() {
            ensure!(!got_b[..i].contains(k), "C38:key-yielded-twice", detail());
            ensure!(stored.contains(k), "C38:yielded-key-not-stored", detail());
        }
        for k in &stored {
            ensure!(got_b.contains(k), "C38:stored-key-missing", detail());
        }
        for p in got_b.windows(2) {
            ensure!(xor(&p[0], &tb) <= xor(&p[1], &tb), "C38:not-sorted-by-distance", detail());
        }
        ensure!(after2 == after, "C38:second-enumeration-changed-table", detail());
        let view_keys: Vec<B32> = views.iter().map(|v| v.key.verif_bytes()).collect();
        ensure!(view_keys == got_b, "C38:closest-and-closest_keys-disagree", json!({"keys": show(&got_b), "views": show(&view_keys)}));
        for v in &views {
            let ok = after.iter().any(|b| b.nodes.iter().any(|n| n == v));
            ensure!(ok, "C38:closest-view-differs-from-stored-entry", detail());
        }
        // distribution
        let buckets = after.iter().filter(|b| !b.nodes.is_empty()).count();
        if stored.len() >= 3 && buckets >= 2 {
            nontrivial = true;
        }
        let d = xor(&tb, &w.local);
        let mut l = vec![];
        if d == [0u8; 32] {
            l.push("target==local");
        } else if bit(&d, 0) {
            l.push("target-distance-bit0-set");
        }
        if stored.contains(&tb) {
            l.push("target-is-stored-key");
        }
        if after.iter().any(|b| b.index == 0 && !b.nodes.is_empty()) {
            l.push("bucket0-occupied");
        }
        if before != after {
            l.push("pending-applied-during-enumeration");
        }
        if after.iter().any(|b| b.pending.is_some()) {
            l.push("pending-present");
        }
        if stored.len() >= 8 {
            l.push("stored>=8");
        }
        for x in l {
            if !labels.contains(&x) {
                labels.push(x);
            }
        }
    }
    Outcome::pass_l(nontrivial, labels)
}

fn target() -> impl Strategy<Value = Target> {
    prop_oneof![
        2 => Just(Target::Local),
        4 => (0u8..POOL).prop_map(Target::Pool),
        2 => (0u8..POOL, any::<u8>()).prop_map(|(k, bit)| Target::Flip { k, bit }),
        1 => (0u8..POOL, 0u8..5).prop_map(|(k, bit)| Target::Flip { k, bit }),
        3 => pat().prop_map(Target::Rel),
    ]
}

pub fn run(ctx: &mut Ctx) {
    ctx.assume("tables are the real KBucketsTable<KeyBytes,u32> behind verif::Table, built by C37 op sequences without oracle; the expected key set is the read-only snapshot taken right after the enumeration (pending entries are applied lazily while it runs)");
    let max_ops = ctx.tier.sel(50usize, 100usize);
    ctx.check(
        "random",
        "C37 table setups (bucket_size 1..4, 24-key pool over buckets 0,1,3,130,255, up to 50/100 ops incl. clock advances) followed by 1..4 queries with target in {local key, pool key, pool key with one bit flipped, local xor edge/random pattern} after letting 0..12 s pass; closest_keys and closest are compared with the stored set and ordered with byte-wise XOR; non-trivial = >=3 stored keys in >=2 buckets",
        ctx.n(100_000, 2_500_000),
        &|| (setup_strategy(max_ops), proptest::collection::vec((target(), prop_oneof![3 => Just(0u32), 1 => 0u32..12_000]), 1..5)).prop_map(|(setup, queries)| Case { setup, queries }).boxed(),
        &check,
    );
}
