//! C42 — record lifetimes are never extended when a record is received, and a record with an
//! expiry is never sent as one that does not expire.
use crate::behave::*;
use libp2p_kad::store::RecordStore;
use libp2p_kad::verif::{record_ttl_on_wire, req_from_bytes, req_to_bytes, resp_from_bytes, resp_to_bytes, KadRequestMsg, KadResponseMsg, RequestId};
use libp2p_kad::{InboundRequest, Record, RecordKey};
use libp2p_swarm::{ConnectionId, NetworkBehaviour};
use proptest::prelude::*;
use serde::{Deserialize, Serialize};
use serde_json::json;
use std::time::{Duration, Instant};
use vcore::{ensure, Ctx, Outcome};

#[derive(Clone, Debug, Serialize, Deserialize)]
pub struct Inbound {
    /// locally configured record TTL in seconds (None = records do not expire locally)
    record_ttl_s: Option<u32>,
    /// locally configured *provider* record TTL in seconds: an independent setting that must not
    /// influence the lifetime of a value record
    #[serde(default)]
    provider_ttl_s: Option<u32>,
    /// remaining lifetime given by the sending peer, in milliseconds
    given_ms: Option<u64>,
    filter: bool,
    replication_factor: u8,
    /// number of peers put into the routing table first (moves num_beyond_k)
    table_peers: u8,
    key: u8,
    /// publisher: None, Some(0) = the sender, Some(n) = another remote peer
    publisher: Option<u8>,
    /// a record already stored under the key: None, or Some(lifetime in s / None = forever)
    existing: Option<Option<u32>>,
}

fn inbound(c: &Inbound) -> Outcome {
    let cfg = Cfg { record_ttl: c.record_ttl_s.map(|s| Duration::from_secs(s as u64)), provider_ttl: c.provider_ttl_s.map(|s| Duration::from_secs(s as u64)), filter: c.filter, replication_factor: c.replication_factor as usize };
    let mut b = behaviour(&cfg);
    for i in 0..c.table_peers {
        let p = vcore::gen::synthetic_peer(1000 + i as u64);
        let _ = b.add_address(&p, "/ip4/1.2.3.4/tcp/1".parse().unwrap());
    }
    let key = RecordKey::new(&[b'r', c.key]);
    if let Some(life) = c.existing {
        let old = Record { key: key.clone(), value: b"old".to_vec(), publisher: None, expires: life.map(|s| Instant::now() + Duration::from_secs(s as u64)) };
        b.store_mut().put(old).expect("default limits");
    }
    let _ = drain(&mut b);
    let sender = vcore::gen::peer(1);
    let publisher = c.publisher.map(|p| if p == 0 { sender } else { vcore::gen::peer(2 + (p as usize % 5)) });
    let t0 = Instant::now();
    let given = c.given_ms.map(|ms| t0 + Duration::from_millis(ms));
    let rec = Record { key: key.clone(), value: b"new".to_vec(), publisher, expires: given };
    b.on_connection_handler_event(sender, ConnectionId::new_unchecked(1), HandlerOut::PutRecord { record: rec, request_id: RequestId::verif_new(7) });
    let t1 = Instant::now();
    let reqs = inbound_requests(drain(&mut b));
    // the record as stored (Unfiltered) or as handed to the application for storing (FilterBoth)
    let stored: Option<Record> = if c.filter {
        reqs.iter().find_map(|r| match r {
            InboundRequest::PutRecord { record: Some(r), .. } => Some(r.clone()),
            _ => None,
        })
    } else {
        b.store_mut().get(&key).map(|r| r.into_owned()).filter(|r| r.value == b"new")
    };
    let ttl = cfg.record_ttl;
    let mut labels = vec![];
    labels.push(match (given.is_some(), ttl.is_some()) {
        (true, true) => "given+ttl",
        (true, false) => "given-only",
        (false, true) => "ttl-only",
        (false, false) => "neither",
    });
    if c.given_ms.is_some_and(|ms| ms < 1000) {
        labels.push("given<1s");
    }
    labels.push(match (c.record_ttl_s, c.provider_ttl_s) {
        (a, b) if a == b => "provider_ttl==record_ttl",
        (Some(_), None) => "provider_ttl:none,record_ttl:some",
        (None, Some(_)) => "provider_ttl:some,record_ttl:none",
        (Some(a), Some(b)) if b > a => "provider_ttl>record_ttl",
        _ => "provider_ttl<record_ttl",
    });
    let Some(stored) = stored else {
        labels.push("not-stored(expired-on-arrival)");
        // not storing is always within the statement; but it must not happen when nothing limits the lifetime
        ensure!(given.is_some() || ttl.is_some(), "C42:record-without-any-limit-not-stored", json!({"case": format!("{c:?}")}));
        return Outcome::pass_l(false, labels);
    };
    labels.push("stored");
    let detail = |what: &str| {
        json!({"what": what, "given_ms": c.given_ms, "record_ttl_s": c.record_ttl_s, "provider_ttl_s": c.provider_ttl_s, "filter": c.filter,
            "stored_expires_in_ms_after_t1": stored.expires.map(|e| e.saturating_duration_since(t1).as_millis() as u64)})
    };
    match stored.expires {
        None => {
            ensure!(given.is_none(), "C42:peer-expiry-dropped", detail("the peer gave an expiry but the record was stored without one"));
            ensure!(ttl.is_none(), "C42:local-ttl-ignored", detail("a record TTL is configured but the record was stored without expiry"));
        }
        Some(s) => {
            if let Some(g) = given {
                ensure!(s <= g, "C42:expires-later-than-peer-expiry", detail("stored expiry is later than the expiry given by the peer"));
            }
            if let Some(t) = ttl {
                ensure!(s <= t1 + t, "C42:expires-later-than-local-ttl", detail("stored expiry is later than now + record_ttl"));
            }
            if given.is_none() && ttl.is_none() {
                labels.push("expiry-invented");
            }
        }
    }
    let one_none = given.is_some() != ttl.is_some();
    Outcome::pass_l(one_none || c.given_ms.is_some_and(|ms| ms < 1000), labels)
}

#[derive(Clone, Debug, Serialize, Deserialize)]
pub struct Outbound {
    /// remaining lifetime in ms relative to "now" (negative = already expired); None = no expiry
    remaining_ms: Option<i64>,
    publisher: bool,
    value_len: u8,
}

fn outbound(c: &Outbound) -> Outcome {
    let now = Instant::now();
    let expires = match c.remaining_ms {
        None => None,
        Some(ms) if ms >= 0 => Some(now + Duration::from_millis(ms as u64)),
        Some(ms) => match now.checked_sub(Duration::from_millis(ms.unsigned_abs())) {
            Some(t) => Some(t),
            None => return Outcome::Discard,
        },
    };
    let rec = Record { key: RecordKey::new(b"k"), value: vec![1; c.value_len as usize], publisher: c.publisher.then(|| vcore::gen::peer(3)), expires };
    let detail = |ttl: Option<u32>| json!({"remaining_ms": c.remaining_ms, "wire_ttl": ttl});
    // (1) the ttl field written by the real record_to_proto
    let ttl = record_ttl_on_wire(rec.clone());
    ensure!((ttl == 0) == expires.is_none(), if expires.is_some() { "C42:expiring-record-sent-with-ttl-0" } else { "C42:non-expiring-record-sent-with-ttl" }, detail(Some(ttl)));
    // (2) what the receiving peer decodes from the real wire bytes (PUT_VALUE request and GET_VALUE response)
    let bytes = req_to_bytes(KadRequestMsg::PutValue { record: rec.clone() }, 1 << 20).expect("encode");
    match req_from_bytes(&bytes, 1 << 20) {
        Ok((Some(KadRequestMsg::PutValue { record: back }), 0)) => {
            ensure!(back.expires.is_some() == expires.is_some(), if expires.is_some() { "C42:expiring-record-received-as-non-expiring" } else { "C42:non-expiring-record-received-as-expiring" }, detail(None));
        }
        other => return Outcome::fail("C42:put-value-did-not-decode", json!({"got": format!("{other:?}")})),
    }
    let bytes = resp_to_bytes(KadResponseMsg::GetValue { record: Some(rec.clone()), closer_peers: vec![] }, 1 << 20).expect("encode");
    match resp_from_bytes(&bytes, 1 << 20) {
        Ok((Some(KadResponseMsg::GetValue { record: Some(back), .. }), 0)) => {
            ensure!(back.expires.is_some() == expires.is_some(), if expires.is_some() { "C42:expiring-record-received-as-non-expiring" } else { "C42:non-expiring-record-received-as-expiring" }, detail(None));
        }
        other => return Outcome::fail("C42:get-value-did-not-decode", json!({"got": format!("{other:?}")})),
    }
    let label = match c.remaining_ms {
        None => "no-expiry",
        Some(ms) if ms <= 0 => "already-expired",
        Some(ms) if ms < 1000 => "sub-second",
        Some(ms) if ms < 2000 => "1..2s",
        Some(_) => ">=2s",
    };
    Outcome::pass_l(matches!(c.remaining_ms, Some(ms) if ms < 2000), vec![label])
}

pub fn run(ctx: &mut Ctx) {
    ctx.assume("inbound: the real Behaviour<MemoryStore>::on_connection_handler_event(PutRecord) is called directly (RequestId built with the cfg(libp2p_verif) constructor); the stored record is read from the store (Unfiltered) or from the InboundRequest::PutRecord event (FilterBoth); 'now + record_ttl' is bracketed with an Instant taken right after the call");
    ctx.assume("outbound: ttl read through the shim around the real record_to_proto and through the real codec (verif::{req,resp}_{to,from}_bytes)");
    ctx.check(
        "inbound",
        "record_ttl in {None, 1 s..36 h}, provider_record_ttl drawn independently from the same set (the two settings differ in most cases), peer expiry in {None, 1 ms..48 h (biased to <2 s)}, Unfiltered/FilterBoth, replication factor 1..3 with 0..8 routing-table peers (num_beyond_k varies), publisher None/sender/other, optional existing record; non-trivial = exactly one of the two limits is unset, or the given lifetime is below one second",
        ctx.n(60_000, 1_500_000),
        &|| {
            let ttl = || prop_oneof![2 => Just(None), 1 => (1u32..10).prop_map(Some), 2 => (1u32..=36 * 3600).prop_map(Some)];
            let given = prop_oneof![2 => Just(None), 2 => (1u64..2000).prop_map(Some), 2 => (1u64..=48 * 3600 * 1000).prop_map(Some), 1 => (1000u64..100_000).prop_map(Some)];
            (ttl(), ttl(), given, any::<bool>(), 1u8..=3, 0u8..=8, 0u8..3, proptest::option::of(0u8..3), proptest::option::weighted(0.3, proptest::option::of(1u32..100_000)))
                .prop_map(|(record_ttl_s, provider_ttl_s, given_ms, filter, replication_factor, table_peers, key, publisher, existing)| Inbound { record_ttl_s, provider_ttl_s, given_ms, filter, replication_factor, table_peers, key, publisher, existing })
                .boxed()
        },
        &inbound,
    );
    ctx.check(
        "outbound",
        "records with remaining lifetime None, already expired, 0, 1 ms..999 ms, 1 s, 1.5 s, up to 48 h; the wire ttl and the record decoded by the receiving side are compared with the sender's expiry; non-trivial = remaining lifetime below two seconds (incl. expired)",
        ctx.n(200_000, 4_000_000),
        &|| {
            let rem = prop_oneof![
                1 => Just(None),
                1 => Just(Some(0i64)),
                1 => (-5000i64..0).prop_map(Some),
                4 => (1i64..1000).prop_map(Some),
                1 => Just(Some(999i64)),
                1 => Just(Some(1000i64)),
                1 => Just(Some(1500i64)),
                2 => (1000i64..3000).prop_map(Some),
                2 => (3000i64..=48 * 3600 * 1000).prop_map(Some),
            ];
            (rem, any::<bool>(), 0u8..20).prop_map(|(remaining_ms, publisher, value_len)| Outbound { remaining_ms, publisher, value_len }).boxed()
        },
        &outbound,
    );
}
