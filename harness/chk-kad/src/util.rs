//! Shared helpers for the Kademlia checks: independent 256-bit arithmetic on big-endian byte
//! arrays (the reference side never uses the crate's `U256`/`Distance` arithmetic) and key patterns.
use libp2p_kad::verif::KeyBytes;
use libp2p_kad::{KBucketDistance, U256};
use proptest::prelude::*;
use serde::{Deserialize, Serialize};

pub type B32 = [u8; 32];

pub fn xor(a: &B32, b: &B32) -> B32 {
    let mut o = [0u8; 32];
    for i in 0..32 {
        o[i] = a[i] ^ b[i];
    }
    o
}

/// position of the highest set bit (0 = least significant), None for zero
pub fn high_bit(x: &B32) -> Option<u32> {
    for (i, b) in x.iter().enumerate() {
        if *b != 0 {
            let byte_pos = 31 - i as u32;
            return Some(byte_pos * 8 + (7 - b.leading_zeros()));
        }
    }
    None
}

pub fn bit(x: &B32, i: u32) -> bool {
    let byte = 31 - (i / 8) as usize;
    (x[byte] >> (i % 8)) & 1 == 1
}

/// a + b as 33 big-endian bytes
pub fn add33(a: &B32, b: &B32) -> [u8; 33] {
    let mut o = [0u8; 33];
    let mut carry = 0u16;
    for i in (0..32).rev() {
        let s = a[i] as u16 + b[i] as u16 + carry;
        o[i + 1] = (s & 0xff) as u8;
        carry = s >> 8;
    }
    o[0] = carry as u8;
    o
}

pub fn widen(a: &B32) -> [u8; 33] {
    let mut o = [0u8; 33];
    o[1..].copy_from_slice(a);
    o
}

pub fn pow2(k: u32) -> B32 {
    let mut o = [0u8; 32];
    if k < 256 {
        o[31 - (k / 8) as usize] = 1 << (k % 8);
    }
    o
}

/// 2^k - 1 for k in 0..=256
pub fn pow2m1(k: u32) -> B32 {
    let mut o = [0u8; 32];
    for i in 0..k.min(256) {
        o[31 - (i / 8) as usize] |= 1 << (i % 8);
    }
    o
}

pub fn dist_bytes(d: &KBucketDistance) -> B32 {
    d.0.to_big_endian()
}

pub fn dist_from(b: &B32) -> KBucketDistance {
    KBucketDistance(U256::from_big_endian(b))
}

pub fn raw_key(b: &B32) -> KeyBytes {
    KeyBytes::verif_from_bytes(*b)
}

pub fn hex(b: &B32) -> String {
    let mut s = String::with_capacity(64);
    // strip leading zero bytes for readability
    let first = b.iter().position(|x| *x != 0).unwrap_or(31);
    if first > 0 {
        s.push_str(&format!("0*{}:", first));
    }
    for x in &b[first..] {
        s.push_str(&format!("{x:02x}"));
    }
    s
}

/// A 256-bit value pattern (serialisable, shrinks towards `Zero`).
#[derive(Clone, Debug, PartialEq, Eq, Serialize, Deserialize)]
pub enum Pat {
    Zero,
    One,
    /// 2^k
    Pow2(u8),
    /// 2^k - 1, k = n+1 (n = 255 → all ones)
    Pow2m1(u8),
    /// 2^k + 1 style: 2^k with bit 0 set
    Pow2p1(u8),
    /// random bytes masked to the low `bits`+1 bits
    Low(u8, B32),
    Rand(B32),
    /// SHA-256 image of the bytes, obtained through the public `KBucketKey::new(..).hashed_bytes()`
    Hashed(Vec<u8>),
}

impl Pat {
    pub fn value(&self) -> B32 {
        match self {
            Pat::Zero => [0u8; 32],
            Pat::One => pow2(0),
            Pat::Pow2(k) => pow2(*k as u32),
            Pat::Pow2m1(n) => pow2m1(*n as u32 + 1),
            Pat::Pow2p1(k) => {
                let mut v = pow2(*k as u32);
                v[31] |= 1;
                v
            }
            Pat::Low(bits, r) => {
                let m = pow2m1(*bits as u32 + 1);
                let mut o = [0u8; 32];
                for i in 0..32 {
                    o[i] = r[i] & m[i];
                }
                o
            }
            Pat::Rand(r) => *r,
            Pat::Hashed(pre) => {
                let k = libp2p_kad::KBucketKey::new(pre.clone());
                let mut o = [0u8; 32];
                o.copy_from_slice(k.hashed_bytes());
                o
            }
        }
    }
    pub fn label(&self) -> &'static str {
        match self {
            Pat::Zero => "pat:zero",
            Pat::One => "pat:one",
            Pat::Pow2(_) => "pat:2^k",
            Pat::Pow2m1(255) => "pat:all-ones",
            Pat::Pow2m1(_) => "pat:2^k-1",
            Pat::Pow2p1(_) => "pat:2^k+1",
            Pat::Low(..) => "pat:low-bits",
            Pat::Rand(_) => "pat:random",
            Pat::Hashed(_) => "pat:hashed",
        }
    }
}

pub fn pat() -> impl Strategy<Value = Pat> {
    prop_oneof![
        1 => Just(Pat::Zero),
        1 => Just(Pat::One),
        3 => any::<u8>().prop_map(Pat::Pow2),
        3 => any::<u8>().prop_map(Pat::Pow2m1),
        1 => Just(Pat::Pow2m1(255)),
        2 => any::<u8>().prop_map(Pat::Pow2p1),
        3 => (any::<u8>(), any::<B32>()).prop_map(|(b, r)| Pat::Low(b, r)),
        3 => any::<B32>().prop_map(Pat::Rand),
        2 => proptest::collection::vec(any::<u8>(), 0..6).prop_map(Pat::Hashed),
    ]
}
