//! Checks for the Kademlia properties (C37-C44).
//! The library part is shared with the libFuzzer targets in /verif/fuzz.

pub mod behave;
pub mod c37;
pub mod c38;
pub mod c39;
pub mod c40;
pub mod c41;
pub mod c42;
pub mod c43;
pub mod c44;
pub mod fuzzapi;
pub mod tablegen;
pub mod util;
