//! C44 — Kademlia messages round-trip through the real wire codec (uvarint length prefix +
//! protobuf + conversion), and arbitrary bytes decode to an error / None, never a panic.
use libp2p_identity::PeerId;
use libp2p_kad::verif::{req_from_bytes, req_to_bytes, resp_from_bytes, resp_to_bytes, KadRequestMsg, KadResponseMsg};
use libp2p_kad::{ConnectionType, KadPeer, Record, RecordKey};
use multiaddr::{Multiaddr, Protocol};
use proptest::prelude::*;
use serde::{Deserialize, Serialize};
use serde_json::json;
use std::time::{Duration, Instant};
use vcore::gen::{apply_mutations, build_addr, comp_seq, dial_addr, mutation, Comp, Mutation};
use vcore::runner::catch;
use vcore::{ensure, Ctx, Outcome};

const MAX_PACKET: usize = 16 * 1024;

#[derive(Clone, Debug, Serialize, Deserialize)]
pub struct PeerSpec {
    /// < 8: key-pool peer, otherwise synthetic
    pub peer: u16,
    /// addresses without the trailing /p2p (the harness appends the normal-form suffix)
    pub addrs: Vec<Vec<Comp>>,
    pub conn: u8,
}

#[derive(Clone, Debug, Serialize, Deserialize)]
pub struct RecSpec {
    pub key: Vec<u8>,
    pub value: Vec<u8>,
    pub publisher: Option<u16>,
    /// whole seconds of remaining lifetime
    pub ttl_secs: Option<u32>,
}

#[derive(Clone, Debug, Serialize, Deserialize)]
pub enum Msg {
    ReqPing,
    ReqFindNode { key: Vec<u8> },
    ReqGetProviders { key: Vec<u8> },
    ReqAddProvider { key: Vec<u8>, provider: PeerSpec },
    ReqGetValue { key: Vec<u8> },
    ReqPutValue { record: RecSpec },
    RespPong,
    RespFindNode { closer: Vec<PeerSpec> },
    RespGetProviders { closer: Vec<PeerSpec>, providers: Vec<PeerSpec> },
    RespGetValue { record: Option<RecSpec>, closer: Vec<PeerSpec> },
    RespPutValue { key: Vec<u8>, value: Vec<u8> },
}

fn pid(i: u16) -> PeerId {
    if i < 8 {
        vcore::gen::peer(i as usize)
    } else {
        vcore::gen::synthetic_peer(i as u64)
    }
}

fn conn(c: u8) -> ConnectionType {
    match c % 4 {
        0 => ConnectionType::NotConnected,
        1 => ConnectionType::Connected,
        2 => ConnectionType::CanConnect,
        _ => ConnectionType::CannotConnect,
    }
}

/// normal form: strip a trailing /p2p component of the generated address, append /p2p/<id>
fn normal_addr(comps: &[Comp], id: PeerId) -> Multiaddr {
    let mut c = comps.to_vec();
    while matches!(c.last(), Some(Comp::P2p(_))) {
        c.pop();
    }
    let mut a = build_addr(&c);
    a.push(Protocol::P2p(id));
    a
}

fn kad_peer(p: &PeerSpec) -> KadPeer {
    let id = pid(p.peer);
    KadPeer { node_id: id, multiaddrs: p.addrs.iter().map(|a| normal_addr(a, id)).collect(), connection_ty: conn(p.conn) }
}

fn record(r: &RecSpec, t0: Instant) -> Record {
    Record { key: RecordKey::from(r.key.clone()), value: r.value.clone(), publisher: r.publisher.map(pid), expires: r.ttl_secs.map(|s| t0 + Duration::from_secs(s as u64)) }
}

enum Built {
    Req(KadRequestMsg),
    Resp(KadResponseMsg),
}

fn build(m: &Msg, t0: Instant) -> Built {
    let k = |v: &Vec<u8>| RecordKey::from(v.clone());
    match m {
        Msg::ReqPing => Built::Req(KadRequestMsg::Ping),
        Msg::ReqFindNode { key } => Built::Req(KadRequestMsg::FindNode { key: key.clone() }),
        Msg::ReqGetProviders { key } => Built::Req(KadRequestMsg::GetProviders { key: k(key) }),
        Msg::ReqAddProvider { key, provider } => Built::Req(KadRequestMsg::AddProvider { key: k(key), provider: kad_peer(provider) }),
        Msg::ReqGetValue { key } => Built::Req(KadRequestMsg::GetValue { key: k(key) }),
        Msg::ReqPutValue { record: r } => Built::Req(KadRequestMsg::PutValue { record: record(r, t0) }),
        Msg::RespPong => Built::Resp(KadResponseMsg::Pong),
        Msg::RespFindNode { closer } => Built::Resp(KadResponseMsg::FindNode { closer_peers: closer.iter().map(kad_peer).collect() }),
        Msg::RespGetProviders { closer, providers } => Built::Resp(KadResponseMsg::GetProviders { closer_peers: closer.iter().map(kad_peer).collect(), provider_peers: providers.iter().map(kad_peer).collect() }),
        Msg::RespGetValue { record: r, closer } => Built::Resp(KadResponseMsg::GetValue { record: r.as_ref().map(|r| record(r, t0)), closer_peers: closer.iter().map(kad_peer).collect() }),
        Msg::RespPutValue { key, value } => Built::Resp(KadResponseMsg::PutValue { key: k(key), value: value.clone() }),
    }
}

fn kind(m: &Msg) -> &'static str {
    match m {
        Msg::ReqPing => "req:ping",
        Msg::ReqFindNode { .. } => "req:find-node",
        Msg::ReqGetProviders { .. } => "req:get-providers",
        Msg::ReqAddProvider { .. } => "req:add-provider",
        Msg::ReqGetValue { .. } => "req:get-value",
        Msg::ReqPutValue { .. } => "req:put-value",
        Msg::RespPong => "resp:pong",
        Msg::RespFindNode { .. } => "resp:find-node",
        Msg::RespGetProviders { .. } => "resp:get-providers",
        Msg::RespGetValue { .. } => "resp:get-value",
        Msg::RespPutValue { .. } => "resp:put-value",
    }
}

/// expiry comparison: `None` must stay `None`; `Some` may lose < 1 s to the whole-second wire
/// format plus the real time that passed between construction and decoding (bracketed)
fn expiry_ok(orig: Option<Instant>, back: Option<Instant>, elapsed: Duration) -> Result<(), &'static str> {
    match (orig, back) {
        (None, None) => Ok(()),
        (Some(_), None) => Err("C44:record-expiry-lost"),
        (None, Some(_)) => Err("C44:record-expiry-invented"),
        (Some(o), Some(b)) => {
            if b > o + elapsed {
                Err("C44:record-expiry-extended")
            } else if b + Duration::from_secs(1) + elapsed < o {
                Err("C44:record-expiry-shortened-by-more-than-a-second")
            } else {
                Ok(())
            }
        }
    }
}

fn strip_req(m: &mut KadRequestMsg) -> Option<Option<Instant>> {
    if let KadRequestMsg::PutValue { record } = m {
        return Some(record.expires.take());
    }
    None
}
fn strip_resp(m: &mut KadResponseMsg) -> Option<Option<Instant>> {
    if let KadResponseMsg::GetValue { record: Some(record), .. } = m {
        return Some(record.expires.take());
    }
    None
}

fn roundtrip(m: &Msg) -> Outcome {
    let t0 = Instant::now();
    let mut labels = vec![kind(m)];
    match build(m, t0) {
        Built::Req(orig) => {
            let bytes = match catch(|| req_to_bytes(orig.clone(), MAX_PACKET)) {
                Ok(Ok(b)) => b,
                Ok(Err(e)) => return Outcome::fail("C44:encode-error", json!({"err": e.to_string(), "msg": format!("{orig:?}")})),
                Err(p) => return Outcome::fail("C44:encode-panic", json!({"panic": p})),
            };
            if bytes.len() > MAX_PACKET {
                return Outcome::Discard;
            }
            let back = match catch(|| req_from_bytes(&bytes, MAX_PACKET)) {
                Ok(Ok((Some(b), 0))) => b,
                Ok(other) => return Outcome::fail("C44:decode-of-encoded-failed", json!({"got": format!("{other:?}"), "msg": format!("{orig:?}"), "len": bytes.len()})),
                Err(p) => return Outcome::fail("C44:decode-panic", json!({"panic": p, "msg": format!("{orig:?}")})),
            };
            let elapsed = t0.elapsed();
            let (mut a, mut b) = (orig.clone(), back.clone());
            let (ea, eb) = (strip_req(&mut a), strip_req(&mut b));
            ensure!(a == b, "C44:request-roundtrip-differs", json!({"sent": format!("{orig:?}"), "got": format!("{back:?}")}));
            if let (Some(ea), Some(eb)) = (ea, eb) {
                if let Err(sig) = expiry_ok(ea, eb, elapsed) {
                    return Outcome::fail(sig, json!({"sent": format!("{orig:?}"), "got": format!("{back:?}")}));
                }
            }
            // a request must not parse as if it carried response-only semantics: the response decoder
            // must at least not panic on it
            if let Err(p) = catch(|| resp_from_bytes(&bytes, MAX_PACKET)) {
                return Outcome::fail("C44:decode-panic", json!({"panic": p}));
            }
        }
        Built::Resp(orig) => {
            let bytes = match catch(|| resp_to_bytes(orig.clone(), MAX_PACKET)) {
                Ok(Ok(b)) => b,
                Ok(Err(e)) => return Outcome::fail("C44:encode-error", json!({"err": e.to_string(), "msg": format!("{orig:?}")})),
                Err(p) => return Outcome::fail("C44:encode-panic", json!({"panic": p})),
            };
            if bytes.len() > MAX_PACKET {
                return Outcome::Discard;
            }
            let back = match catch(|| resp_from_bytes(&bytes, MAX_PACKET)) {
                Ok(Ok((Some(b), 0))) => b,
                Ok(other) => return Outcome::fail("C44:decode-of-encoded-failed", json!({"got": format!("{other:?}"), "msg": format!("{orig:?}"), "len": bytes.len()})),
                Err(p) => return Outcome::fail("C44:decode-panic", json!({"panic": p, "msg": format!("{orig:?}")})),
            };
            let elapsed = t0.elapsed();
            let (mut a, mut b) = (orig.clone(), back.clone());
            let (ea, eb) = (strip_resp(&mut a), strip_resp(&mut b));
            ensure!(a == b, "C44:response-roundtrip-differs", json!({"sent": format!("{orig:?}"), "got": format!("{back:?}")}));
            if let (Some(ea), Some(eb)) = (ea, eb) {
                if let Err(sig) = expiry_ok(ea, eb, elapsed) {
                    return Outcome::fail(sig, json!({"sent": format!("{orig:?}"), "got": format!("{back:?}")}));
                }
            }
            if let Err(p) = catch(|| req_from_bytes(&bytes, MAX_PACKET)) {
                return Outcome::fail("C44:decode-panic", json!({"panic": p}));
            }
        }
    }
    let (has_peers, has_record, has_ttl) = match m {
        Msg::ReqAddProvider { provider, .. } => (!provider.addrs.is_empty(), false, false),
        Msg::ReqPutValue { record } => (false, true, record.ttl_secs.is_some()),
        Msg::RespFindNode { closer } => (!closer.is_empty(), false, false),
        Msg::RespGetProviders { closer, providers } => (!closer.is_empty() || !providers.is_empty(), false, false),
        Msg::RespGetValue { record, closer } => (!closer.is_empty(), record.is_some(), record.as_ref().is_some_and(|r| r.ttl_secs.is_some())),
        _ => (false, false, false),
    };
    if has_peers {
        labels.push("with-peers");
    }
    if has_record {
        labels.push("with-record");
    }
    if has_ttl {
        labels.push("with-ttl");
    }
    Outcome::pass_l(has_peers || has_record, labels)
}

// ---------------------------------------------------------------------------------------------
// arbitrary / mutated bytes

#[derive(Clone, Debug, Serialize, Deserialize)]
pub enum Raw {
    /// raw bytes fed as they are
    Bytes(Vec<u8>),
    /// payload bytes behind a correct length prefix (so that the protobuf layer is reached)
    Framed(Vec<u8>),
    /// a valid encoding with byte mutations applied to the whole frame
    MutatedFrame { msg: Msg, muts: Vec<Mutation> },
    /// a valid encoding whose payload is mutated and then re-framed with a correct prefix
    MutatedPayload { msg: Msg, muts: Vec<Mutation> },
}

pub fn frame(payload: &[u8]) -> Vec<u8> {
    vcore::refcodec::lp(payload)
}

pub fn encode_any(m: &Msg) -> Vec<u8> {
    match build(m, Instant::now()) {
        Built::Req(r) => req_to_bytes(r, MAX_PACKET).unwrap_or_default(),
        Built::Resp(r) => resp_to_bytes(r, MAX_PACKET).unwrap_or_default(),
    }
}

fn raw_check(r: &Raw) -> Outcome {
    let (bytes, label) = match r {
        Raw::Bytes(b) => (b.clone(), "raw"),
        Raw::Framed(p) => (frame(p), "framed-payload"),
        Raw::MutatedFrame { msg, muts } => (apply_mutations(&encode_any(msg), muts), "mutated-frame"),
        Raw::MutatedPayload { msg, muts } => {
            let enc = encode_any(msg);
            // strip the prefix with the reference uvarint reader
            let payload = match vcore::refcodec::read_uvarint(&enc) {
                Some((_, used)) => enc[used..].to_vec(),
                None => enc.clone(),
            };
            (frame(&apply_mutations(&payload, muts)), "mutated-payload")
        }
    };
    match bytes_oracle(&bytes) {
        Err((sig, detail)) => Outcome::fail(sig, detail),
        Ok((nontrivial, mut labels)) => {
            labels.insert(0, label);
            Outcome::pass_l(nontrivial, labels)
        }
    }
}

/// The arbitrary-bytes oracle (shared with the fuzz target `kad_wire`): both decoders return
/// without panicking, and whatever decodes re-encodes and decodes to the same message.
/// Ok((non-trivial, labels)); non-trivial = the bytes got past the length prefix.
pub fn bytes_oracle(bytes: &[u8]) -> Result<(bool, Vec<&'static str>), (String, serde_json::Value)> {
    let mut labels = vec![];
    let fail = |sig: &str, d: serde_json::Value| -> Result<(bool, Vec<&'static str>), (String, serde_json::Value)> { Err((sig.to_string(), d)) };
    // bracket for the expiry comparison: taken before the first decode
    let t0 = Instant::now();
    let rq = catch(|| req_from_bytes(bytes, MAX_PACKET));
    let rs = catch(|| resp_from_bytes(bytes, MAX_PACKET));
    let rq = match rq {
        Ok(x) => x,
        Err(p) => return fail("C44:request-decoder-panicked-on-arbitrary-bytes", json!({"panic": p, "bytes": bytes})),
    };
    let rs = match rs {
        Ok(x) => x,
        Err(p) => return fail("C44:response-decoder-panicked-on-arbitrary-bytes", json!({"panic": p, "bytes": bytes})),
    };
    // whatever decoded successfully is itself a message: it must survive a second trip unchanged
    let mut decoded_any = false;
    if let Ok((Some(m), _)) = &rq {
        decoded_any = true;
        labels.push("decoded-as-request");
        let again = catch(|| req_to_bytes(m.clone(), usize::MAX).and_then(|b| req_from_bytes(&b, usize::MAX)));
        match again {
            Ok(Ok((Some(m2), 0))) => {
                let (mut a, mut b) = (m.clone(), m2.clone());
                let (ea, eb) = (strip_req(&mut a), strip_req(&mut b));
                if a != b {
                    return fail("C44:decoded-request-not-a-fixed-point", json!({"first": format!("{m:?}"), "second": format!("{m2:?}")}));
                }
                if let (Some(ea), Some(eb)) = (ea, eb) {
                    if let Err(sig) = expiry_ok(ea, eb, t0.elapsed()) {
                        return fail(sig, json!({"first": format!("{m:?}"), "second": format!("{m2:?}")}));
                    }
                }
            }
            Ok(other) => return fail("C44:decoded-request-does-not-reencode", json!({"msg": format!("{m:?}"), "got": format!("{other:?}")})),
            Err(p) => return fail("C44:reencode-panic", json!({"panic": p})),
        }
    }
    if let Ok((Some(m), _)) = &rs {
        decoded_any = true;
        labels.push("decoded-as-response");
        let again = catch(|| resp_to_bytes(m.clone(), usize::MAX).and_then(|b| resp_from_bytes(&b, usize::MAX)));
        match again {
            Ok(Ok((Some(m2), 0))) => {
                let (mut a, mut b) = (m.clone(), m2.clone());
                let (ea, eb) = (strip_resp(&mut a), strip_resp(&mut b));
                if a != b {
                    return fail("C44:decoded-response-not-a-fixed-point", json!({"first": format!("{m:?}"), "second": format!("{m2:?}")}));
                }
                if let (Some(ea), Some(eb)) = (ea, eb) {
                    if let Err(sig) = expiry_ok(ea, eb, t0.elapsed()) {
                        return fail(sig, json!({"first": format!("{m:?}"), "second": format!("{m2:?}")}));
                    }
                }
            }
            Ok(other) => return fail("C44:decoded-response-does-not-reencode", json!({"msg": format!("{m:?}"), "got": format!("{other:?}")})),
            Err(p) => return fail("C44:reencode-panic", json!({"panic": p})),
        }
    }
    if rq.is_err() || rs.is_err() {
        labels.push("decode-error");
    }
    if matches!(rq, Ok((None, _))) {
        labels.push("incomplete-frame");
    }
    // non-trivial: the bytes got past the length prefix (an error from the protobuf/conversion layer or a decoded message)
    Ok((decoded_any || rq.is_err() || rs.is_err(), labels))
}

// ---------------------------------------------------------------------------------------------
// messages sized around the configured packet limit

/// A message whose bulk field (key / record value) is padded, encoded and decoded with a codec whose
/// `max_packet_size` is the message's own payload length plus `delta`.
#[derive(Clone, Debug, Serialize, Deserialize)]
pub struct SizedCase {
    pub msg: Msg,
    /// extra bytes appended to the bulk field of the message (if it has one)
    pub pad: u16,
    /// limit = payload length + delta (saturating at 0)
    pub delta: i8,
}

fn padded(m: &Msg, pad: usize) -> Msg {
    let mut m = m.clone();
    let ext = |v: &mut Vec<u8>| v.extend(std::iter::repeat(0xa5u8).take(pad));
    match &mut m {
        Msg::ReqFindNode { key } | Msg::ReqGetProviders { key } | Msg::ReqGetValue { key } | Msg::ReqAddProvider { key, .. } => ext(key),
        Msg::ReqPutValue { record } => ext(&mut record.value),
        Msg::RespPutValue { value, .. } => ext(value),
        Msg::RespGetValue { record: Some(r), .. } => ext(&mut r.value),
        _ => {}
    }
    m
}

fn sized_check(c: &SizedCase) -> Outcome {
    let m = padded(&c.msg, c.pad as usize);
    let t0 = Instant::now();
    let built = build(&m, t0);
    // payload length as written by the real encoder without any limit, read with the reference varint reader
    let unlimited = match &built {
        Built::Req(r) => catch(|| req_to_bytes(r.clone(), usize::MAX)),
        Built::Resp(r) => catch(|| resp_to_bytes(r.clone(), usize::MAX)),
    };
    let unlimited = match unlimited {
        Ok(Ok(b)) => b,
        Ok(Err(e)) => return Outcome::fail("C44:encode-error", json!({"err": e.to_string(), "limit": "usize::MAX"})),
        Err(p) => return Outcome::fail("C44:encode-panic", json!({"panic": p})),
    };
    let Some((plen, used)) = vcore::refcodec::read_uvarint(&unlimited) else { return Outcome::fail("C44:length-prefix-unreadable", json!({"head": unlimited.iter().take(12).collect::<Vec<_>>()})) };
    ensure!(plen as usize == unlimited.len() - used, "C44:length-prefix-differs-from-payload-length", json!({"prefix": plen, "payload": unlimited.len() - used}));
    let payload = plen as usize;
    let limit = (payload as i64 + c.delta as i64).max(0) as usize;
    let fits = payload <= limit;
    let detail = |what: &str| json!({"what": what, "kind": kind(&m), "payload_len": payload, "prefix_len": used, "max_packet_size": limit});
    // encoder with the limit
    let enc = match &built {
        Built::Req(r) => catch(|| req_to_bytes(r.clone(), limit)),
        Built::Resp(r) => catch(|| resp_to_bytes(r.clone(), limit)),
    };
    let enc = match enc {
        Ok(x) => x,
        Err(p) => return Outcome::fail("C44:encode-panic", json!({"panic": p, "ctx": detail("")})),
    };
    let mut labels = vec![kind(&m)];
    labels.push(match used {
        1 => "prefix:1-byte",
        2 => "prefix:2-bytes",
        _ => "prefix:3+-bytes",
    });
    labels.push(match c.delta {
        0 => "payload==limit",
        1 => "payload==limit-1",
        2 => "payload==limit-2",
        3 => "payload==limit-3",
        -1 => "payload==limit+1",
        d if d > 3 => "payload<limit-3",
        _ => "payload>limit+1",
    });
    if fits {
        // the decoder with this limit accepts the payload, so the message must make the round trip
        let bytes = match enc {
            Ok(b) => b,
            Err(e) => return Outcome::fail("C44:encoder-refuses-message-the-decoder-accepts", json!({"err": e.to_string(), "ctx": detail("payload length <= max_packet_size")})),
        };
        macro_rules! trip {
            ($from:ident, $strip:ident, $orig:expr) => {{
                let back = match catch(|| $from(&bytes, limit)) {
                    Ok(Ok((Some(b), 0))) => b,
                    Ok(other) => return Outcome::fail("C44:decode-of-encoded-failed", json!({"got": format!("{other:?}").chars().take(300).collect::<String>(), "ctx": detail("payload length <= max_packet_size")})),
                    Err(p) => return Outcome::fail("C44:decode-panic", json!({"panic": p, "ctx": detail("")})),
                };
                let elapsed = t0.elapsed();
                let (mut a, mut b) = ($orig.clone(), back);
                let (ea, eb) = ($strip(&mut a), $strip(&mut b));
                ensure!(a == b, "C44:sized-roundtrip-differs", detail("decoded message differs"));
                if let (Some(ea), Some(eb)) = (ea, eb) {
                    if let Err(sig) = expiry_ok(ea, eb, elapsed) {
                        return Outcome::fail(sig, detail("expiry"));
                    }
                }
            }};
        }
        match &built {
            Built::Req(orig) => trip!(req_from_bytes, strip_req, orig),
            Built::Resp(orig) => trip!(resp_from_bytes, strip_resp, orig),
        }
        labels.push("within-limit:roundtrip");
    } else {
        // over the limit: nothing round-trips by design; the sides must fail cleanly
        labels.push(if enc.is_ok() { "over-limit:encoder-emits" } else { "over-limit:encoder-refuses" });
        let dec_err = match &built {
            Built::Req(_) => catch(|| req_from_bytes(&unlimited, limit).map(|_| ())),
            Built::Resp(_) => catch(|| resp_from_bytes(&unlimited, limit).map(|_| ())),
        };
        match dec_err {
            Err(p) => return Outcome::fail("C44:decode-panic", json!({"panic": p, "ctx": detail("over the limit")})),
            Ok(Ok(())) => labels.push("over-limit:decoder-accepts"),
            Ok(Err(_)) => labels.push("over-limit:decoder-rejects"),
        }
    }
    // non-trivial: the payload is within the length of its own prefix of the limit (either side)
    Outcome::pass_l((c.delta as i64).unsigned_abs() as usize <= used, labels)
}

// ---------------------------------------------------------------------------------------------
// structurally valid but abnormal protobuf messages (written with the reference protobuf writer)

#[derive(Clone, Debug, Serialize, Deserialize)]
pub enum PbId {
    Missing,
    /// present with length 0
    Empty,
    Valid(u16),
    Garbage(Vec<u8>),
}

#[derive(Clone, Debug, Serialize, Deserialize)]
pub enum PbAddr {
    /// a parsable multiaddr without /p2p
    Plain(Vec<Comp>),
    /// a parsable multiaddr ending in /p2p/<pool peer>, matching the peer's id or not
    WithP2p(Vec<Comp>, u16),
    Empty,
    Garbage(Vec<u8>),
}

#[derive(Clone, Debug, Serialize, Deserialize)]
pub struct PbPeer {
    pub id: PbId,
    pub addrs: Vec<PbAddr>,
    /// None = field absent; values above 3 are outside the enum
    pub conn: Option<u8>,
}

#[derive(Clone, Debug, Serialize, Deserialize)]
pub struct PbRecord {
    pub key: Option<Vec<u8>>,
    pub value: Option<Vec<u8>>,
    pub time_received: Option<Vec<u8>>,
    pub publisher: PbId,
    pub ttl: Option<u32>,
}

#[derive(Clone, Debug, Serialize, Deserialize)]
pub struct PbMsg {
    /// None = field absent (decodes as 0 = PUT_VALUE); 6.. = outside the enum
    pub ty: Option<u8>,
    pub cluster: Option<i8>,
    pub key: Option<Vec<u8>>,
    /// a record field may occur more than once (protobuf merges)
    pub records: Vec<PbRecord>,
    pub closer: Vec<PbPeer>,
    pub providers: Vec<PbPeer>,
    /// an unknown length-delimited field
    pub unknown: Option<(u8, Vec<u8>)>,
    /// rotation of the top-level field order
    pub rot: u8,
}

fn pb_id(field: u32, id: &PbId) -> Vec<u8> {
    use vcore::refcodec::pb_bytes;
    match id {
        PbId::Missing => vec![],
        PbId::Empty => pb_bytes(field, &[]),
        PbId::Valid(i) => pb_bytes(field, &pid(*i).to_bytes()),
        PbId::Garbage(g) => pb_bytes(field, g),
    }
}

fn pb_peer(p: &PbPeer) -> Vec<u8> {
    use vcore::refcodec::{pb_bytes, pb_varint};
    let mut v = pb_id(1, &p.id);
    for a in &p.addrs {
        let raw = match a {
            PbAddr::Plain(c) => build_addr(c).to_vec(),
            PbAddr::WithP2p(c, i) => {
                let mut a = build_addr(c);
                a.push(Protocol::P2p(pid(*i)));
                a.to_vec()
            }
            PbAddr::Empty => vec![],
            PbAddr::Garbage(g) => g.clone(),
        };
        v.extend(pb_bytes(2, &raw));
    }
    if let Some(c) = p.conn {
        v.extend(pb_varint(3, c as u64));
    }
    v
}

fn pb_record(r: &PbRecord) -> Vec<u8> {
    use vcore::refcodec::{pb_bytes, pb_varint};
    let mut v = vec![];
    if let Some(k) = &r.key {
        v.extend(pb_bytes(1, k));
    }
    if let Some(x) = &r.value {
        v.extend(pb_bytes(2, x));
    }
    if let Some(t) = &r.time_received {
        v.extend(pb_bytes(5, t));
    }
    v.extend(pb_id(666, &r.publisher));
    if let Some(t) = r.ttl {
        v.extend(pb_varint(777, t as u64));
    }
    v
}

pub fn pb_message(m: &PbMsg) -> Vec<u8> {
    use vcore::refcodec::{pb_bytes, pb_varint};
    let mut fields: Vec<Vec<u8>> = vec![];
    if let Some(t) = m.ty {
        fields.push(pb_varint(1, t as u64));
    }
    if let Some(k) = &m.key {
        fields.push(pb_bytes(2, k));
    }
    for r in &m.records {
        fields.push(pb_bytes(3, &pb_record(r)));
    }
    for p in &m.closer {
        fields.push(pb_bytes(8, &pb_peer(p)));
    }
    for p in &m.providers {
        fields.push(pb_bytes(9, &pb_peer(p)));
    }
    if let Some(c) = m.cluster {
        // int32: negative values are sign-extended to 64 bits on the wire
        fields.push(pb_varint(10, c as i64 as u64));
    }
    if let Some((f, b)) = &m.unknown {
        fields.push(pb_bytes(11 + (*f as u32 % 40), b));
    }
    if !fields.is_empty() {
        let r = m.rot as usize % fields.len();
        fields.rotate_left(r);
    }
    fields.concat()
}

fn peer_ok(p: &PbPeer) -> bool {
    matches!(p.id, PbId::Valid(_)) && p.conn.is_none_or(|c| c < 4)
}

fn abnormal_check(m: &PbMsg) -> Outcome {
    let payload = pb_message(m);
    let bytes = frame(&payload);
    let mut labels: Vec<&'static str> = vec![];
    let ty = m.ty.unwrap_or(0);
    labels.push(match (m.ty, ty) {
        (None, _) => "type:absent(=put-value)",
        (_, 0) => "type:put-value",
        (_, 1) => "type:get-value",
        (_, 2) => "type:add-provider",
        (_, 3) => "type:get-providers",
        (_, 4) => "type:find-node",
        (_, 5) => "type:ping",
        _ => "type:out-of-range",
    });
    let mut abnormal = false;
    let mut mark = |f: bool, l: &'static str, labels: &mut Vec<&'static str>| {
        if f {
            abnormal = true;
            labels.push(l);
        }
    };
    mark(ty == 2 && m.providers.is_empty(), "add-provider:no-provider-peers", &mut labels);
    mark(ty == 2 && !m.providers.is_empty() && !m.providers.iter().any(peer_ok), "add-provider:only-unparsable-provider-peers", &mut labels);
    mark(ty == 2 && m.providers.len() > 1, "add-provider:several-provider-peers", &mut labels);
    mark(ty == 0 && m.records.is_empty(), "put-value:no-record", &mut labels);
    mark(m.records.len() > 1, "record-field-repeated", &mut labels);
    mark(m.records.iter().any(|r| r.key.is_none() && r.value.is_none()), "record:key-and-value-absent", &mut labels);
    mark(m.records.iter().any(|r| matches!(r.publisher, PbId::Garbage(_))), "record:garbage-publisher", &mut labels);
    mark(matches!(ty, 1 | 3 | 4) && m.closer.is_empty(), "lookup:no-closer-peers", &mut labels);
    mark(m.key.is_none() && matches!(ty, 1..=4), "key-absent", &mut labels);
    let all_peers = || m.closer.iter().chain(m.providers.iter());
    mark(all_peers().any(|p| matches!(p.id, PbId::Missing | PbId::Empty)), "peer:id-absent-or-empty", &mut labels);
    mark(all_peers().any(|p| matches!(p.id, PbId::Garbage(_))), "peer:garbage-id", &mut labels);
    mark(all_peers().any(|p| p.conn.is_some_and(|c| c > 3)), "peer:connection-out-of-range", &mut labels);
    mark(all_peers().any(|p| p.addrs.iter().any(|a| matches!(a, PbAddr::Garbage(_) | PbAddr::Empty))), "peer:unparsable-address", &mut labels);
    mark(all_peers().any(|p| p.addrs.iter().any(|a| matches!(a, PbAddr::WithP2p(..)))), "peer:address-with-own-p2p", &mut labels);
    mark(m.unknown.is_some(), "unknown-field", &mut labels);
    // the reference writer's output is a well-formed protobuf by construction (checked with the reference parser)
    ensure!(vcore::refcodec::pb_parse(&payload).is_some(), "C44:harness-wrote-malformed-protobuf", json!({"payload": payload}));
    match bytes_oracle(&bytes) {
        Err((sig, detail)) => Outcome::fail(&sig, json!({"structure": format!("{m:?}"), "detail": detail})),
        Ok((_, l)) => {
            labels.extend(l);
            Outcome::pass_l(abnormal && ty < 6, labels)
        }
    }
}

// ---------------------------------------------------------------------------------------------
// strategies

fn key() -> impl Strategy<Value = Vec<u8>> {
    prop_oneof![1 => Just(vec![]), 6 => proptest::collection::vec(any::<u8>(), 1..40)]
}

fn peer_spec() -> impl Strategy<Value = PeerSpec> {
    let addr = prop_oneof![3 => dial_addr(), 1 => comp_seq(4)];
    (prop_oneof![3 => 0u16..8, 1 => 8u16..2000], proptest::collection::vec(addr, 0..4), 0u8..4).prop_map(|(peer, addrs, conn)| PeerSpec { peer, addrs, conn })
}

fn rec_spec() -> impl Strategy<Value = RecSpec> {
    let ttl = prop_oneof![2 => Just(None), 1 => Just(Some(1u32)), 1 => Just(Some(2u32)), 3 => (1u32..200_000).prop_map(Some), 1 => (1u32..=u32::MAX / 2).prop_map(Some)];
    (key(), proptest::collection::vec(any::<u8>(), 0..64), proptest::option::of(0u16..40), ttl).prop_map(|(key, value, publisher, ttl_secs)| RecSpec { key, value, publisher, ttl_secs })
}

fn msg() -> impl Strategy<Value = Msg> {
    let peers = || proptest::collection::vec(peer_spec(), 0..6);
    prop_oneof![
        1 => Just(Msg::ReqPing),
        2 => key().prop_map(|key| Msg::ReqFindNode { key }),
        2 => key().prop_map(|key| Msg::ReqGetProviders { key }),
        4 => (key(), peer_spec()).prop_map(|(key, provider)| Msg::ReqAddProvider { key, provider }),
        2 => key().prop_map(|key| Msg::ReqGetValue { key }),
        5 => rec_spec().prop_map(|record| Msg::ReqPutValue { record }),
        1 => Just(Msg::RespPong),
        4 => peers().prop_map(|closer| Msg::RespFindNode { closer }),
        4 => (peers(), peers()).prop_map(|(closer, providers)| Msg::RespGetProviders { closer, providers }),
        5 => (proptest::option::weighted(0.7, rec_spec()), peers()).prop_map(|(record, closer)| Msg::RespGetValue { record, closer }),
        2 => (key(), proptest::collection::vec(any::<u8>(), 0..64)).prop_map(|(key, value)| Msg::RespPutValue { key, value }),
    ]
}

fn raw() -> impl Strategy<Value = Raw> {
    prop_oneof![
        2 => proptest::collection::vec(any::<u8>(), 0..80).prop_map(Raw::Bytes),
        3 => proptest::collection::vec(any::<u8>(), 0..80).prop_map(Raw::Framed),
        4 => (msg(), proptest::collection::vec(mutation(), 1..4)).prop_map(|(msg, muts)| Raw::MutatedFrame { msg, muts }),
        6 => (msg(), proptest::collection::vec(mutation(), 1..4)).prop_map(|(msg, muts)| Raw::MutatedPayload { msg, muts }),
    ]
}

fn sized_case() -> impl Strategy<Value = SizedCase> {
    // pad: none (1-byte prefix), up to the 1->2 byte prefix boundary (127/128), and around the
    // 2->3 byte boundary / the 16 KiB default limit (16383/16384)
    let pad = prop_oneof![3 => Just(0u16), 3 => 0u16..300, 2 => 16_200u16..16_500, 1 => 0u16..17_000];
    let delta = prop_oneof![12 => -3i8..=3, 1 => -100i8..=100];
    (msg(), pad, delta).prop_map(|(msg, pad, delta)| SizedCase { msg, pad, delta })
}

fn pb_id_strategy() -> impl Strategy<Value = PbId> {
    prop_oneof![2 => Just(PbId::Missing), 1 => Just(PbId::Empty), 6 => prop_oneof![3 => 0u16..8, 1 => 8u16..2000].prop_map(PbId::Valid), 2 => proptest::collection::vec(any::<u8>(), 1..40).prop_map(PbId::Garbage)]
}

fn pb_peer_strategy() -> impl Strategy<Value = PbPeer> {
    let addr = prop_oneof![
        4 => dial_addr().prop_map(PbAddr::Plain),
        2 => (dial_addr(), 0u16..8).prop_map(|(c, i)| PbAddr::WithP2p(c, i)),
        1 => Just(PbAddr::Empty),
        2 => proptest::collection::vec(any::<u8>(), 1..12).prop_map(PbAddr::Garbage),
    ];
    (pb_id_strategy(), proptest::collection::vec(addr, 0..3), proptest::option::weighted(0.7, prop_oneof![6 => 0u8..4, 1 => 4u8..=255])).prop_map(|(id, addrs, conn)| PbPeer { id, addrs, conn })
}

fn pb_msg_strategy() -> impl Strategy<Value = PbMsg> {
    let small = || proptest::collection::vec(any::<u8>(), 0..12);
    let rec = (proptest::option::weighted(0.7, small()), proptest::option::weighted(0.7, small()), proptest::option::weighted(0.2, small()), pb_id_strategy(), proptest::option::weighted(0.6, prop_oneof![Just(0u32), Just(1u32), any::<u32>()]))
        .prop_map(|(key, value, time_received, publisher, ttl)| PbRecord { key, value, time_received, publisher, ttl });
    (
        proptest::option::weighted(0.9, prop_oneof![12 => 0u8..6, 1 => 6u8..=255]),
        proptest::option::weighted(0.5, any::<i8>()),
        proptest::option::weighted(0.6, small()),
        proptest::collection::vec(rec, 0..3),
        proptest::collection::vec(pb_peer_strategy(), 0..3),
        proptest::collection::vec(pb_peer_strategy(), 0..3),
        proptest::option::weighted(0.15, (any::<u8>(), small())),
        prop_oneof![3 => Just(0u8), 1 => any::<u8>()],
    )
        .prop_map(|(ty, cluster, key, records, closer, providers, unknown, rot)| PbMsg { ty, cluster, key, records, closer, providers, unknown, rot })
}

pub fn run(ctx: &mut Ctx) {
    ctx.assume("messages go through the real Codec<A,B> (uvarint prefix + prost + req/resp conversion) via the cfg(libp2p_verif) shims verif::{req,resp}_{to,from}_bytes; max packet size 16 KiB, generated messages stay below it");
    ctx.assume("peer addresses are generated in the decoder's normal form (ending in /p2p/<peer id>); record lifetimes are whole seconds >= 1 and are compared within 1 s plus the measured real time between construction and decoding");
    ctx.check(
        "roundtrip",
        "every request/response kind with generated keys (0..40 bytes), peers (pool + synthetic ids, 0..3 addresses from the shared multiaddr alphabet, all 4 connection types), records (value 0..64 bytes, optional publisher, ttl None/1/2/random/huge) and closer/provider lists of 0..5 peers; non-trivial = carries at least one peer with data or a record; labels count message kinds",
        ctx.n(40_000, 1_500_000),
        &|| msg().boxed(),
        &roundtrip,
    );
    ctx.check(
        "arbitrary-bytes",
        "raw byte strings, payloads behind a correct length prefix, and valid encodings with 1..3 structure-aware byte mutations (whole frame, or payload re-framed); both decoders must return without panicking and whatever they decode must re-encode to the same message; non-trivial = bytes got past the length prefix (decode error or decoded message)",
        ctx.n(60_000, 2_500_000),
        &|| raw().boxed(),
        &raw_check,
    );
    ctx.assume("a message is within a codec's limit when its protobuf payload length (without the unsigned-varint prefix, as documented for prost_codec::Codec::new and enforced by the decoder) is <= max_packet_size; only such messages are required to round-trip, messages over the limit must merely fail without a panic on either side");
    ctx.check(
        "size-limit",
        "every message kind, its bulk field (key / record value) padded by 0, 0..300 or 16200..16500 bytes so that the length prefix takes 1, 2 or 3 bytes; encoder and decoder are built with max_packet_size = payload length + delta, delta in -3..=3 (rarely -100..100): for delta >= 0 the encoder must emit the message and the decoder (same limit) must return it unchanged; for delta < 0 both sides must return without panicking; non-trivial = |delta| <= length of the prefix",
        ctx.n(24_000, 600_000),
        &|| sized_case().boxed(),
        &sized_check,
    );
    ctx.check(
        "abnormal-protobuf",
        "well-formed protobuf Messages written field by field with the reference writer from a structural description: type absent / 0..5 / out of range, key / clusterLevelRaw optional, 0..2 record fields (every sub-field optional, publisher absent/empty/valid/garbage, ttl 0/1/any), 0..2 closerPeers and 0..2 providerPeers (id absent/empty/valid/garbage, 0..2 addresses plain / ending in a /p2p / empty / garbage, connection absent / valid / out of range), an unknown field, rotated field order; framed with a correct prefix and fed to both decoders: no panic, and whatever decodes must re-encode to the same message; non-trivial = a known type and at least one abnormal feature (labels count them)",
        ctx.n(40_000, 1_200_000),
        &|| pb_msg_strategy().boxed(),
        &abnormal_check,
    );
    ctx.fuzz(&crate::fuzzapi::KAD_WIRE, 30_000, 600_000, crate::fuzzapi::KAD_WIRE_RUNS_PER_JOB, crate::fuzzapi::FUZZ_JOBS);
}
