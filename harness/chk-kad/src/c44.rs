//! C44 — Kademlia messages round-trip through the real wire codec (uvarint length prefix +
//! protobuf + conversion), and arbitrary bytes decode to an error / None, never a panic.
use libp2p_identity::PeerId;
use libp2p_kad::verif::{req_from_bytes, req_to_bytes, resp_from_bytes, resp_to_bytes, KadRequestMsg, KadResponseMsg};
use libp2p_kad::{ConnectionType, KadPeer, Record, RecordKey};
use multiaddr::{Multiaddr, Protocol};
use proptest::prelude::*;
use serde::{Deserialize, Serialize};
use serde_json::json;
use std::time::{Duration, Instant};
use vcore::gen::{apply_mutations, build_addr, comp_seq, dial_addr, mutation, Comp, Mutation};
use vcore::runner::catch;
use vcore::{ensure, Ctx, Outcome};

const MAX_PACKET: usize = 16 * 1024;

#[derive(Clone, Debug, Serialize, Deserialize)]
pub struct PeerSpec {
    /// < 8: key-pool peer, otherwise synthetic
    pub peer: u16,
    /// addresses without the trailing /p2p (the harness appends the normal-form suffix)
    pub addrs: Vec<Vec<Comp>>,
    pub conn: u8,
}

#[derive(Clone, Debug, Serialize, Deserialize)]
pub struct RecSpec {
    pub key: Vec<u8>,
    pub value: Vec<u8>,
    pub publisher: Option<u16>,
    /// whole seconds of remaining lifetime
    pub ttl_secs: Option<u32>,
}

#[derive(Clone, Debug, Serialize, Deserialize)]
pub enum Msg {
    ReqPing,
    ReqFindNode { key: Vec<u8> },
    ReqGetProviders { key: Vec<u8> },
    ReqAddProvider { key: Vec<u8>, provider: PeerSpec },
    ReqGetValue { key: Vec<u8> },
    ReqPutValue { record: RecSpec },
    RespPong,
    RespFindNode { closer: Vec<PeerSpec> },
    RespGetProviders { closer: Vec<PeerSpec>, providers: Vec<PeerSpec> },
    RespGetValue { record: Option<RecSpec>, closer: Vec<PeerSpec> },
    RespPutValue { key: Vec<u8>, value: Vec<u8> },
}

fn pid(i: u16) -> PeerId {
    if i < 8 {
        vcore::gen::peer(i as usize)
    } else {
        vcore::gen::synthetic_peer(i as u64)
    }
}

fn conn(c: u8) -> ConnectionType {
    match c % 4 {
        0 => ConnectionType::NotConnected,
        1 => ConnectionType::Connected,
        2 => ConnectionType::CanConnect,
        _ => ConnectionType::CannotConnect,
    }
}

/// normal form: strip a trailing /p2p component of the generated address, append /p2p/<id>
fn normal_addr(comps: &[Comp], id: PeerId) -> Multiaddr {
    let mut c = comps.to_vec();
    while matches!(c.last(), Some(Comp::P2p(_))) {
        c.pop();
    }
    let mut a = build_addr(&c);
    a.push(Protocol::P2p(id));
    a
}

fn kad_peer(p: &PeerSpec) -> KadPeer {
    let id = pid(p.peer);
    KadPeer { node_id: id, multiaddrs: p.addrs.iter().map(|a| normal_addr(a, id)).collect(), connection_ty: conn(p.conn) }
}

fn record(r: &RecSpec, t0: Instant) -> Record {
    Record { key: RecordKey::from(r.key.clone()), value: r.value.clone(), publisher: r.publisher.map(pid), expires: r.ttl_secs.map(|s| t0 + Duration::from_secs(s as u64)) }
}

enum Built {
    Req(KadRequestMsg),
    Resp(KadResponseMsg),
}

fn build(m: &Msg, t0: Instant) -> Built {
    let k = |v: &Vec<u8>| RecordKey::from(v.clone());
    match m {
        Msg::ReqPing => Built::Req(KadRequestMsg::Ping),
        Msg::ReqFindNode { key } => Built::Req(KadRequestMsg::FindNode { key: key.clone() }),
        Msg::ReqGetProviders { key } => Built::Req(KadRequestMsg::GetProviders { key: k(key) }),
        Msg::ReqAddProvider { key, provider } => Built::Req(KadRequestMsg::AddProvider { key: k(key), provider: kad_peer(provider) }),
        Msg::ReqGetValue { key } => Built::Req(KadRequestMsg::GetValue { key: k(key) }),
        Msg::ReqPutValue { record: r } => Built::Req(KadRequestMsg::PutValue { record: record(r, t0) }),
        Msg::RespPong => Built::Resp(KadResponseMsg::Pong),
        Msg::RespFindNode { closer } => Built::Resp(KadResponseMsg::FindNode { closer_peers: closer.iter().map(kad_peer).collect() }),
        Msg::RespGetProviders { closer, providers } => Built::Resp(KadResponseMsg::GetProviders { closer_peers: closer.iter().map(kad_peer).collect(), provider_peers: providers.iter().map(kad_peer).collect() }),
        Msg::RespGetValue { record: r, closer } => Built::Resp(KadResponseMsg::GetValue { record: r.as_ref().map(|r| record(r, t0)), closer_peers: closer.iter().map(kad_peer).collect() }),
        Msg::RespPutValue { key, value } => Built::Resp(KadResponseMsg::PutValue { key: k(key), value: value.clone() }),
    }
}

fn kind(m: &Msg) -> &'static str {
    match m {
        Msg::ReqPing => "req:ping",
        Msg::ReqFindNode { .. } => "req:find-node",
        Msg::ReqGetProviders { .. } => "req:get-providers",
        Msg::ReqAddProvider { .. } => "req:add-provider",
        Msg::ReqGetValue { .. } => "req:get-value",
        Msg::ReqPutValue { .. } => "req:put-value",
        Msg::RespPong => "resp:pong",
        Msg::RespFindNode { .. } => "resp:find-node",
        Msg::RespGetProviders { .. } => "resp:get-providers",
        Msg::RespGetValue { .. } => "resp:get-value",
        Msg::RespPutValue { .. } => "resp:put-value",
    }
}

/// expiry comparison: `None` must stay `None`; `Some` may lose < 1 s to the whole-second wire
/// format plus the real time that passed between construction and decoding (bracketed)
fn expiry_ok(orig: Option<Instant>, back: Option<Instant>, elapsed: Duration) -> Result<(), &'static str> {
    match (orig, back) {
        (None, None) => Ok(()),
        (Some(_), None) => Err("C44:record-expiry-lost"),
        (None, Some(_)) => Err("C44:record-expiry-invented"),
        (Some(o), Some(b)) => {
            if b > o + elapsed {
                Err("C44:record-expiry-extended")
            } else if b + Duration::from_secs(1) + elapsed < o {
                Err("C44:record-expiry-shortened-by-more-than-a-second")
            } else {
                Ok(())
            }
        }
    }
}

fn strip_req(m: &mut KadRequestMsg) -> Option<Option<Instant>> {
    if let KadRequestMsg::PutValue { record } = m {
        return Some(record.expires.take());
    }
    None
}
fn strip_resp(m: &mut KadResponseMsg) -> Option<Option<Instant>> {
    if let KadResponseMsg::GetValue { record: Some(record), .. } = m {
        return Some(record.expires.take());
    }
    None
}

fn roundtrip(m: &Msg) -> Outcome {
    let t0 = Instant::now();
    let mut labels = vec![kind(m)];
    match build(m, t0) {
        Built::Req(orig) => {
            let bytes = match catch(|| req_to_bytes(orig.clone(), MAX_PACKET)) {
                Ok(Ok(b)) => b,
                Ok(Err(e)) => return Outcome::fail("C44:encode-error", json!({"err": e.to_string(), "msg": format!("{orig:?}")})),
                Err(p) => return Outcome::fail("C44:encode-panic", json!({"panic": p})),
            };
            if bytes.len() > MAX_PACKET {
                return Outcome::Discard;
            }
            let back = match catch(|| req_from_bytes(&bytes, MAX_PACKET)) {
                Ok(Ok((Some(b), 0))) => b,
                Ok(other) => return Outcome::fail("C44:decode-of-encoded-failed", json!({"got": format!("{other:?}"), "msg": format!("{orig:?}"), "len": bytes.len()})),
                Err(p) => return Outcome::fail("C44:decode-panic", json!({"panic": p, "msg": format!("{orig:?}")})),
            };
            let elapsed = t0.elapsed();
            let (mut a, mut b) = (orig.clone(), back.clone());
            let (ea, eb) = (strip_req(&mut a), strip_req(&mut b));
            ensure!(a == b, "C44:request-roundtrip-differs", json!({"sent": format!("{orig:?}"), "got": format!("{back:?}")}));
            if let (Some(ea), Some(eb)) = (ea, eb) {
                if let Err(sig) = expiry_ok(ea, eb, elapsed) {
                    return Outcome::fail(sig, json!({"sent": format!("{orig:?}"), "got": format!("{back:?}")}));
                }
            }
            // a request must not parse as if it carried response-only semantics: the response decoder
            // must at least not panic on it
            if let Err(p) = catch(|| resp_from_bytes(&bytes, MAX_PACKET)) {
                return Outcome::fail("C44:decode-panic", json!({"panic": p}));
            }
        }
        Built::Resp(orig) => {
            let bytes = match catch(|| resp_to_bytes(orig.clone(), MAX_PACKET)) {
                Ok(Ok(b)) => b,
                Ok(Err(e)) => return Outcome::fail("C44:encode-error", json!({"err": e.to_string(), "msg": format!("{orig:?}")})),
                Err(p) => return Outcome::fail("C44:encode-panic", json!({"panic": p})),
            };
            if bytes.len() > MAX_PACKET {
                return Outcome::Discard;
            }
            let back = match catch(|| resp_from_bytes(&bytes, MAX_PACKET)) {
                Ok(Ok((Some(b), 0))) => b,
                Ok(other) => return Outcome::fail("C44:decode-of-encoded-failed", json!({"got": format!("{other:?}"), "msg": format!("{orig:?}"), "len": bytes.len()})),
                Err(p) => return Outcome::fail("C44:decode-panic", json!({"panic": p, "msg": format!("{orig:?}")})),
            };
            let elapsed = t0.elapsed();
            let (mut a, mut b) = (orig.clone(), back.clone());
            let (ea, eb) = (strip_resp(&mut a), strip_resp(&mut b));
            ensure!(a == b, "C44:response-roundtrip-differs", json!({"sent": format!("{orig:?}"), "got": format!("{back:?}")}));
            if let (Some(ea), Some(eb)) = (ea, eb) {
                if let Err(sig) = expiry_ok(ea, eb, elapsed) {
                    return Outcome::fail(sig, json!({"sent": format!("{orig:?}"), "got": format!("{back:?}")}));
                }
            }
            if let Err(p) = catch(|| req_from_bytes(&bytes, MAX_PACKET)) {
                return Outcome::fail("C44:decode-panic", json!({"panic": p}));
            }
        }
    }
    let (has_peers, has_record, has_ttl) = match m {
        Msg::ReqAddProvider { provider, .. } => (!provider.addrs.is_empty(), false, false),
        Msg::ReqPutValue { record } => (false, true, record.ttl_secs.is_some()),
        Msg::RespFindNode { closer } => (!closer.is_empty(), false, false),
        Msg::RespGetProviders { closer, providers } => (!closer.is_empty() || !providers.is_empty(), false, false),
        Msg::RespGetValue { record, closer } => (!closer.is_empty(), record.is_some(), record.as_ref().is_some_and(|r| r.ttl_secs.is_some())),
        _ => (false, false, false),
    };
    if has_peers {
        labels.push("with-peers");
    }
    if has_record {
        labels.push("with-record");
    }
    if has_ttl {
        labels.push("with-ttl");
    }
    Outcome::pass_l(has_peers || has_record, labels)
}

// ---------------------------------------------------------------------------------------------
// arbitrary / mutated bytes

#[derive(Clone, Debug, Serialize, Deserialize)]
pub enum Raw {
    /// raw bytes fed as they are
    Bytes(Vec<u8>),
    /// payload bytes behind a correct length prefix (so that the protobuf layer is reached)
    Framed(Vec<u8>),
    /// a valid encoding with byte mutations applied to the whole frame
    MutatedFrame { msg: Msg, muts: Vec<Mutation> },
    /// a valid encoding whose payload is mutated and then re-framed with a correct prefix
    MutatedPayload { msg: Msg, muts: Vec<Mutation> },
}

pub fn frame(payload: &[u8]) -> Vec<u8> {
    vcore::refcodec::lp(payload)
}

pub fn encode_any(m: &Msg) -> Vec<u8> {
    match build(m, Instant::now()) {
        Built::Req(r) => req_to_bytes(r, MAX_PACKET).unwrap_or_default(),
        Built::Resp(r) => resp_to_bytes(r, MAX_PACKET).unwrap_or_default(),
    }
}

fn raw_check(r: &Raw) -> Outcome {
    let (bytes, label) = match r {
        Raw::Bytes(b) => (b.clone(), "raw"),
        Raw::Framed(p) => (frame(p), "framed-payload"),
        Raw::MutatedFrame { msg, muts } => (apply_mutations(&encode_any(msg), muts), "mutated-frame"),
        Raw::MutatedPayload { msg, muts } => {
            let enc = encode_any(msg);
            // strip the prefix with the reference uvarint reader
            let payload = match vcore::refcodec::read_uvarint(&enc) {
                Some((_, used)) => enc[used..].to_vec(),
                None => enc.clone(),
            };
            (frame(&apply_mutations(&payload, muts)), "mutated-payload")
        }
    };
    match bytes_oracle(&bytes) {
        Err((sig, detail)) => Outcome::fail(sig, detail),
        Ok((nontrivial, mut labels)) => {
            labels.insert(0, label);
            Outcome::pass_l(nontrivial, labels)
        }
    }
}

/// The arbitrary-bytes oracle (shared with the fuzz target `kad_wire`): both decoders return
/// without panicking, and whatever decodes re-encodes and decodes to the same message.
/// Ok((non-trivial, labels)); non-trivial = the bytes got past the length prefix.
pub fn bytes_oracle(bytes: &[u8]) -> Result<(bool, Vec<&'static str>), (String, serde_json::Value)> {
    let mut labels = vec![];
    let fail = |sig: &str, d: serde_json::Value| -> Result<(bool, Vec<&'static str>), (String, serde_json::Value)> { Err((sig.to_string(), d)) };
    // bracket for the expiry comparison: taken before the first decode
    let t0 = Instant::now();
    let rq = catch(|| req_from_bytes(bytes, MAX_PACKET));
    let rs = catch(|| resp_from_bytes(bytes, MAX_PACKET));
    let rq = match rq {
        Ok(x) => x,
        Err(p) => return fail("C44:request-decoder-panicked-on-arbitrary-bytes", json!({"panic": p, "bytes": bytes})),
    };
    let rs = match rs {
        Ok(x) => x,
        Err(p) => return fail("C44:response-decoder-panicked-on-arbitrary-bytes", json!({"panic": p, "bytes": bytes})),
    };
    // whatever decoded successfully is itself a message: it must survive a second trip unchanged
    let mut decoded_any = false;
    if let Ok((Some(m), _)) = &rq {
        decoded_any = true;
        labels.push("decoded-as-request");
        let again = catch(|| req_to_bytes(m.clone(), usize::MAX).and_then(|b| req_from_bytes(&b, usize::MAX)));
        match again {
            Ok(Ok((Some(m2), 0))) => {
                let (mut a, mut b) = (m.clone(), m2.clone());
                let (ea, eb) = (strip_req(&mut a), strip_req(&mut b));
                if a != b {
                    return fail("C44:decoded-request-not-a-fixed-point", json!({"first": format!("{m:?}"), "second": format!("{m2:?}")}));
                }
                if let (Some(ea), Some(eb)) = (ea, eb) {
                    if let Err(sig) = expiry_ok(ea, eb, t0.elapsed()) {
                        return fail(sig, json!({"first": format!("{m:?}"), "second": format!("{m2:?}")}));
                    }
                }
            }
            Ok(other) => return fail("C44:decoded-request-does-not-reencode", json!({"msg": format!("{m:?}"), "got": format!("{other:?}")})),
            Err(p) => return fail("C44:reencode-panic", json!({"panic": p})),
        }
    }
    if let Ok((Some(m), _)) = &rs {
        decoded_any = true;
        labels.push("decoded-as-response");
        let again = catch(|| resp_to_bytes(m.clone(), usize::MAX).and_then(|b| resp_from_bytes(&b, usize::MAX)));
        match again {
            Ok(Ok((Some(m2), 0))) => {
                let (mut a, mut b) = (m.clone(), m2.clone());
                let (ea, eb) = (strip_resp(&mut a), strip_resp(&mut b));
                if a != b {
                    return fail("C44:decoded-response-not-a-fixed-point", json!({"first": format!("{m:?}"), "second": format!("{m2:?}")}));
                }
                if let (Some(ea), Some(eb)) = (ea, eb) {
                    if let Err(sig) = expiry_ok(ea, eb, t0.elapsed()) {
                        return fail(sig, json!({"first": format!("{m:?}"), "second": format!("{m2:?}")}));
                    }
                }
            }
            Ok(other) => return fail("C44:decoded-response-does-not-reencode", json!({"msg": format!("{m:?}"), "got": format!("{other:?}")})),
            Err(p) => return fail("C44:reencode-panic", json!({"panic": p})),
        }
    }
    if rq.is_err() || rs.is_err() {
        labels.push("decode-error");
    }
    if matches!(rq, Ok((None, _))) {
        labels.push("incomplete-frame");
    }
    // non-trivial: the bytes got past the length prefix (an error from the protobuf/conversion layer or a decoded message)
    Ok((decoded_any || rq.is_err() || rs.is_err(), labels))
}

// ---------------------------------------------------------------------------------------------
// strategies

fn key() -> impl Strategy<Value = Vec<u8>> {
    prop_oneof![1 => Just(vec![]), 6 => proptest::collection::vec(any::<u8>(), 1..40)]
}

fn peer_spec() -> impl Strategy<Value = PeerSpec> {
    let addr = prop_oneof![3 => dial_addr(), 1 => comp_seq(4)];
    (prop_oneof![3 => 0u16..8, 1 => 8u16..2000], proptest::collection::vec(addr, 0..4), 0u8..4).prop_map(|(peer, addrs, conn)| PeerSpec { peer, addrs, conn })
}

fn rec_spec() -> impl Strategy<Value = RecSpec> {
    let ttl = prop_oneof![2 => Just(None), 1 => Just(Some(1u32)), 1 => Just(Some(2u32)), 3 => (1u32..200_000).prop_map(Some), 1 => (1u32..=u32::MAX / 2).prop_map(Some)];
    (key(), proptest::collection::vec(any::<u8>(), 0..64), proptest::option::of(0u16..40), ttl).prop_map(|(key, value, publisher, ttl_secs)| RecSpec { key, value, publisher, ttl_secs })
}

fn msg() -> impl Strategy<Value = Msg> {
    let peers = || proptest::collection::vec(peer_spec(), 0..6);
    prop_oneof![
        1 => Just(Msg::ReqPing),
        2 => key().prop_map(|key| Msg::ReqFindNode { key }),
        2 => key().prop_map(|key| Msg::ReqGetProviders { key }),
        4 => (key(), peer_spec()).prop_map(|(key, provider)| Msg::ReqAddProvider { key, provider }),
        2 => key().prop_map(|key| Msg::ReqGetValue { key }),
        5 => rec_spec().prop_map(|record| Msg::ReqPutValue { record }),
        1 => Just(Msg::RespPong),
        4 => peers().prop_map(|closer| Msg::RespFindNode { closer }),
        4 => (peers(), peers()).prop_map(|(closer, providers)| Msg::RespGetProviders { closer, providers }),
        5 => (proptest::option::weighted(0.7, rec_spec()), peers()).prop_map(|(record, closer)| Msg::RespGetValue { record, closer }),
        2 => (key(), proptest::collection::vec(any::<u8>(), 0..64)).prop_map(|(key, value)| Msg::RespPutValue { key, value }),
    ]
}

fn raw() -> impl Strategy<Value = Raw> {
    prop_oneof![
        2 => proptest::collection::vec(any::<u8>(), 0..80).prop_map(Raw::Bytes),
        3 => proptest::collection::vec(any::<u8>(), 0..80).prop_map(Raw::Framed),
        4 => (msg(), proptest::collection::vec(mutation(), 1..4)).prop_map(|(msg, muts)| Raw::MutatedFrame { msg, muts }),
        6 => (msg(), proptest::collection::vec(mutation(), 1..4)).prop_map(|(msg, muts)| Raw::MutatedPayload { msg, muts }),
    ]
}

pub fn run(ctx: &mut Ctx) {
    ctx.assume("messages go through the real Codec<A,B> (uvarint prefix + prost + req/resp conversion) via the cfg(libp2p_verif) shims verif::{req,resp}_{to,from}_bytes; max packet size 16 KiB, generated messages stay below it");
    ctx.assume("peer addresses are generated in the decoder's normal form (ending in /p2p/<peer id>); record lifetimes are whole seconds >= 1 and are compared within 1 s plus the measured real time between construction and decoding");
    ctx.check(
        "roundtrip",
        "every request/response kind with generated keys (0..40 bytes), peers (pool + synthetic ids, 0..3 addresses from the shared multiaddr alphabet, all 4 connection types), records (value 0..64 bytes, optional publisher, ttl None/1/2/random/huge) and closer/provider lists of 0..5 peers; non-trivial = carries at least one peer with data or a record; labels count message kinds",
        ctx.n(40_000, 1_500_000),
        &|| msg().boxed(),
        &roundtrip,
    );
    ctx.check(
        "arbitrary-bytes",
        "raw byte strings, payloads behind a correct length prefix, and valid encodings with 1..3 structure-aware byte mutations (whole frame, or payload re-framed); both decoders must return without panicking and whatever they decode must re-encode to the same message; non-trivial = bytes got past the length prefix (decode error or decoded message)",
        ctx.n(60_000, 2_500_000),
        &|| raw().boxed(),
        &raw_check,
    );
    ctx.fuzz(&crate::fuzzapi::KAD_WIRE, 30_000, 600_000, crate::fuzzapi::KAD_WIRE_RUNS_PER_JOB, crate::fuzzapi::FUZZ_JOBS);
}
