//! Entry point of the libFuzzer target `kad_wire` (C44) and its seed corpus writer.
//! Same oracle as the `arbitrary-bytes` sub-check of C44 (`c44::bytes_oracle`).

use crate::c44::{self, Msg, PeerSpec, RecSpec};
pub use vcore::fuzz::fuzz_main;
use vcore::gen::Comp;
use vcore::{FuzzTarget, FuzzVerdict};

pub const FUZZ_JOBS: u32 = 16;
/// measured (ASan build, one core): ~1000 exec/s
pub const KAD_WIRE_RUNS_PER_JOB: u64 = 800_000;

pub const KAD_WIRE: FuzzTarget = FuzzTarget {
    name: "kad_wire",
    entry: kad_wire,
    about: "input = [mode][bytes]: mode even = the bytes are the stream as received (uvarint length prefix ++ protobuf), mode odd = the bytes are a payload that is framed with a correct prefix; oracle = C44 arbitrary-bytes oracle (request decoder and response decoder of the real kad Codec return without panicking; whatever decodes re-encodes and decodes to the same message, record expiry within the whole-second bracket); non-trivial = the bytes got past the length prefix (decoded message or protobuf/conversion error)",
};

/// layout: [mode][bytes...]
pub fn kad_wire(data: &[u8]) -> FuzzVerdict {
    let Some((mode, rest)) = data.split_first() else { return Ok(false) };
    let owned;
    let bytes: &[u8] = if mode & 1 == 0 {
        rest
    } else {
        owned = c44::frame(rest);
        &owned
    };
    c44::bytes_oracle(bytes).map(|(nontrivial, _)| nontrivial)
}

/// Golden seeds: one valid encoding per message kind (with peers / records / ttl), as a whole frame
/// (mode 0) and as a bare payload (mode 1), plus a truncated and an over-long-prefix frame.
pub fn write_seeds(dir: &std::path::Path) -> std::io::Result<usize> {
    let d = dir.join("kad_wire");
    std::fs::create_dir_all(&d)?;
    let peer = |peer: u16, conn: u8, n: usize| PeerSpec {
        peer,
        conn,
        addrs: [vec![Comp::Ip4([10, 0, 0, 7]), Comp::Tcp(4001)], vec![Comp::Dns("example.org".into()), Comp::Udp(443), Comp::QuicV1], vec![Comp::Ip6([0x2001, 0xdb8, 0, 0, 0, 0, 0, 1]), Comp::Tcp(1), Comp::Ws]][..n].to_vec(),
    };
    let rec = |publisher: Option<u16>, ttl_secs: Option<u32>| RecSpec { key: b"record-key".to_vec(), value: b"the value".to_vec(), publisher, ttl_secs };
    let msgs: Vec<(&str, Msg)> = vec![
        ("req-ping", Msg::ReqPing),
        ("req-find-node", Msg::ReqFindNode { key: vec![7; 32] }),
        ("req-get-providers", Msg::ReqGetProviders { key: b"k".to_vec() }),
        ("req-add-provider", Msg::ReqAddProvider { key: b"provided".to_vec(), provider: peer(1, 1, 2) }),
        ("req-get-value", Msg::ReqGetValue { key: vec![] }),
        ("req-put-value", Msg::ReqPutValue { record: rec(Some(2), Some(3600)) }),
        ("req-put-value-nottl", Msg::ReqPutValue { record: rec(None, None) }),
        ("resp-pong", Msg::RespPong),
        ("resp-find-node", Msg::RespFindNode { closer: vec![peer(0, 0, 1), peer(900, 2, 3), peer(3, 3, 0)] }),
        ("resp-get-providers", Msg::RespGetProviders { closer: vec![peer(4, 1, 1)], providers: vec![peer(5, 2, 2)] }),
        ("resp-get-value", Msg::RespGetValue { record: Some(rec(Some(12), Some(1))), closer: vec![peer(6, 0, 1)] }),
        ("resp-get-value-norecord", Msg::RespGetValue { record: None, closer: vec![peer(7, 1, 2)] }),
        ("resp-put-value", Msg::RespPutValue { key: b"kk".to_vec(), value: vec![0xff; 40] }),
    ];
    let mut n = 0;
    let mut put = |name: &str, bytes: Vec<u8>| -> std::io::Result<()> {
        n += 1;
        std::fs::write(d.join(name), bytes)
    };
    for (name, m) in &msgs {
        let enc = c44::encode_any(m);
        let mut v = vec![0u8];
        v.extend(&enc);
        put(&format!("{name}.frame"), v)?;
        let used = vcore::refcodec::read_uvarint(&enc).map(|(_, u)| u).unwrap_or(0);
        let mut v = vec![1u8];
        v.extend(&enc[used..]);
        put(&format!("{name}.payload"), v)?;
    }
    let enc = c44::encode_any(&msgs[8].1);
    let mut v = vec![0u8];
    v.extend(&enc[..enc.len() / 2]);
    put("truncated.frame", v)?;
    put("prefix-over-16k.frame", vec![0, 0x81, 0x80, 0x01, 0x08, 0x00])?;
    put("type-out-of-range.payload", vec![1, 0x08, 0x09])?;
    Ok(n)
}
