//! Shared by C37 and C38: key pool, operation alphabet, and the interpreter that drives the real
//! `KBucketsTable` (through `libp2p_kad::verif::Table`) next to a reference model of the documented
//! bucket algorithm.
use crate::util::*;
use libp2p_core::verif_clock;
use libp2p_kad::verif::{Applied, BucketSnap, EntryKind, Inserted, KeyBytes, NodeStatus, Table};
use proptest::prelude::*;
use serde::{Deserialize, Serialize};
use serde_json::{json, Value};
use std::collections::{BTreeMap, VecDeque};
use std::num::NonZeroUsize;
use std::time::Duration;
use vcore::Outcome;

/// index of the local key in the pool
pub const LOCAL: u8 = 24;
pub const POOL: u8 = 25;

/// distance of pool key `k` from the local key: 1 key in bucket 0, 2 in bucket 1, 8 in bucket 3,
/// 5 in bucket 130, 8 in bucket 255, and the local key itself.
pub fn pool_dist(k: u8) -> B32 {
    let mut d = [0u8; 32];
    match k {
        0 => d[31] = 1,
        1 | 2 => d[31] = 2 + (k - 1),
        3..=10 => d[31] = 8 + (k - 3),
        11..=15 => {
            d = pow2(130);
            d[31] = (k - 11) * 37 + 1;
            d[20] = k;
        }
        16..=22 => {
            d = pow2(255);
            d[31] = (k - 16) * 3; // k=16 → exactly 2^255
            if k != 16 {
                d[5] = k.wrapping_mul(29);
            }
        }
        23 => d = [0xff; 32],
        _ => {}
    }
    d
}

pub fn pool_bucket(k: u8) -> Option<usize> {
    high_bit(&pool_dist(k)).map(|b| b as usize)
}

pub fn local_bytes(sel: u8) -> B32 {
    match sel % 4 {
        0 => [0u8; 32],
        1 => [0xff; 32],
        2 => Pat::Hashed(vec![7]).value(),
        _ => {
            let mut x = [0x5a; 32];
            x[31] = 0x01;
            x
        }
    }
}

#[derive(Clone, Debug, Serialize, Deserialize, PartialEq, Eq)]
pub enum Op {
    Insert { k: u8, conn: bool },
    Update { k: u8, conn: bool },
    Remove { k: u8 },
    /// `entry(key)` only (applies a ready pending entry of that bucket) + `bucket(key)` read
    Look { k: u8 },
    /// `iter()` over all buckets (applies ready pending entries everywhere)
    IterAll,
    /// advance the virtual clock
    Advance { ms: u32 },
    /// advance by exactly the pending timeout plus `delta_ms - 1` (so 0 = one ms short)
    AdvanceNearTimeout { delta_ms: u8 },
    TakeApplied,
    /// Relative ops, resolved against the table's current content when they are executed (so that
    /// histories around a waiting pending entry are frequent): act on the pending entry of the
    /// `sel`-th bucket that has one (falls back to `Look{k: sel}` if there is none)
    OnPending { sel: u8, act: Act },
    /// act on the first (least recently disconnected / connected) entry of that bucket
    OnHead { sel: u8, act: Act },
    /// insert a pool key of that bucket that is neither stored nor pending
    Refill { sel: u8, conn: bool },
}

#[derive(Clone, Copy, Debug, Serialize, Deserialize, PartialEq, Eq)]
pub enum Act {
    Update { conn: bool },
    Remove,
}

#[derive(Clone, Debug, Serialize, Deserialize)]
pub struct Setup {
    pub local: u8,
    pub bucket_size: u8,
    pub timeout_ms: u32,
    pub ops: Vec<Op>,
}

pub fn op_strategy() -> impl Strategy<Value = Op> {
    // keys are biased so that buckets fill up: most ops hit the 8-key buckets
    let key = prop_oneof![6 => 3u8..=10, 4 => 16u8..=23, 2 => 11u8..=15, 2 => 0u8..=2, 1 => Just(LOCAL)];
    prop_oneof![
        8 => (key.clone(), any::<bool>()).prop_map(|(k, conn)| Op::Insert { k, conn }),
        5 => (key.clone(), any::<bool>()).prop_map(|(k, conn)| Op::Update { k, conn }),
        2 => key.clone().prop_map(|k| Op::Remove { k }),
        2 => key.prop_map(|k| Op::Look { k }),
        1 => Just(Op::IterAll),
        2 => (0u32..12_000).prop_map(|ms| Op::Advance { ms }),
        3 => (0u8..3).prop_map(|delta_ms| Op::AdvanceNearTimeout { delta_ms }),
        1 => Just(Op::TakeApplied),
        2 => (any::<u8>(), act()).prop_map(|(sel, act)| Op::OnPending { sel, act }),
        2 => (any::<u8>(), act()).prop_map(|(sel, act)| Op::OnHead { sel, act }),
        2 => (any::<u8>(), prop_oneof![3 => Just(true), 1 => Just(false)]).prop_map(|(sel, conn)| Op::Refill { sel, conn }),
    ]
}

fn act() -> impl Strategy<Value = Act> {
    prop_oneof![2 => any::<bool>().prop_map(|conn| Act::Update { conn }), 1 => Just(Act::Remove)]
}

pub fn setup_strategy(max_ops: usize) -> impl Strategy<Value = Setup> {
    (0u8..4, 1u8..=4, 1000u32..=10_000, proptest::collection::vec(op_strategy(), 1..max_ops))
        .prop_map(|(local, bucket_size, timeout_ms, ops)| Setup { local, bucket_size, timeout_ms, ops })
}

// ---------------------------------------------------------------------------------------------
// reference model

#[derive(Clone, Debug, PartialEq, Eq)]
pub struct MNode {
    pub k: u8,
    pub val: u32,
    pub conn: bool,
}

#[derive(Clone, Debug, Default)]
pub struct MBucket {
    /// disconnected nodes first, each class from least to most recently updated
    pub nodes: Vec<MNode>,
    pub pending: Option<(MNode, Duration)>, // node (conn = status of the pending entry), deadline
}

#[derive(Debug, PartialEq, Eq, Clone)]
pub enum MIns {
    Inserted,
    Full,
    Pending { disconnected: u8 },
}

impl MBucket {
    fn n_disc(&self) -> usize {
        self.nodes.iter().filter(|n| !n.conn).count()
    }
    fn place(&mut self, n: MNode) {
        if n.conn {
            self.nodes.push(n);
        } else {
            let p = self.n_disc();
            self.nodes.insert(p, n);
        }
    }
    fn insert(&mut self, n: MNode, cap: usize, now: Duration, timeout: Duration) -> MIns {
        if self.nodes.len() >= cap {
            if !n.conn {
                return MIns::Full;
            }
            if self.nodes[0].conn || self.pending.is_some() {
                return MIns::Full;
            }
            self.pending = Some((n, now + timeout));
            return MIns::Pending { disconnected: self.nodes[0].k };
        }
        self.place(n);
        MIns::Inserted
    }
    /// returns Some((inserted, evicted)) if the pending node went in
    fn apply_pending(&mut self, cap: usize, now: Duration) -> Option<(MNode, Option<MNode>)> {
        let (p, deadline) = self.pending.clone()?;
        if deadline > now {
            return None;
        }
        self.pending = None;
        if self.nodes.len() >= cap {
            if self.nodes[0].conn {
                return None; // full of connected nodes: pending dropped
            }
            let ev = self.nodes.remove(0);
            self.place(p.clone());
            Some((p, Some(ev)))
        } else {
            self.place(p.clone());
            Some((p, None))
        }
    }
    fn update(&mut self, k: u8, conn: bool) {
        if let Some(pos) = self.nodes.iter().position(|n| n.k == k) {
            let mut n = self.nodes.remove(pos);
            if pos == 0 && conn {
                self.pending = None;
            }
            n.conn = conn;
            self.place(n);
        }
    }
}

pub struct Model {
    pub cap: usize,
    pub timeout: Duration,
    pub buckets: BTreeMap<usize, MBucket>,
    pub applied: VecDeque<(MNode, Option<MNode>)>,
}

impl Model {
    fn touch(&mut self, idx: usize, now: Duration) -> &mut MBucket {
        let cap = self.cap;
        let b = self.buckets.entry(idx).or_default();
        if let Some(a) = b.apply_pending(cap, now) {
            self.applied.push_back(a);
        }
        self.buckets.get_mut(&idx).unwrap()
    }
}

// ---------------------------------------------------------------------------------------------

pub struct World {
    pub table: Table,
    pub model: Model,
    pub local: B32,
    pub keys: Vec<KeyBytes>, // pool index → key
    /// logical time of the last insert/update/application per pool key (model-free LRU check)
    stamp: BTreeMap<u8, u64>,
    /// virtual time at which the pending entry of a bucket was created (model-free timeout check)
    pending_since: BTreeMap<usize, Duration>,
    tick: u64,
    /// buckets in which an entry was removed (and then one inserted) while the current pending entry waits
    freed: std::collections::BTreeSet<usize>,
    refilled: std::collections::BTreeSet<usize>,
    pub stats: Stats,
}

#[derive(Default, Debug, Clone)]
pub struct Stats {
    pub pending_created: u32,
    pub pending_applied_evict: u32,
    pub pending_applied_room: u32,
    pub pending_dropped: u32,
    pub pending_cancelled_by_update: u32,
    pub full: u32,
    pub local_ops: u32,
    pub max_fill: usize,
    /// the status of a pending entry was changed before it was applied / dropped
    pub pending_status_changed: u32,
    /// a *disconnected* pending entry was applied to a full bucket holding disconnected and connected entries
    pub disc_pending_applied_mixed: u32,
    /// a connected pending entry was applied to a full bucket holding disconnected and connected entries
    pub conn_pending_applied_mixed: u32,
    /// a bucket entry was removed while the bucket had a pending entry
    pub removed_while_pending: u32,
    /// ... and an entry was inserted into the freed slot while the pending entry was still waiting
    pub refilled_while_pending: u32,
    /// a ready pending entry was dropped because the bucket was full of connected entries
    pub ready_pending_dropped: u32,
    /// ... after a removal + refill had happened while it was waiting
    pub ready_pending_dropped_after_refill: u32,
}

fn status(conn: bool) -> NodeStatus {
    if conn {
        NodeStatus::Connected
    } else {
        NodeStatus::Disconnected
    }
}
fn is_conn(s: NodeStatus) -> bool {
    s == NodeStatus::Connected
}

pub fn now() -> Duration {
    verif_clock::since_start()
}

impl World {
    pub fn new(s: &Setup) -> World {
        verif_clock::set(Duration::ZERO);
        let local = local_bytes(s.local);
        let keys: Vec<KeyBytes> = (0..POOL).map(|k| raw_key(&xor(&local, &pool_dist(k)))).collect();
        let cap = s.bucket_size.max(1) as usize;
        let timeout = Duration::from_millis(s.timeout_ms as u64);
        World {
            table: Table::new(raw_key(&local), NonZeroUsize::new(cap).unwrap(), timeout),
            model: Model { cap, timeout, buckets: BTreeMap::new(), applied: VecDeque::new() },
            local,
            keys,
            stamp: BTreeMap::new(),
            pending_since: BTreeMap::new(),
            tick: 0,
            freed: Default::default(),
            refilled: Default::default(),
            stats: Stats::default(),
        }
    }

    pub fn key_id(&self, k: &KeyBytes) -> Option<u8> {
        self.keys.iter().position(|x| x == k).map(|i| i as u8)
    }

    fn kid(&self, k: &KeyBytes) -> Value {
        match self.key_id(k) {
            Some(i) => json!(i),
            None => json!(hex(&k.verif_bytes())),
        }
    }

    fn snap_json(&self, s: &[BucketSnap]) -> Value {
        json!(s
            .iter()
            .map(|b| json!({"bucket": b.index,
                "nodes": b.nodes.iter().map(|n| json!([self.kid(&n.key), n.value, is_conn(n.status)])).collect::<Vec<_>>(),
                "pending": b.pending.as_ref().map(|n| json!([self.kid(&n.key), n.value, is_conn(n.status)])), "ready": b.pending_ready}))
            .collect::<Vec<_>>())
    }

    fn model_json(&self) -> Value {
        json!(self
            .model
            .buckets
            .iter()
            .filter(|(_, b)| !b.nodes.is_empty() || b.pending.is_some())
            .map(|(i, b)| json!({"bucket": i, "nodes": b.nodes.iter().map(|n| json!([n.k, n.val, n.conn])).collect::<Vec<_>>(),
                "pending": b.pending.as_ref().map(|(n, d)| json!([n.k, n.val, n.conn, d.as_millis() as u64]))}))
            .collect::<Vec<_>>())
    }

    /// Turns a relative op into the concrete op it stands for in the table's current state
    /// (read-only snapshot: nothing is applied by looking).
    pub fn resolve(&self, op: &Op) -> Op {
        let (sel, what) = match op {
            Op::OnPending { sel, act } => (*sel, (Some(*act), true, false)),
            Op::OnHead { sel, act } => (*sel, (Some(*act), false, false)),
            Op::Refill { sel, conn } => (*sel, (None, false, *conn)),
            other => return other.clone(),
        };
        let snap = self.table.snapshot();
        let with_pending: Vec<&BucketSnap> = snap.iter().filter(|b| b.pending.is_some()).collect();
        if with_pending.is_empty() {
            return Op::Look { k: sel % POOL };
        }
        let b = with_pending[sel as usize % with_pending.len()];
        let target = match what {
            (Some(_), true, _) => b.pending.as_ref().and_then(|p| self.key_id(&p.key)),
            (Some(_), false, _) => b.nodes.first().and_then(|n| self.key_id(&n.key)),
            (None, _, _) => (0..POOL).find(|k| pool_bucket(*k) == Some(b.index) && !b.nodes.iter().chain(b.pending.iter()).any(|n| self.key_id(&n.key) == Some(*k))),
        };
        match (target, what) {
            (Some(k), (Some(Act::Update { conn }), _, _)) => Op::Update { k, conn },
            (Some(k), (Some(Act::Remove), _, _)) => Op::Remove { k },
            (Some(k), (None, _, conn)) => Op::Insert { k, conn },
            (None, _) => Op::Look { k: sel % POOL },
        }
    }

    /// Executes one op on the real table only (used by C38 to build tables quickly).
    pub fn apply_sut_only(&mut self, op: &Op, step: usize) {
        let op = &self.resolve(op);
        match op {
            Op::Insert { k, conn } => {
                let _ = self.table.insert(&self.keys[(*k % POOL) as usize], step as u32, status(*conn));
            }
            Op::Update { k, conn } => {
                let _ = self.table.update(&self.keys[(*k % POOL) as usize], status(*conn));
            }
            Op::Remove { k } => {
                let _ = self.table.remove(&self.keys[(*k % POOL) as usize]);
            }
            Op::Look { k } => {
                let _ = self.table.entry_kind(&self.keys[(*k % POOL) as usize]);
            }
            Op::IterAll => {
                let _ = self.table.iter_buckets();
            }
            Op::Advance { ms } => verif_clock::advance(Duration::from_millis(*ms as u64)),
            Op::AdvanceNearTimeout { delta_ms } => verif_clock::advance((self.model.timeout + Duration::from_millis(*delta_ms as u64)).saturating_sub(Duration::from_millis(1))),
            Op::TakeApplied => {
                let _ = self.table.take_applied_pending();
            }
            Op::OnPending { .. } | Op::OnHead { .. } | Op::Refill { .. } => unreachable!("resolved above"),
        }
    }

    /// Executes one op on table and model, then runs the model comparison and the model-free
    /// invariants. `Err(outcome)` is a violation.
    pub fn step(&mut self, op: &Op, step: usize) -> Result<(), Outcome> {
        let op = &self.resolve(op);
        let before = self.table.snapshot();
        let t = now();
        self.tick += 1;
        let fail = |sig: &str, detail: Value| Err(Outcome::fail(sig, detail));
        let mut removed_key: Option<u8> = None;
        let mut updated_key: Option<u8> = None;
        match op {
            Op::Insert { k, conn } => {
                let k = *k % POOL;
                let key = self.keys[k as usize];
                let got = self.table.insert(&key, step as u32, status(*conn));
                match pool_bucket(k) {
                    None => {
                        self.stats.local_ops += 1;
                        if got != Inserted::NotAbsent(EntryKind::Local) {
                            return fail("C37:local-key-has-entry", json!({"step": step, "got": format!("{got:?}")}));
                        }
                    }
                    Some(idx) => {
                        let (cap, timeout) = (self.model.cap, self.model.timeout);
                        let b = self.model.touch(idx, t);
                        let want = if let Some(n) = b.nodes.iter().find(|n| n.k == k) {
                            Inserted::NotAbsent(EntryKind::Present(status(n.conn)))
                        } else if let Some((p, _)) = b.pending.as_ref().filter(|(p, _)| p.k == k) {
                            Inserted::NotAbsent(EntryKind::Pending(status(p.conn)))
                        } else {
                            match b.insert(MNode { k, val: step as u32, conn: *conn }, cap, t, timeout) {
                                MIns::Inserted => Inserted::Inserted,
                                MIns::Full => {
                                    self.stats.full += 1;
                                    Inserted::Full
                                }
                                MIns::Pending { disconnected } => {
                                    self.stats.pending_created += 1;
                                    Inserted::Pending { disconnected: self.keys[disconnected as usize] }
                                }
                            }
                        };
                        if got != want {
                            return fail("C37:insert-result-differs-from-model", json!({"step": step, "op": format!("{op:?}"), "got": format!("{got:?}"), "want": format!("{want:?}"), "before": self.snap_json(&before)}));
                        }
                    }
                }
            }
            Op::Update { k, conn } => {
                let k = *k % POOL;
                let key = self.keys[k as usize];
                let got = self.table.update(&key, status(*conn));
                let want = match pool_bucket(k) {
                    None => {
                        self.stats.local_ops += 1;
                        EntryKind::Local
                    }
                    Some(idx) => {
                        let b = self.model.touch(idx, t);
                        if let Some(n) = b.nodes.iter().find(|n| n.k == k).cloned() {
                            let had_pending = b.pending.is_some();
                            b.update(k, *conn);
                            if had_pending && b.pending.is_none() {
                                self.stats.pending_cancelled_by_update += 1;
                            }
                            updated_key = Some(k);
                            EntryKind::Present(status(n.conn))
                        } else if let Some((p, _)) = b.pending.as_mut().filter(|(p, _)| p.k == k) {
                            let old = p.conn;
                            p.conn = *conn;
                            if old != *conn {
                                self.stats.pending_status_changed += 1;
                            }
                            EntryKind::Pending(status(old))
                        } else {
                            EntryKind::Absent
                        }
                    }
                };
                if got != want {
                    return fail("C37:entry-kind-differs-from-model", json!({"step": step, "op": format!("{op:?}"), "got": format!("{got:?}"), "want": format!("{want:?}"), "before": self.snap_json(&before)}));
                }
            }
            Op::Remove { k } => {
                let k = *k % POOL;
                let key = self.keys[k as usize];
                let (kind, node) = self.table.remove(&key);
                let (want_kind, want_node) = match pool_bucket(k) {
                    None => (EntryKind::Local, None),
                    Some(idx) => {
                        let b = self.model.touch(idx, t);
                        if let Some(pos) = b.nodes.iter().position(|n| n.k == k) {
                            let n = b.nodes.remove(pos);
                            removed_key = Some(k);
                            (EntryKind::Present(status(n.conn)), Some(n))
                        } else if b.pending.as_ref().is_some_and(|(p, _)| p.k == k) {
                            let (p, _) = b.pending.take().unwrap();
                            (EntryKind::Pending(status(p.conn)), Some(p))
                        } else {
                            (EntryKind::Absent, None)
                        }
                    }
                };
                let got_node = node.as_ref().map(|n| (self.key_id(&n.key), n.value, is_conn(n.status)));
                let want_n = want_node.as_ref().map(|n| (Some(n.k), n.val, n.conn));
                if kind != want_kind || got_node != want_n {
                    return fail("C37:remove-result-differs-from-model", json!({"step": step, "op": format!("{op:?}"), "got": format!("{kind:?} {got_node:?}"), "want": format!("{want_kind:?} {want_n:?}")}));
                }
            }
            Op::Look { k } => {
                let k = *k % POOL;
                let key = self.keys[k as usize];
                let kind = self.table.entry_kind(&key);
                let bucket = self.table.bucket_of(&key);
                let value = self.table.value(&key);
                match pool_bucket(k) {
                    None => {
                        self.stats.local_ops += 1;
                        if kind != EntryKind::Local || bucket.is_some() || value.is_some() {
                            return fail("C37:local-key-has-entry", json!({"step": step, "kind": format!("{kind:?}")}));
                        }
                    }
                    Some(idx) => {
                        let b = self.model.touch(idx, t);
                        let (want, want_val) = if let Some(n) = b.nodes.iter().find(|n| n.k == k) {
                            (EntryKind::Present(status(n.conn)), Some(n.val))
                        } else if let Some((p, _)) = b.pending.as_ref().filter(|(p, _)| p.k == k) {
                            (EntryKind::Pending(status(p.conn)), Some(p.val))
                        } else {
                            (EntryKind::Absent, None)
                        };
                        let want_n = b.nodes.len();
                        let want_has_pending = b.pending.as_ref().is_some_and(|(_, d)| *d > t);
                        if kind != want || value != want_val {
                            return fail("C37:entry-kind-differs-from-model", json!({"step": step, "op": format!("{op:?}"), "got": format!("{kind:?} {value:?}"), "want": format!("{want:?} {want_val:?}")}));
                        }
                        let (lo, hi, n, has_pending, contains) = bucket.expect("non-local key has a bucket");
                        if n != want_n || has_pending != want_has_pending || !contains || dist_bytes(&lo) != pow2(idx as u32) || dist_bytes(&hi) != pow2m1(idx as u32 + 1) {
                            return fail("C37:bucket-ref-differs-from-model", json!({"step": step, "op": format!("{op:?}"), "n": n, "want_n": want_n, "has_pending": has_pending, "want_has_pending": want_has_pending, "contains": contains}));
                        }
                    }
                }
            }
            Op::IterAll => {
                let got = self.table.iter_buckets();
                let idxs: Vec<usize> = self.model.buckets.keys().cloned().collect();
                for i in idxs {
                    self.model.touch(i, t);
                }
                let want: Vec<(B32, usize, bool, Vec<(Option<u8>, u32, bool)>)> = self
                    .model
                    .buckets
                    .iter()
                    .filter(|(_, b)| !b.nodes.is_empty() || b.pending.as_ref().is_some_and(|(_, d)| *d > t))
                    .map(|(i, b)| (pow2(*i as u32), b.nodes.len(), b.pending.as_ref().is_some_and(|(_, d)| *d > t), b.nodes.iter().map(|n| (Some(n.k), n.val, n.conn)).collect()))
                    .collect();
                let got_v: Vec<(B32, usize, bool, Vec<(Option<u8>, u32, bool)>)> =
                    got.iter().map(|(lo, _hi, n, hp, nodes)| (dist_bytes(lo), *n, *hp, nodes.iter().map(|x| (self.key_id(&x.key), x.value, is_conn(x.status))).collect())).collect();
                if got_v != want {
                    return fail("C37:iter-differs-from-model", json!({"step": step, "got": format!("{got_v:?}"), "want": format!("{want:?}")}));
                }
            }
            Op::Advance { ms } => verif_clock::advance(Duration::from_millis(*ms as u64)),
            Op::AdvanceNearTimeout { delta_ms } => verif_clock::advance((self.model.timeout + Duration::from_millis(*delta_ms as u64)).saturating_sub(Duration::from_millis(1))),
            Op::TakeApplied => {
                let got = self.table.take_applied_pending();
                let want = self.model.applied.pop_front();
                self.cmp_applied(&got, &want, step)?;
            }
            Op::OnPending { .. } | Op::OnHead { .. } | Op::Refill { .. } => unreachable!("resolved above"),
        }
        let after = self.table.snapshot();
        self.compare_with_model(&after, step, op)?;
        self.invariants(&before, &after, t, step, op, removed_key, updated_key)?;
        Ok(())
    }

    fn cmp_applied(&self, got: &Option<Applied>, want: &Option<(MNode, Option<MNode>)>, step: usize) -> Result<(), Outcome> {
        let g = got.as_ref().map(|a| ((self.key_id(&a.inserted.0), a.inserted.1), a.evicted.as_ref().map(|e| (self.key_id(&e.0), e.1))));
        let w = want.as_ref().map(|(i, e)| ((Some(i.k), i.val), e.as_ref().map(|e| (Some(e.k), e.val))));
        if g != w {
            return Err(Outcome::fail("C37:applied-pending-record-differs-from-model", json!({"step": step, "got": format!("{g:?}"), "want": format!("{w:?}")})));
        }
        Ok(())
    }

    /// drains the applied-pending queue of table and model and compares them
    pub fn drain_applied(&mut self, step: usize) -> Result<(), Outcome> {
        loop {
            let got = self.table.take_applied_pending();
            let want = self.model.applied.pop_front();
            self.cmp_applied(&got, &want, step)?;
            if got.is_none() {
                return Ok(());
            }
        }
    }

    fn compare_with_model(&mut self, after: &[BucketSnap], step: usize, op: &Op) -> Result<(), Outcome> {
        let t = now();
        let got: Vec<(usize, Vec<(Option<u8>, u32, bool)>, Option<(Option<u8>, u32, bool)>, bool)> = after
            .iter()
            .map(|b| {
                (
                    b.index,
                    b.nodes.iter().map(|n| (self.key_id(&n.key), n.value, is_conn(n.status))).collect(),
                    b.pending.as_ref().map(|n| (self.key_id(&n.key), n.value, is_conn(n.status))),
                    b.pending_ready,
                )
            })
            .collect();
        let want: Vec<(usize, Vec<(Option<u8>, u32, bool)>, Option<(Option<u8>, u32, bool)>, bool)> = self
            .model
            .buckets
            .iter()
            .filter(|(_, b)| !b.nodes.is_empty() || b.pending.is_some())
            .map(|(i, b)| (*i, b.nodes.iter().map(|n| (Some(n.k), n.val, n.conn)).collect(), b.pending.as_ref().map(|(n, _)| (Some(n.k), n.val, n.conn)), b.pending.as_ref().is_some_and(|(_, d)| *d <= t)))
            .collect();
        if got != want {
            // classify: same multiset per bucket but different order → order signature
            let strip = |v: &Vec<(usize, Vec<(Option<u8>, u32, bool)>, Option<(Option<u8>, u32, bool)>, bool)>| {
                v.iter()
                    .map(|(i, n, p, r)| {
                        let mut n = n.clone();
                        n.sort();
                        (*i, n, *p, *r)
                    })
                    .collect::<Vec<_>>()
            };
            let sig = if strip(&got) == strip(&want) { "C37:bucket-order-differs-from-model" } else { "C37:table-differs-from-model" };
            return Err(Outcome::fail(sig, json!({"step": step, "op": format!("{op:?}"), "now_ms": t.as_millis() as u64, "table": self.snap_json(after), "model": self.model_json()})));
        }
        Ok(())
    }

    #[allow(clippy::too_many_arguments)]
    fn invariants(&mut self, before: &[BucketSnap], after: &[BucketSnap], t: Duration, step: usize, op: &Op, removed_key: Option<u8>, updated_key: Option<u8>) -> Result<(), Outcome> {
        let cap = self.model.cap;
        let fail = |sig: &str, w: &World, extra: Value| Err(Outcome::fail(sig, json!({"step": step, "op": format!("{op:?}"), "now_ms": t.as_millis() as u64, "extra": extra, "before": w.snap_json(before), "after": w.snap_json(after)})));
        let mut seen: Vec<B32> = vec![];
        let t_after = now();
        for b in after {
            self.stats.max_fill = self.stats.max_fill.max(b.nodes.len());
            if b.nodes.len() > cap {
                return fail("C37:bucket-over-capacity", self, json!({"bucket": b.index}));
            }
            let mut seen_conn = false;
            for n in b.nodes.iter().chain(b.pending.iter()) {
                let kb = n.key.verif_bytes();
                if kb == self.local {
                    return fail("C37:local-key-stored", self, json!({"bucket": b.index}));
                }
                if seen.contains(&kb) {
                    return fail("C37:key-appears-twice", self, json!({"bucket": b.index, "key": self.kid(&n.key)}));
                }
                seen.push(kb);
                if high_bit(&xor(&self.local, &kb)) != Some(b.index as u32) {
                    return fail("C37:key-in-wrong-bucket", self, json!({"bucket": b.index, "key": self.kid(&n.key)}));
                }
            }
            for n in &b.nodes {
                if is_conn(n.status) {
                    seen_conn = true;
                } else if seen_conn {
                    return fail("C37:disconnected-after-connected", self, json!({"bucket": b.index}));
                }
            }
        }
        // ---- what changed: evictions / applications (model-free reading of the statement) -------
        let find = |s: &'_ [BucketSnap], idx: usize| s.iter().find(|b| b.index == idx).cloned();
        let mut idxs: Vec<usize> = before.iter().map(|b| b.index).chain(after.iter().map(|b| b.index)).collect();
        idxs.sort();
        idxs.dedup();
        for idx in idxs {
            let bb = find(before, idx).unwrap_or(BucketSnap { index: idx, nodes: vec![], pending: None, pending_ready: false });
            let ab = find(after, idx).unwrap_or(BucketSnap { index: idx, nodes: vec![], pending: None, pending_ready: false });
            let gone: Vec<_> = bb.nodes.iter().filter(|n| !ab.nodes.iter().any(|m| m.key == n.key)).cloned().collect();
            let came: Vec<_> = ab.nodes.iter().filter(|n| !bb.nodes.iter().any(|m| m.key == n.key)).cloned().collect();
            // a pending entry that became a bucket entry
            // (or became one and was removed by this very op: `removed_key` is only set when the table
            // reported the removed entry as Present)
            let applied = bb.pending.as_ref().filter(|p| came.iter().any(|n| n.key == p.key) || (removed_key.is_some() && self.key_id(&p.key) == removed_key)).cloned();
            if let Some(p) = &applied {
                let mixed = bb.nodes.len() >= cap && bb.nodes.iter().any(|n| is_conn(n.status)) && bb.nodes.iter().any(|n| !is_conn(n.status));
                if mixed {
                    if is_conn(p.status) {
                        self.stats.conn_pending_applied_mixed += 1;
                    } else {
                        self.stats.disc_pending_applied_mixed += 1;
                    }
                }
                let since = self.pending_since.get(&idx).cloned();
                match since {
                    Some(s) if t >= s + self.model.timeout => {}
                    _ => return fail("C37:pending-applied-before-timeout", self, json!({"bucket": idx, "pending_since_ms": since.map(|s| s.as_millis() as u64)})),
                }
                if let Some(id) = self.key_id(&p.key) {
                    self.stamp.insert(id, self.tick);
                }
            }
            for g in &gone {
                let id = self.key_id(&g.key);
                if id.is_some() && id == removed_key {
                    continue; // explicit removal
                }
                // evicted: only by an applied pending entry, only the first (least recently
                // disconnected) node, only while disconnected, only from a full bucket
                if applied.is_none() {
                    return fail("C37:entry-vanished-without-pending-application", self, json!({"bucket": idx, "key": self.kid(&g.key)}));
                }
                if bb.nodes[0].key != g.key {
                    return fail("C37:evicted-not-least-recently-disconnected", self, json!({"bucket": idx, "key": self.kid(&g.key)}));
                }
                if is_conn(g.status) {
                    return fail("C37:evicted-connected-entry", self, json!({"bucket": idx, "key": self.kid(&g.key)}));
                }
                if bb.nodes.len() < cap {
                    return fail("C37:evicted-from-non-full-bucket", self, json!({"bucket": idx}));
                }
                self.stats.pending_applied_evict += 1;
            }
            let evicted = gone.iter().filter(|g| !(removed_key.is_some() && self.key_id(&g.key) == removed_key)).count();
            if applied.is_some() && evicted == 0 {
                self.stats.pending_applied_room += 1;
            }
            if evicted > 1 {
                return fail("C37:more-than-one-entry-evicted", self, json!({"bucket": idx}));
            }
            // pending disappeared without becoming an entry: dropped / cancelled / removed (all allowed
            // by the documented algorithm; the model comparison decides whether it was correct)
            let pending_changed = match (&bb.pending, &ab.pending) {
                (Some(x), Some(y)) => x.key != y.key,
                (None, None) => false,
                _ => true,
            };
            if bb.pending.is_some() && pending_changed && applied.is_none() {
                self.stats.pending_dropped += 1;
                if bb.pending_ready {
                    self.stats.ready_pending_dropped += 1;
                    if self.refilled.contains(&idx) {
                        self.stats.ready_pending_dropped_after_refill += 1;
                    }
                }
            }
            // removals / refills while a pending entry is waiting
            if bb.pending.is_some() && ab.pending.is_some() && !pending_changed {
                if removed_key.is_some() && !gone.is_empty() {
                    self.stats.removed_while_pending += 1;
                    self.freed.insert(idx);
                } else if !came.is_empty() && self.freed.contains(&idx) {
                    self.stats.refilled_while_pending += 1;
                    self.refilled.insert(idx);
                }
            }
            if ab.pending.is_none() || pending_changed {
                self.freed.remove(&idx);
                if ab.pending.is_none() {
                    self.refilled.remove(&idx);
                }
            }
            if pending_changed {
                if ab.pending.is_some() {
                    // created during this op (the only way a pending entry appears)
                    self.pending_since.insert(idx, t);
                } else {
                    self.pending_since.remove(&idx);
                }
            }
            // stamps for inserted / updated nodes
            for c in &came {
                if applied.as_ref().is_some_and(|p| p.key == c.key) {
                    continue;
                }
                if let Some(id) = self.key_id(&c.key) {
                    self.stamp.insert(id, self.tick);
                }
            }
            if let Some(u) = updated_key {
                if ab.nodes.iter().any(|n| self.key_id(&n.key) == Some(u)) {
                    self.stamp.insert(u, self.tick);
                }
            }
            // least-recently-updated order inside each status class
            let mut last: [Option<u64>; 2] = [None, None];
            for n in &ab.nodes {
                let class = is_conn(n.status) as usize;
                if let Some(id) = self.key_id(&n.key) {
                    let st = *self.stamp.get(&id).unwrap_or(&0);
                    if last[class].is_some_and(|l| l > st) {
                        return fail("C37:not-least-recently-updated-order", self, json!({"bucket": idx, "key": id}));
                    }
                    last[class] = Some(st);
                }
            }
            // a pending entry that is not ready must never have been applied; readiness flag is time-based
            if let (Some(p), Some(s)) = (&ab.pending, self.pending_since.get(&idx)) {
                let want_ready = t_after >= *s + self.model.timeout;
                if ab.pending_ready != want_ready {
                    return fail("C37:pending-readiness-wrong", self, json!({"bucket": idx, "key": self.kid(&p.key), "ready": ab.pending_ready}));
                }
            }
        }
        Ok(())
    }
}
