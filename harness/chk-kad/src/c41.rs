//! C41 — MemoryStore behaves like a bounded map (records + provider records), compared with a
//! reference model after every operation.
use libp2p_identity::PeerId;
use libp2p_kad::store::{Error as StoreError, MemoryStore, MemoryStoreConfig, RecordStore};
use libp2p_kad::{ProviderRecord, Record, RecordKey};
use multiaddr::Multiaddr;
use proptest::prelude::*;
use serde::{Deserialize, Serialize};
use serde_json::json;
use std::collections::BTreeMap;
use std::time::{Duration, Instant};
use vcore::{ensure, Ctx, Outcome};

const KEYS: usize = 5;
const PEERS: usize = 4; // peer 0 is the local node

#[derive(Clone, Debug, Serialize, Deserialize)]
pub enum Op {
    Put { key: u8, len: u8, fill: u8, publisher: Option<u8>, expires: Option<u16> },
    Get { key: u8 },
    Remove { key: u8 },
    AddProvider { key: u8, peer: u8, addr: u8, expires: Option<u16> },
    RemoveProvider { key: u8, peer: u8 },
    Retain { keep_mask: u8 },
}

#[derive(Clone, Debug, Serialize, Deserialize)]
pub struct Case {
    max_records: u8,
    max_value_bytes: u8,
    max_providers_per_key: u8,
    max_provided_keys: u8,
    ops: Vec<Op>,
}

fn rkey(i: u8) -> RecordKey {
    RecordKey::new(&[b'k', i % KEYS as u8])
}
fn peer(i: u8) -> PeerId {
    vcore::gen::peer((i as usize) % PEERS)
}
fn addr(tag: u8) -> Vec<Multiaddr> {
    // 0 = no address; otherwise 1..=2 addresses derived from the tag
    match tag % 4 {
        0 => vec![],
        1 => vec![format!("/ip4/10.0.0.{}/tcp/1", tag).parse().unwrap()],
        2 => vec![format!("/ip4/10.0.1.{}/tcp/2", tag).parse().unwrap(), "/dns/example.com/tcp/443".parse().unwrap()],
        _ => vec![format!("/ip6/::{:x}/udp/9/quic-v1", tag as u16 + 1).parse().unwrap()],
    }
}

#[derive(Clone, Debug, PartialEq)]
struct MProv {
    provider: PeerId,
    addresses: Vec<Multiaddr>,
    expires: Option<Instant>,
}

#[derive(Default)]
struct Model {
    records: BTreeMap<u8, Record>,
    providers: BTreeMap<u8, Vec<MProv>>,
}

fn prov_view(p: &ProviderRecord) -> serde_json::Value {
    json!({"key": format!("{:?}", p.key), "provider": p.provider.to_string(), "addrs": p.addresses.iter().map(|a| a.to_string()).collect::<Vec<_>>(), "has_expiry": p.expires.is_some()})
}

/// full comparison of everything observable through the RecordStore API
fn compare(store: &MemoryStore, m: &Model, local: &PeerId, cfg: &MemoryStoreConfig, step: usize) -> Result<(), Outcome> {
    // records: get() per key, records() as a set
    for k in 0..KEYS as u8 {
        let got = store.get(&rkey(k)).map(|c| c.into_owned());
        let want = m.records.get(&k).cloned();
        if got != want {
            return Err(Outcome::fail("C41:get-differs-from-model", json!({"step": step, "key": k, "got": format!("{got:?}"), "want": format!("{want:?}")})));
        }
    }
    let mut listed: Vec<Record> = store.records().map(|c| c.into_owned()).collect();
    listed.sort_by(|a, b| a.key.as_ref().cmp(b.key.as_ref()));
    let want: Vec<Record> = m.records.values().cloned().collect();
    if listed != want {
        return Err(Outcome::fail("C41:records-listing-differs-from-model", json!({"step": step, "got": format!("{listed:?}"), "want": format!("{want:?}")})));
    }
    if listed.len() > cfg.max_records {
        return Err(Outcome::fail("C41:more-than-max-records", json!({"step": step, "n": listed.len()})));
    }
    if listed.iter().any(|r| r.value.len() >= cfg.max_value_bytes) {
        return Err(Outcome::fail("C41:oversized-value-stored", json!({"step": step})));
    }
    // providers per key: content (field by field, ProviderRecord's Eq ignores addresses/expiry) and order
    let mut want_provided: Vec<(u8, MProv)> = vec![];
    for k in 0..KEYS as u8 {
        let got = store.providers(&rkey(k));
        let want = m.providers.get(&k).cloned().unwrap_or_default();
        if got.len() > cfg.max_providers_per_key {
            return Err(Outcome::fail("C41:more-than-max-providers-per-key", json!({"step": step, "key": k, "n": got.len()})));
        }
        if got.iter().any(|p| p.key != rkey(k)) {
            return Err(Outcome::fail("C41:provider-listed-under-wrong-key", json!({"step": step, "key": k})));
        }
        let got_v: Vec<MProv> = got.iter().map(|p| MProv { provider: p.provider, addresses: p.addresses.clone(), expires: p.expires }).collect();
        if got_v != want {
            let mut a = got_v.clone();
            let mut b = want.clone();
            a.sort_by_key(|p| p.provider);
            b.sort_by_key(|p| p.provider);
            let sig = if a == b { "C41:providers-order-changed" } else { "C41:providers-differ-from-model" };
            return Err(Outcome::fail(sig, json!({"step": step, "key": k, "got": got.iter().map(prov_view).collect::<Vec<_>>(),
                "want": want.iter().map(|p| json!({"provider": p.provider.to_string(), "addrs": p.addresses.iter().map(|a| a.to_string()).collect::<Vec<_>>(), "has_expiry": p.expires.is_some()})).collect::<Vec<_>>()})));
        }
        for p in want {
            if &p.provider == local {
                want_provided.push((k, p));
            }
        }
    }
    // provided(): exactly the local node's current provider records (set, compared field by field)
    let mut got_provided: Vec<(Vec<u8>, MProv)> = store
        .provided()
        .map(|c| {
            let p = c.into_owned();
            (p.key.to_vec(), MProv { provider: p.provider, addresses: p.addresses, expires: p.expires })
        })
        .collect();
    got_provided.sort_by(|a, b| a.0.cmp(&b.0));
    let want_p: Vec<(Vec<u8>, MProv)> = want_provided.into_iter().map(|(k, p)| (rkey(k).to_vec(), p)).collect();
    if got_provided != want_p {
        return Err(Outcome::fail("C41:provided-not-local-current-records", json!({"step": step, "got": format!("{got_provided:?}"), "want": format!("{want_p:?}")})));
    }
    Ok(())
}

fn check(case: &Case) -> Outcome {
    let local = peer(0);
    let cfg = MemoryStoreConfig {
        max_records: case.max_records as usize,
        max_value_bytes: case.max_value_bytes as usize,
        max_providers_per_key: case.max_providers_per_key as usize,
        max_provided_keys: case.max_provided_keys as usize,
    };
    let mut store = MemoryStore::with_config(local, cfg.clone());
    let mut m = Model::default();
    let base = Instant::now() + Duration::from_secs(1000);
    let when = |e: &Option<u16>| e.map(|s| base + Duration::from_secs(s as u64));
    let (mut refused_put, mut refused_prov, mut inplace, mut replaced, mut local_update, mut removed_local, mut limit_keys) = (false, false, false, false, false, false, false);
    let (mut replaced_at_max, mut local_update_expiry_only, mut local_update_addrs_only, mut new_key_at_max) = (false, false, false, false);
    for (step, op) in case.ops.iter().enumerate() {
        match op {
            Op::Put { key, len, fill, publisher, expires } => {
                let k = key % KEYS as u8;
                let rec = Record { key: rkey(k), value: vec![*fill; *len as usize], publisher: publisher.map(peer), expires: when(expires) };
                let too_large = rec.value.len() >= cfg.max_value_bytes;
                let is_new = !m.records.contains_key(&k);
                let full = is_new && m.records.len() >= cfg.max_records;
                let res = store.put(rec.clone());
                match (&res, too_large, full) {
                    (Ok(()), false, false) => {
                        if !is_new {
                            replaced = true;
                            if m.records.len() >= cfg.max_records {
                                replaced_at_max = true;
                            }
                        }
                        m.records.insert(k, rec);
                    }
                    (Err(StoreError::ValueTooLarge), true, _) | (Err(StoreError::MaxRecords), _, true) => {
                        refused_put = true;
                        if matches!(&res, Err(StoreError::MaxRecords)) {
                            new_key_at_max = true;
                        }
                    }
                    _ => {
                        let sig = match (res.is_ok(), too_large, full) {
                            (true, true, _) => "C41:oversized-value-accepted",
                            (true, _, true) => "C41:new-key-accepted-beyond-max-records",
                            (false, false, false) => "C41:put-refused-without-reason",
                            _ => "C41:put-wrong-error",
                        };
                        return Outcome::fail(sig, json!({"step": step, "op": format!("{op:?}"), "result": format!("{res:?}"), "stored": m.records.len(), "is_new": is_new}));
                    }
                }
            }
            Op::Get { .. } => {} // every key is read back after every op below
            Op::Remove { key } => {
                let k = key % KEYS as u8;
                store.remove(&rkey(k));
                m.records.remove(&k);
            }
            Op::AddProvider { key, peer: p, addr: a, expires } => {
                let k = key % KEYS as u8;
                let pr = ProviderRecord { key: rkey(k), provider: peer(*p), expires: when(expires), addresses: addr(*a) };
                let res = store.add_provider(pr.clone());
                let num_keys = m.providers.len();
                let key_new = !m.providers.contains_key(&k);
                match res {
                    Err(StoreError::MaxProvidedKeys) => {
                        // the statement does not define this limit; only require that a refusal is for a
                        // key without providers, happens at the limit, and (checked by compare) changes nothing
                        ensure!(key_new, "C41:provider-refused-for-listed-key", json!({"step": step, "op": format!("{op:?}")}));
                        ensure!(num_keys >= cfg.max_provided_keys, "C41:provider-refused-below-key-limit", json!({"step": step, "keys_with_providers": num_keys}));
                        refused_prov = true;
                        limit_keys = true;
                    }
                    Err(e) => return Outcome::fail("C41:add-provider-unexpected-error", json!({"step": step, "err": format!("{e:?}")})),
                    Ok(()) => {
                        let list = m.providers.entry(k).or_default();
                        let new = MProv { provider: pr.provider, addresses: pr.addresses.clone(), expires: pr.expires };
                        if let Some(slot) = list.iter_mut().find(|x| x.provider == pr.provider) {
                            if *slot != new {
                                inplace = true;
                                if pr.provider == local {
                                    local_update = true;
                                    if slot.addresses == new.addresses {
                                        local_update_expiry_only = true;
                                    } else if slot.expires == new.expires {
                                        local_update_addrs_only = true;
                                    }
                                }
                            }
                            *slot = new;
                        } else if list.len() < cfg.max_providers_per_key {
                            list.push(new);
                        } else {
                            refused_prov = true; // silently ignored when the list is full
                        }
                        if list.is_empty() {
                            m.providers.remove(&k);
                        }
                    }
                }
            }
            Op::RemoveProvider { key, peer: p } => {
                let k = key % KEYS as u8;
                store.remove_provider(&rkey(k), &peer(*p));
                if let Some(list) = m.providers.get_mut(&k) {
                    let before = list.len();
                    list.retain(|x| x.provider != peer(*p));
                    if list.len() != before && peer(*p) == local {
                        removed_local = true;
                    }
                    if list.is_empty() {
                        m.providers.remove(&k);
                    }
                }
            }
            Op::Retain { keep_mask } => {
                let keep = |k: &RecordKey| (0..KEYS as u8).any(|i| &rkey(i) == k && (keep_mask >> i) & 1 == 1);
                store.retain(|k, _| keep(k));
                m.records.retain(|i, _| (keep_mask >> i) & 1 == 1);
            }
        }
        if let Err(o) = compare(&store, &m, &local, &cfg, step) {
            return o;
        }
    }
    let mut labels = vec![];
    for (f, l) in [
        (refused_put, "refused-put"),
        (refused_prov, "refused-or-ignored-provider"),
        (inplace, "in-place-provider-update"),
        (replaced, "record-replaced"),
        (local_update, "local-provider-updated"),
        (removed_local, "local-provider-removed"),
        (limit_keys, "provided-keys-limit-hit"),
        (replaced_at_max, "put-on-existing-key-with-max_records-stored"),
        (new_key_at_max, "new-key-refused-at-max_records"),
        (local_update_expiry_only, "local-provider-updated(expiry-only)"),
        (local_update_addrs_only, "local-provider-updated(addresses-only)"),
    ] {
        if f {
            labels.push(l);
        }
    }
    Outcome::pass_l((refused_put || refused_prov) && inplace, labels)
}

fn op() -> impl Strategy<Value = Op> {
    let key = 0u8..KEYS as u8;
    let exp = proptest::option::weighted(0.5, 0u16..1000);
    prop_oneof![
        5 => (key.clone(), 0u8..10, any::<u8>(), proptest::option::of(0u8..PEERS as u8), exp.clone()).prop_map(|(key, len, fill, publisher, expires)| Op::Put { key, len, fill, publisher, expires }),
        1 => key.clone().prop_map(|key| Op::Get { key }),
        2 => key.clone().prop_map(|key| Op::Remove { key }),
        6 => (key.clone(), 0u8..PEERS as u8, any::<u8>(), exp).prop_map(|(key, peer, addr, expires)| Op::AddProvider { key, peer, addr, expires }),
        2 => (key.clone(), 0u8..PEERS as u8).prop_map(|(key, peer)| Op::RemoveProvider { key, peer }),
        1 => any::<u8>().prop_map(|keep_mask| Op::Retain { keep_mask }),
    ]
}

pub fn run(ctx: &mut Ctx) {
    ctx.assume("max_provided_keys is not part of the statement: a MaxProvidedKeys refusal is accepted iff the key has no providers yet and the number of keys with providers has reached the limit; it must change nothing");
    ctx.assume("which of ValueTooLarge / MaxRecords is reported when both apply is not asserted");
    let max_ops = ctx.tier.sel(40usize, 80usize);
    ctx.check(
        "model",
        "config (max_records 1..4, max_value_bytes 1..8, max_providers_per_key 1..3, max_provided_keys 1..5) and up to 40/80 ops (put/get/remove/add_provider/remove_provider/retain) over 5 keys x 4 peers (peer 0 local); the complete observable state (get per key, records(), providers(key) per key, provided()) is compared with a reference map model after every op; non-trivial = a put or provider was refused/ignored AND a provider record was updated in place with different content",
        ctx.n(150_000, 4_000_000),
        &|| {
            (1u8..=4, 1u8..=8, 1u8..=3, 1u8..=5, proptest::collection::vec(op(), 1..max_ops))
                .prop_map(|(max_records, max_value_bytes, max_providers_per_key, max_provided_keys, ops)| Case { max_records, max_value_bytes, max_providers_per_key, max_provided_keys, ops })
                .boxed()
        },
        &check,
    );
}
