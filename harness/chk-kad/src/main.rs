mod behave;
mod c37;
mod c38;
mod c39;
mod c40;
mod c41;
mod c42;
mod c43;
mod c44;
mod tablegen;
mod util;

fn main() {
    vcore::runner::main(&[
        ("C37", c37::run),
        ("C38", c38::run),
        ("C39", c39::run),
        ("C40", c40::run),
        ("C41", c41::run),
        ("C42", c42::run),
        ("C43", c43::run),
        ("C44", c44::run),
    ])
}
