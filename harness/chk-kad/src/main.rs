use chk_kad::*;

fn main() {
    // `chk-kad --write-seeds <dir>`: (re)generate the golden seed corpus of the fuzz target kad_wire
    let args: Vec<String> = std::env::args().collect();
    if args.get(1).map(|s| s == "--write-seeds").unwrap_or(false) {
        let dir = std::path::PathBuf::from(args.get(2).cloned().unwrap_or_else(|| "/verif/fuzz/seeds".into()));
        match fuzzapi::write_seeds(&dir) {
            Ok(n) => {
                println!("{n} seed files written under {}", dir.display());
                return;
            }
            Err(e) => {
                eprintln!("cannot write seeds: {e}");
                std::process::exit(2);
            }
        }
    }
    vcore::runner::main(&[
        ("C37", c37::run),
        ("C38", c38::run),
        ("C39", c39::run),
        ("C40", c40::run),
        ("C41", c41::run),
        ("C42", c42::run),
        ("C43", c43::run),
        ("C44", c44::run),
    ])
}
