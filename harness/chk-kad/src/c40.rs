//! C40 — XOR distance behaves as a metric with consistent bucket indices.
//!
//! Reference side: byte-wise XOR / add-with-carry / highest-set-bit on big-endian `[u8; 32]`,
//! written here and never using the crate's `U256` arithmetic.
use crate::util::*;
use libp2p_kad::verif::{Inserted, NodeStatus, Table};
use libp2p_kad::KBucketKey;
use proptest::prelude::*;
use serde::{Deserialize, Serialize};
use serde_json::json;
use std::num::NonZeroUsize;
use std::time::Duration;
use vcore::runner::LANES;
use vcore::{ensure, Ctx, Outcome};

#[derive(Clone, Debug, Serialize, Deserialize)]
pub struct Case {
    /// key a
    a: Pat,
    /// b = a xor dab
    dab: Pat,
    /// c = b xor dbc
    dbc: Pat,
}

fn check(case: &Case) -> Outcome {
    libp2p_core::verif_clock::set(Duration::ZERO);
    let a = case.a.value();
    let dab = case.dab.value();
    let dbc = case.dbc.value();
    let b = xor(&a, &dab);
    let c = xor(&b, &dbc);
    let dac = xor(&a, &c);

    // ---- construction of arbitrary keys through the *public* API only -----------------------
    // h = sha256("") via KBucketKey::new; h.for_distance(h ^ x) must be the key with bytes x.
    let h = KBucketKey::new(Vec::<u8>::new());
    let mut hb = [0u8; 32];
    hb.copy_from_slice(h.hashed_bytes());
    let ka = h.for_distance(dist_from(&xor(&hb, &a)));
    let kb = h.for_distance(dist_from(&xor(&hb, &b)));
    let kc = h.for_distance(dist_from(&xor(&hb, &c)));
    let ctx = || json!({"a": hex(&a), "b": hex(&b), "c": hex(&c)});
    ensure!(ka.verif_bytes() == a && kb.verif_bytes() == b && kc.verif_bytes() == c, "C40:for_distance-wrong-key", ctx());
    ensure!(ka == raw_key(&a), "C40:for_distance-wrong-key", ctx());

    // ---- distance == XOR, zero iff equal, symmetric -----------------------------------------
    let d_ab = ka.distance(&kb);
    let d_ba = kb.distance(&ka);
    let d_bc = kb.distance(&kc);
    let d_ac = ka.distance(&kc);
    let d_aa = ka.distance(&ka);
    ensure!(dist_bytes(&d_aa) == [0u8; 32], "C40:self-distance-nonzero", ctx());
    ensure!(d_aa == libp2p_kad::KBucketDistance::default(), "C40:self-distance-nonzero", ctx());
    ensure!(d_ab == d_ba, "C40:asymmetric", ctx());
    ensure!(dist_bytes(&d_ab) == dab, "C40:distance-not-xor", json!({"a": hex(&a), "b": hex(&b), "got": hex(&dist_bytes(&d_ab)), "want": hex(&dab)}));
    ensure!(dist_bytes(&d_bc) == dbc && dist_bytes(&d_ac) == dac, "C40:distance-not-xor", ctx());
    let zero_ab = dist_bytes(&d_ab) == [0u8; 32];
    ensure!(zero_ab == (ka == kb) && zero_ab == (a == b), "C40:zero-distance-iff-equal", ctx());

    // ---- ordering of Distance is numeric (big-endian lexicographic) --------------------------
    ensure!((d_ab.cmp(&d_bc)) == dab.cmp(&dbc), "C40:distance-order-not-numeric", ctx());
    ensure!((d_ab.cmp(&d_ac)) == dab.cmp(&dac), "C40:distance-order-not-numeric", ctx());

    // ---- triangle inequality: d(a,c) <= d(a,b) + d(b,c) (33-byte sum, no overflow loss) ------
    let sum = add33(&dab, &dbc);
    ensure!(widen(&dist_bytes(&d_ac)) <= sum, "C40:triangle", ctx());
    // and through the crate's own arithmetic when it does not overflow
    let (s, ovf) = d_ab.0.overflowing_add(d_bc.0);
    if !ovf {
        ensure!(d_ac.0 <= s, "C40:triangle", ctx());
    }

    // ---- unidirectionality: for a and d there is exactly one key at that distance -------------
    let back = ka.for_distance(d_ab);
    ensure!(back == kb && back.verif_bytes() == b, "C40:for_distance-not-inverse", ctx());
    ensure!(ka.for_distance(d_ac) == kc && kb.for_distance(d_ab) == ka, "C40:for_distance-not-inverse", ctx());
    // c has the same distance from a as b only if c == b
    ensure!((d_ac == d_ab) == (kc == kb), "C40:not-unidirectional", ctx());
    // for_distance(d) then distance gives d back (both directions of the equivalence)
    let some_d = dist_from(&dbc);
    ensure!(ka.distance(&ka.for_distance(some_d)) == some_d, "C40:for_distance-not-inverse", ctx());

    // ---- the same laws through the hashed public key type ---------------------------------------
    if let Pat::Hashed(pre) = &case.a {
        let pk = KBucketKey::new(pre.clone());
        ensure!(pk.distance(&kb) == d_ab && pk.for_distance(d_ab) == kb, "C40:key-vs-keybytes-disagree", ctx());
        let kk: libp2p_kad::verif::KeyBytes = pk.clone().into();
        ensure!(kk == ka, "C40:key-vs-keybytes-disagree", ctx());
    }

    // ---- ilog2 / bucket index = position of the highest set bit ---------------------------------
    for (d, want) in [(&d_ab, &dab), (&d_bc, &dbc), (&d_ac, &dac)] {
        ensure!(d.ilog2() == high_bit(want), "C40:ilog2-not-highest-bit", json!({"d": hex(want), "got": d.ilog2(), "want": high_bit(want)}));
    }
    // the routing table (local = a) files b under that index, and the bucket's range brackets d
    let mut labels = vec![case.a.label(), case.dab.label()];
    let mut t = Table::new(ka, NonZeroUsize::new(2).unwrap(), Duration::from_secs(1));
    match (t.insert(&kb, 7, NodeStatus::Connected), high_bit(&dab)) {
        (Inserted::NotAbsent(libp2p_kad::verif::EntryKind::Local), None) => {
            ensure!(t.bucket_of(&kb).is_none(), "C40:bucket-for-local-key", ctx());
            ensure!(t.snapshot().is_empty(), "C40:local-key-stored", ctx());
            labels.push("b==a");
        }
        (Inserted::Inserted, Some(i)) => {
            let snap = t.snapshot();
            ensure!(snap.len() == 1 && snap[0].index == i as usize && snap[0].nodes.len() == 1 && snap[0].nodes[0].key == kb,
                "C40:bucket-index-not-highest-bit", json!({"d": hex(&dab), "want": i, "got": snap.iter().map(|s| s.index).collect::<Vec<_>>()}));
            let (lo, hi, n, _pending, contains) = t.bucket_of(&kb).expect("not local");
            let want_lo = pow2(i);
            let want_hi = pow2m1(i + 1);
            ensure!(dist_bytes(&lo) == want_lo && dist_bytes(&hi) == want_hi, "C40:bucket-range-wrong",
                json!({"index": i, "lo": hex(&dist_bytes(&lo)), "hi": hex(&dist_bytes(&hi))}));
            ensure!(lo <= d_ab && d_ab <= hi && contains && n == 1, "C40:distance-outside-bucket-range", ctx());
            // membership of *other* distances in this bucket: exactly those whose highest set bit is i
            // (probes: the case's other distances, 0, the range ends and their outer neighbours, and
            // d(a,b) with a higher bit set in addition = bit i set but not the highest)
            let mut probes: Vec<B32> = vec![dbc, dac, [0u8; 32], want_lo, want_hi, pow2m1(i), pow2(i + 1)];
            for up in [i + 1, i + 9, 255] {
                if up > i && up < 256 {
                    let mut p = dab;
                    let hi_bit = pow2(up);
                    for x in 0..32 {
                        p[x] |= hi_bit[x];
                    }
                    probes.push(p);
                }
            }
            for p in &probes {
                let want = high_bit(p) == Some(i);
                let got = t.bucket_contains(&kb, &dist_from(p)).expect("not local");
                ensure!(got == want, "C40:bucket-membership-not-highest-bit", json!({"bucket": i, "probe": hex(p), "probe_high_bit": high_bit(p), "contains": got}));
                if !want && bit(p, i) {
                    labels.push("probe:bucket-bit-set-below-a-higher-bit");
                } else if !want {
                    labels.push("probe:outside-bucket");
                } else {
                    labels.push("probe:inside-bucket");
                }
            }
            labels.sort();
            labels.dedup();
            if i == 0 {
                labels.push("bucket:0");
            } else if i == 255 {
                labels.push("bucket:255");
            } else if i < 200 {
                labels.push("bucket:1..199");
            } else {
                labels.push("bucket:200..254");
            }
        }
        (other, hb) => {
            return Outcome::fail("C40:insert-result-vs-distance", json!({"result": format!("{other:?}"), "high_bit": hb, "keys": ctx()}));
        }
    }
    let distinct = a != b && b != c && a != c;
    Outcome::pass_l(distinct, labels)
}

fn edge_values() -> Vec<Pat> {
    let mut v = vec![Pat::Zero, Pat::One];
    for k in 0..=255u8 {
        v.push(Pat::Pow2(k));
        v.push(Pat::Pow2m1(k));
        v.push(Pat::Pow2p1(k));
    }
    v
}

pub fn run(ctx: &mut Ctx) {
    ctx.assume("reference arithmetic is byte-wise on big-endian [u8;32] (xor, add-with-carry, highest set bit), independent of the crate's U256");
    ctx.assume("bucket placement is observed through the cfg(libp2p_verif) shim verif::Table over the real KBucketsTable<KeyBytes,u32>; raw keys via KeyBytes::verif_from_bytes are cross-checked against construction through the public for_distance");
    // exhaustive over edge distances x edge distances from three base keys
    let edges = edge_values();
    let bases = vec![Pat::Zero, Pat::Pow2m1(255), Pat::Hashed(vec![1, 2, 3])];
    let second: Vec<Pat> = if ctx.quick() {
        vec![Pat::Zero, Pat::One, Pat::Pow2(255), Pat::Pow2m1(255), Pat::Pow2(7), Pat::Pow2m1(7), Pat::Pow2p1(128), Pat::Hashed(vec![9])]
    } else {
        edges.clone()
    };
    let n = bases.len() * edges.len() * second.len();
    ctx.sweep(
        "edge-sweep",
        &format!("a in {{0, all-ones, one hashed key}} x d(a,b) in {{0,1,2^k,2^k-1,2^k+1 : k<256}} x d(b,c) in {} edge values; non-trivial = a,b,c pairwise distinct", second.len()),
        true,
        &|lane| {
            let (bases, edges, second) = (bases.clone(), edges.clone(), second.clone());
            (0..n).skip(lane).step_by(LANES).map(move |i| {
                let s = i % second.len();
                let e = (i / second.len()) % edges.len();
                let b = i / (second.len() * edges.len());
                Case { a: bases[b].clone(), dab: edges[e].clone(), dbc: second[s].clone() }
            })
        },
        &check,
    );
    ctx.check(
        "random",
        "triples a, b=a^dab, c=b^dbc with each of a/dab/dbc drawn from {0,1,2^k,2^k-1,2^k+1,all-ones,random masked to low bits,random,SHA-256 images}; non-trivial = pairwise distinct keys; distinct by case hash",
        ctx.n(600_000, 12_000_000),
        &|| (pat(), pat(), pat()).prop_map(|(a, dab, dbc)| Case { a, dab, dbc }).boxed(),
        &check,
    );
}
