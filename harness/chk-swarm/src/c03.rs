//! C03 — connection ids are never reused: across Swarms, across threads, over the process lifetime.
//!
//! The statement is about the *whole process*, so the oracle keeps one process-global record of every
//! id it has ever been handed (a paged bitmap keyed by the id's numeric value, exact for any u64) and a
//! duplicate is a violation no matter which case, lane, thread or Swarm produced the two occurrences.
//! Once a duplicate has been seen the process is "tainted": every later case fails with the same
//! witness, which keeps the verdict stable while proptest shrinks/re-executes (a lost update in a racy
//! counter cannot be replayed on demand — the schedule belongs to the OS).
//!
//! Sub-checks
//! * `stress`   — T threads (1..16) start on a barrier and allocate ids through every public route:
//!   `DialOpts` builders (5 spellings), real `Swarm::dial` on a simulated swarm, and inbound connections
//!   arriving at two simulated swarms per thread. Randomised stress over the OS scheduler.
//! * `boundary` — deterministic: allocate, jump the counter (hook `ConnectionId::verif_skip`, equivalent
//!   to n discarded allocations) to just below 2^k, allocate across the boundary. A counter that is
//!   truncated/wraps at 2^k hands out ids that were already recorded earlier in the process.
use libp2p_core::Multiaddr;
use libp2p_swarm::dial_opts::{DialOpts, PeerCondition};
use libp2p_swarm::ConnectionId;
use multiaddr::Protocol;
use proptest::prelude::*;
use serde::{Deserialize, Serialize};
use serde_json::json;
use simswarm::probe::{cid, Probe, ProbeScript};
use simswarm::world::{release_phantoms, Ev, World};
use std::collections::HashMap;
use std::sync::{Arc, Barrier, Mutex, OnceLock};
use vcore::{gen, Ctx, Outcome};

// ---------------------------------------------------------------------------------------------
// process-global record of ids

const PAGE_BITS: u64 = 1 << 16;

#[derive(Default)]
struct Seen {
    pages: HashMap<u64, Box<[u64]>>,
    total: u64,
    /// first duplicate ever observed in this process: (id, where the second occurrence came from)
    dup: Option<(u64, String)>,
}

impl Seen {
    /// true if `id` was already present
    fn insert(&mut self, id: u64) -> bool {
        let page = self.pages.entry(id / PAGE_BITS).or_insert_with(|| vec![0u64; (PAGE_BITS / 64) as usize].into_boxed_slice());
        let bit = id % PAGE_BITS;
        let w = &mut page[(bit / 64) as usize];
        let m = 1u64 << (bit % 64);
        let was = *w & m != 0;
        *w |= m;
        if !was {
            self.total += 1;
        }
        was
    }
}

fn seen() -> &'static Mutex<Seen> {
    static S: OnceLock<Mutex<Seen>> = OnceLock::new();
    S.get_or_init(Default::default)
}

/// Record a batch; returns the process-wide duplicate witness if there is (or ever was) one.
fn record(ids: &[u64], origin: &str) -> Option<(u64, String)> {
    let mut g = seen().lock().unwrap();
    for &id in ids {
        if g.insert(id) && g.dup.is_none() {
            g.dup = Some((id, origin.to_string()));
        }
    }
    g.dup.clone()
}

// ---------------------------------------------------------------------------------------------
// allocation routes

#[derive(Clone, Debug, Serialize, Deserialize, PartialEq, Eq)]
pub enum Seg {
    /// `n` DialOpts built through builder spelling `route` (0..5); nothing is dialed
    Opts { route: u8, n: u16 },
    /// `n` real `Swarm::dial` calls on simulated swarm `node` (id read from the DialOpts)
    Dial { node: u8, n: u8 },
    /// `n` inbound connections arriving at simulated swarm `node` (id read from `IncomingConnection`)
    Inbound { node: u8, n: u8 },
}

#[derive(Clone, Debug, Serialize, Deserialize, PartialEq, Eq)]
pub struct Case {
    /// one plan per thread
    pub threads: Vec<Vec<Seg>>,
}

fn addr(k: u64) -> Multiaddr {
    Multiaddr::empty().with(Protocol::Memory(1 + k))
}

fn build_opts(route: u8, k: u64) -> DialOpts {
    let p = gen::peer((k % 8) as usize);
    match route % 5 {
        0 => DialOpts::peer_id(p).build(),
        1 => DialOpts::peer_id(p).condition(PeerCondition::Always).addresses(vec![addr(k)]).build(),
        2 => DialOpts::unknown_peer_id().address(addr(k)).build(),
        3 => DialOpts::from(p),
        _ => DialOpts::from(addr(k)),
    }
}

struct ThreadOut {
    ids: Vec<ConnectionId>,
    by_opts: usize,
    by_dial: usize,
    by_inbound: usize,
    /// an id seen in an event that the harness cannot attribute (harness self-check)
    problem: Option<String>,
}

/// Everything one thread does between the barrier and its end. Swarms are created *before* the
/// barrier (by the caller) so that the contended window is spent allocating.
fn run_plan(plan: &[Seg], world: &mut Option<World<Probe>>, t: usize) -> ThreadOut {
    let mut out = ThreadOut { ids: Vec::new(), by_opts: 0, by_dial: 0, by_inbound: 0, problem: None };
    let mut k: u64 = (t as u64) << 32;
    for seg in plan {
        match seg {
            Seg::Opts { route, n } => {
                for _ in 0..*n {
                    k += 1;
                    let o = build_opts(*route, k);
                    out.ids.push(o.connection_id());
                    out.by_opts += 1;
                }
            }
            Seg::Dial { node, n } => {
                let Some(w) = world.as_mut() else { continue };
                let i = *node as usize % w.nodes.len();
                for _ in 0..*n {
                    k += 1;
                    // unknown peer + explicit address: always reaches the transport, a pending connection is created
                    let o = build_opts(if k % 2 == 0 { 2 } else { 1 }, k);
                    let id = o.connection_id();
                    let _ = w.nodes[i].swarm.dial(o);
                    out.ids.push(id);
                    out.by_dial += 1;
                }
                // fail the transport dials and drain, so nothing accumulates
                w.settle(50, &mut |_, _, _| {});
                for d in w.open_dials(i) {
                    w.resolve_err(i, d);
                }
                w.settle(50, &mut |_, _, _| {});
            }
            Seg::Inbound { node, n } => {
                let Some(w) = world.as_mut() else { continue };
                let i = *node as usize % w.nodes.len();
                let before = w.nodes[i].events.len();
                let mut injected = 0;
                for _ in 0..*n {
                    k += 1;
                    if w.incoming_phantom(i, 0, addr(k)).is_some() {
                        injected += 1;
                    }
                }
                w.settle(50, &mut |_, _, _| {});
                let got: Vec<u64> = w.nodes[i].events[before..].iter().filter_map(|e| if let Ev::Incoming { conn, .. } = e { Some(*conn) } else { None }).collect();
                if got.len() != injected {
                    out.problem = Some(format!("injected {injected} inbound connections, saw {} IncomingConnection events", got.len()));
                }
                for c in got {
                    out.ids.push(ConnectionId::new_unchecked(c as usize));
                    out.by_inbound += 1;
                }
                for q in w.open_incoming() {
                    w.resolve_incoming(q, None);
                }
                w.settle(50, &mut |_, _, _| {});
                w.incoming.clear();
            }
        }
    }
    out
}

fn new_world() -> World<Probe> {
    let peers = [gen::peer(0), gen::peer(1)];
    let mut w: World<Probe> = World::new(&peers, |i, log| Probe::new(i as u8, 0, log, ProbeScript::default()), |c| c.with_idle_connection_timeout(std::time::Duration::from_secs(3600)));
    for i in 0..2 {
        w.listen(i, addr(9000 + i as u64));
    }
    w.settle(50, &mut |_, _, _| {});
    w
}

fn needs_world(plan: &[Seg]) -> bool {
    plan.iter().any(|s| !matches!(s, Seg::Opts { .. }))
}

struct Tally {
    total: usize,
    threads: usize,
    by_opts: usize,
    by_dial: usize,
    by_inbound: usize,
    swarms: usize,
}

/// Run all plans on their own OS threads (start barrier), collect, and judge against the process record.
fn run_threads(case: &Case, origin: &str) -> Result<Tally, Outcome> {
    // a duplicate was already seen in this process: the statement (process lifetime) is violated for
    // good, nothing a later case does can change that; answer at once (keeps shrinking cheap)
    if let Some((id, first_origin)) = seen().lock().unwrap().dup.clone() {
        return Err(Outcome::fail(
            "C03:duplicate-connection-id",
            json!({"id": id, "scope": "process lifetime", "second_occurrence_from": first_origin, "note": "duplicate observed earlier in this process; this case was not executed"}),
        ));
    }
    let t = case.threads.len();
    let barrier = Arc::new(Barrier::new(t));
    let mut outs: Vec<ThreadOut> = Vec::with_capacity(t);
    let mut swarms = 0;
    std::thread::scope(|s| {
        let hs: Vec<_> = case
            .threads
            .iter()
            .enumerate()
            .map(|(ti, plan)| {
                let b = barrier.clone();
                s.spawn(move || {
                    // the Swarms of this thread live (and are polled) on this thread only
                    let mut world = if needs_world(plan) { Some(new_world()) } else { None };
                    b.wait();
                    let out = run_plan(plan, &mut world, ti);
                    let had_world = world.is_some();
                    drop(world);
                    release_phantoms();
                    (out, had_world)
                })
            })
            .collect();
        for h in hs {
            match h.join() {
                Ok((o, hw)) => {
                    swarms += if hw { 2 } else { 0 };
                    outs.push(o)
                }
                Err(_) => outs.push(ThreadOut { ids: vec![], by_opts: 0, by_dial: 0, by_inbound: 0, problem: Some("worker thread panicked".into()) }),
            }
        }
    });
    if let Some(p) = outs.iter().find_map(|o| o.problem.clone()) {
        return Err(Outcome::Inconclusive(format!("harness: {p}")));
    }
    // (1) within this case, on the ids themselves (`Ord`/`Eq` of ConnectionId)
    let mut all: Vec<ConnectionId> = outs.iter().flat_map(|o| o.ids.iter().copied()).collect();
    all.sort();
    if let Some(w) = all.windows(2).find(|w| w[0] == w[1]) {
        let id = cid(w[0]);
        let holders: Vec<usize> = outs.iter().enumerate().filter(|(_, o)| o.ids.contains(&w[0])).map(|(i, _)| i).collect();
        // also taint the process record so that the verdict is stable under re-execution
        let nums: Vec<u64> = all.iter().map(|c| cid(*c)).collect();
        record(&nums, origin);
        return Err(Outcome::fail("C03:duplicate-connection-id", json!({"id": id, "threads_holding_it": holders, "scope": "within one case", "ids_in_case": all.len()})));
    }
    // (2) against everything this process has ever seen
    let nums: Vec<u64> = all.iter().map(|c| cid(*c)).collect();
    if let Some((id, first_origin)) = record(&nums, origin) {
        return Err(Outcome::fail(
            "C03:duplicate-connection-id",
            json!({"id": id, "scope": "process lifetime", "second_occurrence_from": first_origin, "ids_recorded_in_process": seen().lock().unwrap().total,
                   "note": "the record is process-global: after the first duplicate every case reports the same witness"}),
        ));
    }
    Ok(Tally {
        total: all.len(),
        threads: t,
        by_opts: outs.iter().map(|o| o.by_opts).sum(),
        by_dial: outs.iter().map(|o| o.by_dial).sum(),
        by_inbound: outs.iter().map(|o| o.by_inbound).sum(),
        swarms,
    })
}

fn check_stress(case: &Case) -> Outcome {
    if case.threads.is_empty() {
        return Outcome::Discard;
    }
    match run_threads(case, "stress") {
        Err(o) => o,
        Ok(t) => {
            let mut labels = vec![];
            if t.threads >= 2 {
                labels.push("threads>=2");
            }
            if t.threads >= 8 {
                labels.push("threads>=8");
            }
            if t.total >= 1000 {
                labels.push("ids>=1000");
            }
            if t.total >= 20_000 {
                labels.push("ids>=20000");
            }
            if t.by_dial > 0 {
                labels.push("swarm_dial");
            }
            if t.by_inbound > 0 {
                labels.push("inbound");
            }
            if t.swarms >= 4 {
                labels.push("swarms_on>=2_threads");
            }
            if t.by_opts > 0 {
                labels.push("dial_opts");
            }
            Outcome::pass_l(t.threads >= 2 && t.total >= 1000, labels)
        }
    }
}

fn seg_strategy(max_opts: u16) -> impl Strategy<Value = Seg> {
    prop_oneof![
        10 => (0u8..5, 1u16..=max_opts).prop_map(|(route, n)| Seg::Opts { route, n }),
        2 => (0u8..2, 1u8..24).prop_map(|(node, n)| Seg::Dial { node, n }),
        2 => (0u8..2, 1u8..24).prop_map(|(node, n)| Seg::Inbound { node, n }),
    ]
}

fn stress_strategy() -> BoxedStrategy<Case> {
    // thread count: biased to "many" (contention) but covering 1..16
    let t = prop_oneof![1 => 1usize..=16, 2 => 6usize..=16];
    t.prop_flat_map(|t| proptest::collection::vec(proptest::collection::vec(seg_strategy(2500), 1..5), t)).prop_map(|threads| Case { threads }).boxed()
}

// ---------------------------------------------------------------------------------------------
// boundary sub-check

#[derive(Clone, Debug, Serialize, Deserialize, PartialEq, Eq)]
pub struct Boundary {
    /// the counter is moved to just below 2^exp (if it is not already beyond)
    pub exp: u8,
    /// ids allocated before the jump and across the boundary (each)
    pub n: u16,
}

fn check_boundary(b: &Boundary) -> Outcome {
    let n = b.n.max(64);
    // (a) some ids from wherever the counter is now: all four routes, two threads, two swarms each
    let mixed = |n: u16| Case {
        threads: vec![
            vec![Seg::Opts { route: 0, n }, Seg::Inbound { node: 0, n: 8 }, Seg::Dial { node: 1, n: 8 }, Seg::Opts { route: 2, n }],
            vec![Seg::Inbound { node: 1, n: 8 }, Seg::Opts { route: 4, n }, Seg::Dial { node: 0, n: 8 }],
        ],
    };
    if let Err(o) = run_threads(&mixed(n), "boundary:before-jump") {
        return o;
    }
    // (b) jump: read the counter through the public API, skip to 2^exp - n (never backwards)
    let here = cid(DialOpts::from(gen::peer(0)).connection_id());
    if let Some((id, origin)) = record(&[here], "boundary:probe") {
        return Outcome::fail("C03:duplicate-connection-id", json!({"id": id, "scope": "process lifetime", "second_occurrence_from": origin}));
    }
    let target = (1u64 << b.exp).saturating_sub(n as u64);
    let jumped = here + 1 < target;
    if jumped {
        ConnectionId::verif_skip((target - here - 1) as usize);
    }
    // (c) allocate across the boundary
    match run_threads(&mixed(n.saturating_mul(2)), "boundary:after-jump") {
        Err(o) => o,
        Ok(_) => Outcome::pass_l(jumped, if jumped { vec!["jumped"] } else { vec!["already_beyond"] }),
    }
}

pub fn run(ctx: &mut Ctx) {
    ctx.assume("ConnectionId's Display prints the whole id: the process-wide record is keyed by that number (within one case ids are compared with their own Eq/Ord)");
    ctx.assume("randomized stress over the OS scheduler: the counter is a private static, so the harness cannot own the interleaving of allocations; a lost update is caught with high probability, not with certainty");
    ctx.assume("hook ConnectionId::verif_skip(n) (cfg libp2p_verif) is equivalent to n allocations whose ids are discarded; boundaries above 2^56 are not visited (unreachable within a process lifetime)");
    ctx.check::<Case>(
        "stress",
        "T in 1..16 OS threads released by a barrier, each running 1..4 segments: up to 2500 DialOpts per segment through 5 builder spellings, up to 23 real Swarm::dial calls, up to 23 inbound connections on one of the thread's two simulated swarms; every id is checked against a process-global record (all earlier cases, lanes and threads). non-trivial = >=2 threads and >=1000 ids in the case; distinct by case hash",
        ctx.n(300, 8000),
        &stress_strategy,
        &check_stress,
    );
    // deterministic, sequential (lane 0 only): the record above already holds the small ids
    let exps: &[u8] = &[8, 12, 16, 20, 24, 31, 32, 33, 40, 48, 53, 56];
    ctx.sweep::<Boundary, _>(
        "boundary",
        "for 2^k in {8,12,16,20,24,31,32,33,40,48,53,56}: allocate through all routes, move the counter to just below 2^k (hook: n discarded allocations), allocate across the boundary on two threads and four swarms; ids must still be new to the process. non-trivial = the counter was actually moved",
        true,
        &|lane| {
            let v: Vec<Boundary> = if lane == 0 { exps.iter().map(|&exp| Boundary { exp, n: 200 }).collect() } else { vec![] };
            v.into_iter()
        },
        &check_boundary,
    );
    let g = seen().lock().unwrap();
    ctx.extra("ids_recorded_in_process", json!(g.total));
    ctx.extra("bitmap_pages", json!(g.pages.len()));
}
