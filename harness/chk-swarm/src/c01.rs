//! C01 lifecycle pairing, C02 counters and peer views, C05 peer identity, C06 denial is final —
//! four oracles over the same world interpreter (`life.rs`), each with its own generator weights.
use crate::life::{self, Case, Weights};
use vcore::{Ctx, Outcome};

pub(crate) fn eval(case: &Case, prefix: &str, nontrivial: &dyn Fn(&life::RunResult) -> bool) -> Outcome {
    let r = life::run_case_focus(case, Some(prefix));
    if let Some((sig, detail)) = r.fails.iter().find(|(s, _)| s.starts_with(prefix)) {
        return Outcome::fail(sig.clone(), detail.clone());
    }
    if prefix == "C06:" {
        // "nor counted": once a behaviour denied a connection, the counters and peer views (the C02 fold, which never
        // includes a denied connection) must keep agreeing with the history
        if let Some(k) = r.fails.iter().position(|(s, _)| s.starts_with("C02:")) {
            let (sig, detail) = &r.fails[k];
            let at = r.fail_at.get(k).cloned().unwrap_or(u64::MAX);
            let denied: Vec<String> = r
                .log
                .iter()
                .filter(|x| x.seq < at)
                .filter_map(|x| match &x.entry {
                    simswarm::probe::Entry::PendingIn { conn, denied: true } => Some(format!("PendingIn:{conn}")),
                    simswarm::probe::Entry::PendingOut { conn, denied: true, .. } => Some(format!("PendingOut:{conn}")),
                    simswarm::probe::Entry::EstIn { conn, denied: true, .. } => Some(format!("EstIn:{conn}")),
                    simswarm::probe::Entry::EstOut { conn, denied: true, .. } => Some(format!("EstOut:{conn}")),
                    _ => None,
                })
                .collect();
            if !denied.is_empty() {
                let at_est = denied.iter().any(|d| d.starts_with("Est"));
                let sig6 = if at_est { "C06:counters-or-peer-views-wrong-after-established-stage-denial" } else { "C06:counters-or-peer-views-wrong-after-pending-stage-denial" };
                return Outcome::fail(sig6, serde_json::json!({"denied_so_far": denied, "disagreement": sig, "detail": detail}));
            }
        }
    }
    if !r.settled {
        return Outcome::Inconclusive("world did not settle within the round bound".into());
    }
    let f = &r.flags;
    let mut labels = vec![];
    if f.established > 0 {
        labels.push("established");
    }
    if f.inbound_est > 0 {
        labels.push("inbound_established");
    }
    if f.two_node_links > 0 {
        labels.push("swarm_to_swarm");
    }
    if f.aborts > 0 {
        labels.push("abort");
    }
    if f.denials > 0 {
        labels.push("denial");
    }
    if f.failures > 0 {
        labels.push("failure");
    }
    if f.closes > 0 {
        labels.push("closed");
    }
    if f.max_simul >= 2 {
        labels.push("simul>=2");
    }
    if f.wrong_peer > 0 {
        labels.push("wrong_peer");
    }
    if f.local_peer > 0 {
        labels.push("local_peer");
    }
    if f.denial_non_first_field > 0 {
        labels.push("denial_non_first_field");
    }
    if f.est_denial_with_other_open > 0 {
        labels.push("est_denial_with_other_open");
    }
    if f.close_with_pending_same_peer > 0 {
        labels.push("close_with_pending_same_peer");
    }
    for (n, l) in [
        (f.role_override_dials, "role_override_dial"),
        (f.role_override_established, "role_override_established"),
        (f.cond_false, "condition_false"),
        (f.cond_false_by_role_override_dial, "condition_false_by_role_override_dial"),
        (f.cond_true, "condition_true"),
        (f.unknown_peer_dial_failed, "unknown_peer_dial_failed_while_pending"),
        (f.disconnect_dialing, "disconnect_dialing"),
        (f.disconnect_after_resolution, "disconnect_after_resolution"),
        (f.disconnect_with_result_queued, "disconnect_with_result_queued"),
        (f.queued_result_then_established, "queued_result_then_established"),
        (f.queued_result_then_aborted, "queued_result_then_aborted"),
    ] {
        if n > 0 {
            labels.push(l);
        }
    }
    Outcome::pass_l(nontrivial(&r), labels)
}

pub fn run_c01(ctx: &mut Ctx) {
    ctx.assume("transport, muxer and remote peers are simulated (simswarm); connection tasks run on the harness executor; idle timeout 1h so no timer fires");
    ctx.check::<Case>(
        "world",
        "programs of 4..40 world ops over 1..3 swarms (probe behaviour with 1..3 derived fields); non-trivial = >=1 establishment and >=1 of {abort, denial, close while another attempt to the same peer is pending}; distinct by case hash",
        ctx.n(40_000, 1_200_000),
        &|| life::case_strategy(3, 1..=2, 3, 40, Weights { disconnect: 2, ..Weights::default() }),
        &|c| eval(c, "C01:", &|r| r.flags.established > 0 && (r.flags.aborts > 0 || r.flags.denials > 0 || r.flags.close_with_pending_same_peer > 0)),
    );
}

pub fn run_c02(ctx: &mut Ctx) {
    ctx.assume("counters are compared after every Swarm::poll return and after every API call (DESIGN §9)");
    ctx.check::<Case>(
        "world",
        "programs of 4..40 world ops over 1..3 swarms; non-trivial = >=2 simultaneous connections to one peer and >=1 failure path; distinct by case hash",
        ctx.n(40_000, 1_200_000),
        &|| life::case_strategy(3, 1..=1, 2, 40, Weights { dial: 10, resolve_ok: 10, ..Weights::default() }),
        &|c| eval(c, "C02:", &|r| r.flags.max_simul >= 2 && r.flags.failures > 0),
    );
}

pub fn run_c05(ctx: &mut Ctx) {
    ctx.assume("the peer id a transport authenticates is chosen by the harness: expected / other / local");
    ctx.check::<Case>(
        "world",
        "programs of 4..30 world ops over 1..2 swarms with dials with/without expected peer and generated authenticated ids; non-trivial = some resolution authenticated as an unexpected or the local peer id; distinct by case hash",
        ctx.n(40_000, 1_200_000),
        &|| life::case_strategy(2, 1..=1, 0, 30, Weights { close: 1, disconnect: 0, remote_close: 0, ..Weights::default() }),
        &|c| eval(c, "C05:", &|r| r.flags.wrong_peer > 0 || r.flags.local_peer > 0),
    );
}

pub fn run_c06(ctx: &mut Ctx) {
    ctx.assume("composed behaviours are #[derive(NetworkBehaviour)] structs of 2..3 probes compiled from the working tree's macro");
    ctx.check::<Case>(
        "world",
        "programs of 4..40 world ops over 1..3 swarms whose behaviour is a derived struct of 2..3 probes, each denying the k-th call of a decision point; non-trivial = denial by a non-first field, or denial of an established connection while another connection to the same peer is open; distinct by case hash",
        ctx.n(40_000, 1_200_000),
        &|| life::case_strategy(3, 2..=3, 5, 40, Weights::default()),
        &|c| eval(c, "C06:", &|r| r.flags.denial_non_first_field > 0 || r.flags.est_denial_with_other_open > 0),
    );
}
