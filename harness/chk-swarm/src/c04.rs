//! C04 — dial preconditions and address selection.
use libp2p_core::Multiaddr;
use libp2p_identity::PeerId;
use libp2p_swarm::dial_opts::{DialOpts, PeerCondition};
use multiaddr::Protocol;
use proptest::prelude::*;
use serde::{Deserialize, Serialize};
use serde_json::json;
use simswarm::probe::{Entry, ErrKind, Probe, ProbeScript, FS};
use simswarm::world::{release_phantoms, Ev, World};
use std::collections::BTreeSet;
use vcore::{gen, Ctx, Outcome};

#[derive(Clone, Debug, PartialEq, Eq, Serialize, Deserialize)]
pub struct AddrSpec {
    /// 0..=1: own listen address k (if listening), 2..: /memory/(3000+base)
    base: u8,
    /// 0 = none, 1 = /p2p/P (target), 2 = /p2p/Q (foreign)
    p2p: u8,
}

#[derive(Clone, Debug, Serialize, Deserialize)]
pub struct Case {
    listen: u8,
    connected: bool,
    dialing: bool,
    with_peer: bool,
    cond: u8,
    explicit: Vec<AddrSpec>,
    behaviour: Vec<AddrSpec>,
    extend: bool,
    /// the pending setup dial that makes the pre-state "dialing" was built with `DialOpts::override_role()`
    #[serde(default)]
    dialing_override: bool,
    /// the dial under test is built with `override_role()`
    #[serde(default)]
    override_role: bool,
}

fn p() -> PeerId {
    gen::peer(5)
}
fn q() -> PeerId {
    gen::peer(6)
}

fn addr(s: &AddrSpec, listen: u8) -> Multiaddr {
    let mut a = if s.base < 2 && s.base < listen {
        Multiaddr::empty().with(Protocol::Memory(1000 + s.base as u64))
    } else {
        Multiaddr::empty().with(Protocol::Memory(3000 + s.base as u64))
    };
    match s.p2p {
        1 => a.push(Protocol::P2p(p())),
        2 => a.push(Protocol::P2p(q())),
        _ => {}
    }
    a
}

fn check(c: &Case) -> Outcome {
    let out = check_inner(c);
    release_phantoms();
    out
}

fn check_inner(c: &Case) -> Outcome {
    let local = gen::peer(0);
    let behaviour_addrs: Vec<Multiaddr> = c.behaviour.iter().map(|s| addr(s, c.listen)).collect();
    let n_setup_dials = usize::from(c.connected) + usize::from(c.dialing);
    let mut dial_addrs: Vec<Vec<Multiaddr>> = vec![vec![]; n_setup_dials];
    dial_addrs.push(behaviour_addrs.clone());
    let mut w: World<Probe> = World::new(
        &[local],
        |i, log| Probe::new(i as u8, 0, log, ProbeScript { dial_addrs: dial_addrs.clone(), protocols: vec!["/probe/1".into()], keep_alive: true, ..Default::default() }),
        |cfg| cfg.with_idle_connection_timeout(std::time::Duration::from_secs(3600)),
    );
    let mut listen_addrs = vec![];
    for k in 0..c.listen.min(2) {
        let a = Multiaddr::empty().with(Protocol::Memory(1000 + k as u64));
        w.listen(0, a.clone());
        listen_addrs.push(a);
    }
    let mut sink = |_: &mut World<Probe>, _: usize, _: &Ev| {};
    w.settle(50, &mut sink);
    // pre-state
    if c.connected {
        let setup = Multiaddr::empty().with(Protocol::Memory(4000));
        if w.dial(0, DialOpts::peer_id(p()).condition(PeerCondition::Always).addresses(vec![setup]).build()).is_err() {
            return Outcome::Inconclusive("setup dial refused".into());
        }
        let d = w.n_dials(0) - 1;
        w.resolve_ok(0, d, p(), None);
        w.settle(50, &mut sink);
        if !w.nodes[0].swarm.is_connected(&p()) {
            return Outcome::Inconclusive("setup connection not established".into());
        }
    }
    if c.dialing {
        let setup = Multiaddr::empty().with(Protocol::Memory(4001));
        let b = DialOpts::peer_id(p()).condition(PeerCondition::Always).addresses(vec![setup]);
        let o = if c.dialing_override { b.override_role().build() } else { b.build() };
        if w.dial(0, o).is_err() {
            return Outcome::Inconclusive("setup dial refused".into());
        }
        w.settle(50, &mut sink);
    }
    let explicit: Vec<Multiaddr> = c.explicit.iter().map(|s| addr(s, c.listen)).collect();
    let cond = match c.cond % 4 {
        0 => PeerCondition::Always,
        1 => PeerCondition::Disconnected,
        2 => PeerCondition::NotDialing,
        _ => PeerCondition::DisconnectedAndNotDialing,
    };
    let opts = if c.with_peer {
        let mut b = DialOpts::peer_id(p()).condition(cond).addresses(explicit.clone());
        if c.extend {
            b = b.extend_addresses_through_behaviour();
        }
        if c.override_role {
            b = b.override_role();
        }
        b.build()
    } else {
        match explicit.first() {
            Some(a) => {
                let b = DialOpts::unknown_peer_id().address(a.clone());
                if c.override_role {
                    b.override_role().build()
                } else {
                    b.build()
                }
            }
            None => return Outcome::Discard,
        }
    };
    let peer = opts.get_peer_id();
    let conn = simswarm::probe::cid(opts.connection_id());
    let counters_before = format!("{:?}", w.nodes[0].swarm.network_info().connection_counters());
    let dials_before = w.n_dials(0);
    let log_before = w.log.lock().unwrap().recs.len();
    let res = w.dial(0, opts);
    let recorded: Vec<Multiaddr> = {
        let s = w.nodes[0].net.lock().unwrap();
        s.dials[dials_before..].iter().map(|r| r.addr.clone()).collect()
    };
    let counters_after = format!("{:?}", w.nodes[0].swarm.network_info().connection_counters());
    // reference
    let targets_p = peer == Some(p());
    let should = match (cond, peer) {
        (_, None) => true,
        (_, Some(x)) if x != p() => true, // state only concerns P; another peer is neither connected nor dialing
        (PeerCondition::Always, _) => true,
        (PeerCondition::Disconnected, _) => !c.connected,
        (PeerCondition::NotDialing, _) => !c.dialing,
        (PeerCondition::DisconnectedAndNotDialing, _) => !c.connected && !c.dialing,
    };
    // the builder for dials without a peer id offers no condition: it is always `Always`
    let should = if c.with_peer { should } else { true };
    let _ = targets_p;
    let dial_failures = |w: &World<Probe>| -> usize {
        w.log.lock().unwrap().recs[log_before..].iter().filter(|r| matches!(&r.entry, Entry::Swarm(FS::DialFailure { conn: cc, .. }) if *cc == conn)).count()
    };
    let detail = |extra: serde_json::Value| json!({"explicit": explicit.iter().map(|a| a.to_string()).collect::<Vec<_>>(), "behaviour": behaviour_addrs.iter().map(|a| a.to_string()).collect::<Vec<_>>(), "listen": listen_addrs.iter().map(|a| a.to_string()).collect::<Vec<_>>(), "recorded": recorded.iter().map(|a| a.to_string()).collect::<Vec<_>>(), "result": format!("{res:?}"), "extra": extra});
    let mut labels: Vec<&'static str> = vec![];
    if c.dialing && c.dialing_override {
        labels.push("dialing_with_role_override");
    }
    if c.override_role {
        labels.push("dial_with_role_override");
    }
    if !should {
        labels.push("condition_false");
        if c.dialing && c.dialing_override && !(c.connected && !matches!(cond, PeerCondition::NotDialing)) {
            labels.push("condition_false_only_because_of_role_overridden_dial");
        }
        if res != Err(ErrKind::ConditionFalse) {
            return Outcome::fail("C04:condition-false-not-rejected", detail(json!({"cond": format!("{cond:?}"), "connected": c.connected, "dialing": c.dialing})));
        }
        if dial_failures(&w) != 1 {
            return Outcome::fail("C04:rejected-dial-not-reported-exactly-once", detail(json!({"dial_failures": dial_failures(&w)})));
        }
        if !recorded.is_empty() || counters_before != counters_after {
            return Outcome::fail("C04:rejected-dial-created-pending-connection", detail(json!({"before": counters_before, "after": counters_after})));
        }
        w.settle(50, &mut sink);
        if w.nodes[0].events.iter().any(|e| matches!(e, Ev::Established { conn: cc, .. } | Ev::OutgoingError { conn: cc, .. } | Ev::Dialing { conn: cc, .. } if *cc == conn)) {
            return Outcome::fail("C04:rejected-dial-produced-events", detail(json!(null)));
        }
        return Outcome::pass_l(true, labels);
    }
    // accepted: which addresses must be attempted
    let mut cand: Vec<Multiaddr> = explicit.clone();
    if !c.with_peer {
        cand.truncate(1);
    } else if c.extend {
        cand.extend(behaviour_addrs.iter().cloned());
    }
    let had_listen = cand.iter().any(|a| listen_addrs.contains(a));
    let mut seen = BTreeSet::new();
    let had_dup = cand.iter().any(|a| !seen.insert(a.to_string()));
    let mut filtered: Vec<Multiaddr> = vec![];
    for a in &cand {
        if !listen_addrs.contains(a) && !filtered.contains(a) {
            filtered.push(a.clone());
        }
    }
    if had_listen {
        labels.push("own_listen_addr_in_input");
    }
    if had_dup {
        labels.push("duplicate_in_input");
    }
    if filtered.is_empty() {
        labels.push("no_addresses");
        if res != Err(ErrKind::NoAddresses) {
            return Outcome::fail("C04:no-usable-address-but-not-NoAddresses", detail(json!(null)));
        }
        if dial_failures(&w) != 1 {
            return Outcome::fail("C04:rejected-dial-not-reported-exactly-once", detail(json!({"dial_failures": dial_failures(&w)})));
        }
        if !recorded.is_empty() || counters_before != counters_after {
            return Outcome::fail("C04:rejected-dial-created-pending-connection", detail(json!(null)));
        }
        return Outcome::pass_l(had_listen || had_dup, labels);
    }
    if res.is_err() {
        return Outcome::fail("C04:acceptable-dial-rejected", detail(json!(null)));
    }
    let mut expected: Vec<Multiaddr> = vec![];
    for a in &filtered {
        match peer {
            Some(pp) => {
                if let Ok(x) = a.clone().with_p2p(pp) {
                    expected.push(x);
                } else {
                    labels.push("foreign_p2p_suffix");
                }
            }
            None => expected.push(a.clone()),
        }
    }
    let exp_set: BTreeSet<String> = expected.iter().map(|a| a.to_string()).collect();
    let rec_set: BTreeSet<String> = recorded.iter().map(|a| a.to_string()).collect();
    let collision = exp_set.len() != expected.len();
    if collision {
        labels.push("suffix_collision");
    }
    for a in &recorded {
        // an *input* equal to a listen address must be skipped; an input that already carries a /p2p suffix is a
        // different address for the Swarm's exact comparison and is not asserted against (DESIGN §9)
        if listen_addrs.iter().any(|l| a == l || (peer.map(|pp| l.clone().with_p2p(pp).ok().as_ref() == Some(a)).unwrap_or(false) && cand.iter().all(|c| c != a))) {
            return Outcome::fail("C04:dialed-own-listen-address", detail(json!(null)));
        }
        if let Some(pp) = peer {
            if a.iter().last() != Some(Protocol::P2p(pp)) {
                return Outcome::fail("C04:dialed-address-without-target-p2p-suffix", detail(json!(null)));
            }
        }
    }
    if rec_set != exp_set {
        return Outcome::fail("C04:attempted-address-set-wrong", detail(json!({"expected": exp_set})));
    }
    if !collision && recorded.len() != rec_set.len() {
        return Outcome::fail("C04:address-attempted-more-than-once", detail(json!(null)));
    }
    Outcome::pass_l(had_listen || had_dup, labels)
}

fn spec() -> impl Strategy<Value = AddrSpec> {
    (0u8..6, prop_oneof![5 => Just(0u8), 3 => Just(1u8), 2 => Just(2u8)]).prop_map(|(base, p2p)| AddrSpec { base, p2p })
}

pub fn run(ctx: &mut Ctx) {
    ctx.assume("the peer a dial is for is DialOpts::get_peer_id(); own listen addresses are matched exactly as announced; two inputs that differ only by a trailing /p2p/<target> are counted as distinct inputs (suffix_collision label), so dialing the resulting equal address twice is not asserted against");
    ctx.check::<Case>(
        "dial",
        "pre-state (connected/dialing to P; the pending dial is an ordinary or a role-overridden one, DialOpts::override_role) x PeerCondition x explicit list (0..6, duplicates, own listen addresses, /p2p/P or foreign /p2p/Q suffixes) x behaviour list x extend flag x with/without peer id, on one real Swarm over the simulated transport; non-trivial = condition false, or a duplicate / own listen address in the input; distinct by case hash",
        ctx.n(60_000, 2_000_000),
        &|| {
            (0u8..3, any::<bool>(), any::<bool>(), proptest::bool::weighted(0.8), 0u8..4, proptest::collection::vec(spec(), 0..6), proptest::collection::vec(spec(), 0..4), any::<bool>(), (proptest::bool::weighted(0.4), proptest::bool::weighted(0.25)))
                .prop_map(|(listen, connected, dialing, with_peer, cond, explicit, behaviour, extend, (dialing_override, override_role))| Case { listen, connected, dialing, with_peer, cond, explicit, behaviour, extend, dialing_override, override_role })
                .boxed()
        },
        &check,
    );
    ctx.assume("world sub-check: 'connected' = an established and not yet closed connection to the peer in the returned SwarmEvents; 'dialing' = an accepted dial for the peer (any role) without a terminal event; both are read from the history where Swarm::dial is called (between polls)");
    ctx.check::<crate::life::Case>(
        "world",
        "world programs of 4..40 ops over 1..3 swarms, dial-heavy (dials with all four PeerConditions, with/without peer id, ordinary and role-overridden, direct and through a behaviour) interleaved with resolutions, failures, inbound connections, closes, disconnects and schedules; oracle at every Swarm::dial: DialPeerConditionFalse iff the condition is false in the history so far, no transport dial for a rejected dial, a rejected dial reported exactly once to every field. non-trivial = a dial rejected for its condition and a conditional dial accepted in the same program; distinct by case hash",
        ctx.n(40_000, 1_200_000),
        &|| crate::life::case_strategy(2, 1..=2, 1, 40, crate::life::Weights { dial: 16, connect: 5, resolve_ok: 8, resolve_err: 3, disconnect: 2, ..crate::life::Weights::default() }),
        &|c| crate::c01::eval(c, "C04:", &|r| r.flags.cond_false > 0 && r.flags.cond_true > 0),
    );
}
