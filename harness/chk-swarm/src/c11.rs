//! C11 — protocol-change notifications track the advertised protocol sets.
//! Layer (i): the real from_initial_protocols / from_full_sets / add / remove through the swarm::verif shims,
//! with the state kept across calls exactly as `Connection` keeps it.
//! Layer (ii) (`connection` sub-check below): a real `Connection` (hook `swarm::verif::Conn`) polled by the
//! harness over a simulated muxer, with a scripted handler that changes its advertised list and returns
//! `ReportRemoteProtocols` events in generated batches (several reports within one `Connection::poll`,
//! reports released in reaction to a `LocalProtocolsChange`), so the state `Connection` shares between the
//! helpers (the protocol buffer, the tracked sets) is the real one.
use libp2p_swarm::StreamProtocol;
use proptest::prelude::*;
use serde::{Deserialize, Serialize};
use serde_json::json;
use std::collections::{BTreeSet, HashSet};
use vcore::{Ctx, Outcome};

pub const NAMES: &[&str] = &["/a/1", "/b/1", "/c/2.0.0", "/d", "/e/long/name", "/f", "no-slash", ""];

#[derive(Clone, Debug, Serialize, Deserialize)]
pub struct Case {
    initial: Vec<u8>,
    updates: Vec<Vec<u8>>,
    remote: Vec<(bool, Vec<u8>)>,
}

fn valid(n: &str) -> bool {
    n.starts_with('/')
}

fn names(v: &[u8]) -> Vec<String> {
    v.iter().map(|i| NAMES[*i as usize % NAMES.len()].to_string()).collect()
}

fn check(c: &Case) -> Outcome {
    let mut nontrivial = false;
    let mut labels = vec![];
    // local
    let init = names(&c.initial);
    let (mut lp, first) = libp2p_swarm::verif::LocalProtocols::new(init.clone());
    let mut fold: BTreeSet<String> = BTreeSet::new();
    if let Some(a) = first {
        fold.extend(a);
    }
    let want = |l: &[String]| -> BTreeSet<String> { l.iter().filter(|n| valid(n)).cloned().collect() };
    if fold != want(&init) {
        return Outcome::fail("C11:initial-protocols-wrong", json!({"list": init, "fold": fold}));
    }
    let mut prev = want(&init);
    for (k, u) in c.updates.iter().enumerate() {
        let list = names(u);
        let has_dup = {
            let mut s = BTreeSet::new();
            list.iter().any(|n| !s.insert(n.clone()))
        };
        let changes = lp.update(list.clone());
        for (added, ns) in &changes {
            for n in ns {
                if *added {
                    fold.insert(n.clone());
                } else {
                    fold.remove(n);
                }
            }
        }
        let w = want(&list);
        if fold != w {
            let shrink = w.len() < prev.len();
            let sig = if has_dup && shrink { "C11:removal-missed-when-list-has-duplicate" } else if has_dup { "C11:local-fold-wrong-with-duplicate" } else { "C11:local-fold-wrong" };
            return Outcome::fail(sig, json!({"step": k, "list": list, "previous_set": prev, "fold": fold, "expected": w, "changes": changes}));
        }
        if has_dup && w != prev {
            nontrivial = true;
        }
        if has_dup {
            labels.push("dup_step");
        }
        if w.len() < prev.len() {
            labels.push("shrink_step");
        }
        prev = w;
    }
    // remote
    let mut existing: HashSet<StreamProtocol> = HashSet::new();
    let mut rfold: BTreeSet<String> = BTreeSet::new();
    let mut rwant: BTreeSet<String> = BTreeSet::new();
    for (k, (add, v)) in c.remote.iter().enumerate() {
        let set: HashSet<StreamProtocol> = names(v).into_iter().filter_map(|n| StreamProtocol::try_from_owned(n).ok()).collect();
        let as_names: BTreeSet<String> = set.iter().map(|p| p.as_ref().to_string()).collect();
        if *add {
            if let Some(a) = libp2p_swarm::verif::remote_add(&mut existing, set) {
                for p in a {
                    rfold.insert(p.as_ref().to_string());
                }
            }
            rwant.extend(as_names);
        } else {
            if let Some(r) = libp2p_swarm::verif::remote_remove(&mut existing, set) {
                for p in r {
                    rfold.remove(p.as_ref());
                }
            }
            for n in &as_names {
                rwant.remove(n);
            }
        }
        let ex: BTreeSet<String> = existing.iter().map(|p| p.as_ref().to_string()).collect();
        if rfold != rwant || ex != rwant {
            return Outcome::fail("C11:remote-fold-wrong", json!({"step": k, "op": (add, names(v)), "fold": rfold, "tracked": ex, "expected": rwant}));
        }
    }
    if c.remote.len() >= 2 {
        labels.push("remote_ops");
    }
    labels.sort();
    labels.dedup();
    Outcome::pass_l(nontrivial, labels)
}

// ---------------------------------------------------------------------------------------------
// layer (ii): the real Connection

mod conn {
    use super::{names, valid, NAMES};
    use futures::task::noop_waker;
    use libp2p_swarm::handler::{ConnectionEvent, ProtocolSupport, ProtocolsChange};
    use libp2p_swarm::verif::{Conn, ConnPoll};
    use libp2p_swarm::{ConnectionHandler, ConnectionHandlerEvent, StreamProtocol, SubstreamProtocol};
    use proptest::prelude::*;
    use serde::{Deserialize, Serialize};
    use serde_json::json;
    use simswarm::net::{boxed, mux_pair, SimMuxer};
    use simswarm::probe::ProbeUpgrade;
    use std::collections::{BTreeSet, HashSet, VecDeque};
    use std::convert::Infallible;
    use std::sync::{Arc, Mutex};
    use std::task::{Context, Poll};
    use std::time::Duration;
    use vcore::Outcome;

    /// one remote report: (is_added, name indices)
    pub type Report = (bool, Vec<u8>);

    #[derive(Clone, Debug, Serialize, Deserialize)]
    pub struct Step {
        /// the handler advertises this list from now on (None = unchanged)
        pub local: Option<Vec<u8>>,
        /// reports the handler returns from consecutive `poll` calls (no `Pending` in between)
        pub remote: Vec<Report>,
        /// reports the handler queues the moment it receives a `LocalProtocolsChange`
        pub reply: Vec<Report>,
    }

    #[derive(Clone, Debug, Serialize, Deserialize)]
    pub struct Case {
        pub initial: Vec<u8>,
        /// reports already queued when the connection is polled for the first time
        pub first: Vec<Report>,
        pub steps: Vec<Step>,
    }

    #[derive(Clone, Debug, PartialEq, Eq, Serialize)]
    enum Seen {
        Local(bool, Vec<String>),
        Remote(bool, Vec<String>),
    }

    #[derive(Default)]
    struct Shared {
        protocols: Vec<String>,
        queue: VecDeque<Report>,
        reply: VecDeque<Report>,
        /// reports in the order the handler returned them
        returned: Vec<(bool, Vec<String>)>,
        seen: Vec<Seen>,
        replied: bool,
    }

    struct H11(Arc<Mutex<Shared>>);

    fn set_of(v: &[u8]) -> HashSet<StreamProtocol> {
        names(v).into_iter().filter_map(|n| StreamProtocol::try_from_owned(n).ok()).collect()
    }

    impl ConnectionHandler for H11 {
        type FromBehaviour = Infallible;
        type ToBehaviour = Infallible;
        type InboundProtocol = ProbeUpgrade;
        type OutboundProtocol = ProbeUpgrade;
        type InboundOpenInfo = ();
        type OutboundOpenInfo = ();

        fn listen_protocol(&self) -> SubstreamProtocol<ProbeUpgrade, ()> {
            SubstreamProtocol::new(ProbeUpgrade { names: self.0.lock().unwrap().protocols.clone() }, ())
        }
        fn connection_keep_alive(&self) -> bool {
            true
        }
        fn poll(&mut self, _: &mut Context<'_>) -> Poll<ConnectionHandlerEvent<ProbeUpgrade, (), Infallible>> {
            let mut g = self.0.lock().unwrap();
            if let Some((added, v)) = g.queue.pop_front() {
                let set = set_of(&v);
                let mut ns: Vec<String> = set.iter().map(|p| p.as_ref().to_string()).collect();
                ns.sort();
                g.returned.push((added, ns));
                return Poll::Ready(ConnectionHandlerEvent::ReportRemoteProtocols(if added { ProtocolSupport::Added(set) } else { ProtocolSupport::Removed(set) }));
            }
            Poll::Pending
        }
        fn on_behaviour_event(&mut self, ev: Infallible) {
            match ev {}
        }
        fn on_connection_event(&mut self, event: ConnectionEvent<ProbeUpgrade, ProbeUpgrade, (), ()>) {
            let mut g = self.0.lock().unwrap();
            let sorted = |it: &mut dyn Iterator<Item = String>| {
                let mut v: Vec<String> = it.collect();
                v.sort();
                v
            };
            match event {
                ConnectionEvent::LocalProtocolsChange(c) => {
                    let s = match c {
                        ProtocolsChange::Added(a) => Seen::Local(true, sorted(&mut a.map(|p| p.as_ref().to_string()))),
                        ProtocolsChange::Removed(r) => Seen::Local(false, sorted(&mut r.map(|p| p.as_ref().to_string()))),
                    };
                    g.seen.push(s);
                    if !g.reply.is_empty() {
                        g.replied = true;
                        let r: Vec<Report> = g.reply.drain(..).collect();
                        g.queue.extend(r);
                    }
                }
                ConnectionEvent::RemoteProtocolsChange(c) => {
                    let s = match c {
                        ProtocolsChange::Added(a) => Seen::Remote(true, sorted(&mut a.map(|p| p.as_ref().to_string()))),
                        ProtocolsChange::Removed(r) => Seen::Remote(false, sorted(&mut r.map(|p| p.as_ref().to_string()))),
                    };
                    g.seen.push(s);
                }
                _ => {}
            }
        }
    }

    thread_local! {
        static REMOTE: std::cell::RefCell<Vec<SimMuxer>> = const { std::cell::RefCell::new(Vec::new()) };
    }

    pub fn check(c: &Case) -> Outcome {
        let out = check_inner(c);
        REMOTE.with(|r| r.borrow_mut().clear());
        out
    }

    fn check_inner(c: &Case) -> Outcome {
        let sh = Arc::new(Mutex::new(Shared { protocols: names(&c.initial), queue: c.first.iter().cloned().collect(), ..Default::default() }));
        let ((ma, _ca), (mb, _cb)) = mux_pair();
        REMOTE.with(|r| r.borrow_mut().push(mb));
        let mut conn = Conn::new(boxed(ma), H11(sh.clone()), 8, Duration::from_secs(3600));
        let w = noop_waker();
        let mut cx = Context::from_waker(&w);
        let mut lfold: BTreeSet<String> = BTreeSet::new();
        let mut rfold: BTreeSet<String> = BTreeSet::new();
        let mut rwant: BTreeSet<String> = BTreeSet::new();
        let mut folded = 0usize;
        let mut applied = 0usize;
        let mut labels: Vec<&'static str> = vec![];
        let mut nontrivial = false;
        let mut prev_local: BTreeSet<String> = names(&c.initial).into_iter().filter(|n| valid(n)).collect();
        let n_steps = c.steps.len();
        for k in 0..=n_steps {
            // step 0 is the first poll of the fresh connection (initial list, `first` reports)
            let mut step_desc = json!("first poll");
            if k > 0 {
                let st = &c.steps[k - 1];
                let mut g = sh.lock().unwrap();
                if let Some(l) = &st.local {
                    g.protocols = names(l);
                }
                g.queue.extend(st.remote.iter().cloned());
                g.reply = st.reply.iter().cloned().collect();
                g.replied = false;
                step_desc = json!({"local": st.local.as_ref().map(|l| names(l)), "remote": st.remote.iter().map(|(a, v)| (a, names(v))).collect::<Vec<_>>(), "reply": st.reply.iter().map(|(a, v)| (a, names(v))).collect::<Vec<_>>()});
            }
            let mut quiescent = false;
            for _ in 0..64 {
                match conn.poll(&mut cx) {
                    ConnPoll::Pending => {
                        quiescent = true;
                        break;
                    }
                    ConnPoll::Closed(e) => return Outcome::Inconclusive(format!("connection closed: {e}")),
                    ConnPoll::Handler(v) => match v {},
                    ConnPoll::AddressChange(_) => {}
                }
            }
            if !quiescent {
                return Outcome::Inconclusive("connection did not become quiescent".into());
            }
            let g = sh.lock().unwrap();
            // reference: apply the reports in the order the handler returned them
            let mut effective: Vec<(bool, bool)> = vec![]; // (is_added, changed something) of this poll
            for (added, ns) in &g.returned[applied..] {
                let before = rwant.len();
                if *added {
                    rwant.extend(ns.iter().cloned());
                } else {
                    for n in ns {
                        rwant.remove(n);
                    }
                }
                effective.push((*added, rwant.len() != before));
            }
            applied = g.returned.len();
            let mut mixed = false;
            for s in &g.seen[folded..] {
                match s {
                    Seen::Local(true, ns) => lfold.extend(ns.iter().cloned()),
                    Seen::Local(false, ns) => {
                        for n in ns {
                            lfold.remove(n);
                        }
                    }
                    Seen::Remote(true, ns) => rfold.extend(ns.iter().cloned()),
                    Seen::Remote(false, ns) => {
                        for n in ns {
                            rfold.remove(n);
                        }
                    }
                }
                mixed = true;
            }
            let _ = mixed;
            let new_events: Vec<Seen> = g.seen[folded..].to_vec();
            folded = g.seen.len();
            let lwant: BTreeSet<String> = g.protocols.iter().filter(|n| valid(n)).cloned().collect();
            let has_dup = {
                let mut s = BTreeSet::new();
                g.protocols.iter().any(|n| !s.insert(n.clone()))
            };
            if lfold != lwant {
                let sig = if has_dup { "C11:connection-local-fold-wrong-with-duplicate" } else { "C11:connection-local-fold-wrong" };
                return Outcome::fail(sig, json!({"step": k, "input": step_desc, "advertised": g.protocols, "fold": lfold, "expected": lwant, "events_this_poll": new_events}));
            }
            if rfold != rwant {
                let in_one_poll = effective.len() >= 2;
                let sig = if in_one_poll { "C11:connection-remote-fold-wrong-after-several-reports-in-one-poll" } else { "C11:connection-remote-fold-wrong" };
                return Outcome::fail(sig, json!({"step": k, "input": step_desc, "reports_returned_this_poll": effective.len(), "fold": rfold, "expected": rwant, "events_this_poll": new_events}));
            }
            if effective.windows(2).any(|w| !w[0].0 && w[0].1 && w[1].0 && w[1].1) {
                labels.push("removed_then_added_in_one_poll");
                nontrivial = true;
            }
            if effective.len() >= 2 {
                labels.push("several_reports_in_one_poll");
            }
            if g.replied {
                labels.push("remote_report_in_reply_to_local_change");
                nontrivial = true;
            }
            if k == 0 && !effective.is_empty() {
                labels.push("report_on_first_poll");
            }
            if has_dup && lwant != prev_local {
                labels.push("dup_and_change_step");
            }
            if lwant.len() < prev_local.len() {
                labels.push("shrink_step");
            }
            prev_local = lwant;
        }
        let _ = NAMES;
        labels.sort();
        labels.dedup();
        Outcome::pass_l(nontrivial, labels)
    }

    fn report() -> impl Strategy<Value = Report> {
        (any::<bool>(), proptest::collection::vec(0u8..8, 0..4))
    }

    pub fn strategy() -> BoxedStrategy<Case> {
        let step = (proptest::option::weighted(0.5, super::list()), proptest::collection::vec(report(), 0..4), proptest::collection::vec(report(), 0..2)).prop_map(|(local, remote, reply)| Step { local, remote, reply });
        (super::list(), proptest::collection::vec(report(), 0..3), proptest::collection::vec(step, 0..8)).prop_map(|(initial, first, steps)| Case { initial, first, steps }).boxed()
    }
}

fn list() -> impl Strategy<Value = Vec<u8>> {
    proptest::collection::vec(0u8..8, 0..7)
}

pub fn run_pure(ctx: &mut Ctx) {
    ctx.check::<Case>(
        "helpers",
        "initial list + up to 12 advertised lists over 6 valid + 2 invalid names (duplicates, growth, shrink, add+remove) and up to 8 remote add/remove reports, through the real ProtocolsChange helpers with Connection's state kept across calls; non-trivial = a step whose list has a duplicate and whose valid-name set differs from the previous one; distinct by case hash",
        ctx.n(60_000, 2_000_000),
        &|| (list(), proptest::collection::vec(list(), 0..12), proptest::collection::vec((any::<bool>(), list()), 0..8)).prop_map(|(initial, updates, remote)| Case { initial, updates, remote }).boxed(),
        &check,
    );
    ctx.assume("the connection sub-check drives the real Connection through hook swarm::verif::Conn over a simulated muxer; the handler is scripted by the harness (advertised list, batches of ReportRemoteProtocols) and records the Local/RemoteProtocolsChange events it receives");
    ctx.check::<conn::Case>(
        "connection",
        "a real Connection with a scripted handler: initial list, reports queued before the first poll, then up to 8 steps {new advertised list?, 0..3 remote reports returned by consecutive handler polls, 0..1 reports queued the moment a LocalProtocolsChange arrives}, the connection polled to Pending after each; after every poll the fold of LocalProtocolsChange equals the valid advertised names and the fold of RemoteProtocolsChange equals the reports returned so far applied in order. non-trivial = an effective Removed directly followed by an effective Added within one poll, or a remote report made in reply to a local change; distinct by case hash",
        ctx.n(40_000, 1_200_000),
        &conn::strategy,
        &conn::check,
    );
}
