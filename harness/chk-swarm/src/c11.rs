//! C11 — protocol-change notifications track the advertised protocol sets.
//! Layer (i): the real from_initial_protocols / from_full_sets / add / remove through the swarm::verif shims,
//! with the state kept across calls exactly as `Connection` keeps it.
//! Layer (ii) (world, real Connection + handler) lives in c11w.rs.
use libp2p_swarm::StreamProtocol;
use proptest::prelude::*;
use serde::{Deserialize, Serialize};
use serde_json::json;
use std::collections::{BTreeSet, HashSet};
use vcore::{Ctx, Outcome};

pub const NAMES: &[&str] = &["/a/1", "/b/1", "/c/2.0.0", "/d", "/e/long/name", "/f", "no-slash", ""];

#[derive(Clone, Debug, Serialize, Deserialize)]
pub struct Case {
    initial: Vec<u8>,
    updates: Vec<Vec<u8>>,
    remote: Vec<(bool, Vec<u8>)>,
}

fn valid(n: &str) -> bool {
    n.starts_with('/')
}

fn names(v: &[u8]) -> Vec<String> {
    v.iter().map(|i| NAMES[*i as usize % NAMES.len()].to_string()).collect()
}

fn check(c: &Case) -> Outcome {
    let mut nontrivial = false;
    let mut labels = vec![];
    // local
    let init = names(&c.initial);
    let (mut lp, first) = libp2p_swarm::verif::LocalProtocols::new(init.clone());
    let mut fold: BTreeSet<String> = BTreeSet::new();
    if let Some(a) = first {
        fold.extend(a);
    }
    let want = |l: &[String]| -> BTreeSet<String> { l.iter().filter(|n| valid(n)).cloned().collect() };
    if fold != want(&init) {
        return Outcome::fail("C11:initial-protocols-wrong", json!({"list": init, "fold": fold}));
    }
    let mut prev = want(&init);
    for (k, u) in c.updates.iter().enumerate() {
        let list = names(u);
        let has_dup = {
            let mut s = BTreeSet::new();
            list.iter().any(|n| !s.insert(n.clone()))
        };
        let changes = lp.update(list.clone());
        for (added, ns) in &changes {
            for n in ns {
                if *added {
                    fold.insert(n.clone());
                } else {
                    fold.remove(n);
                }
            }
        }
        let w = want(&list);
        if fold != w {
            let shrink = w.len() < prev.len();
            let sig = if has_dup && shrink { "C11:removal-missed-when-list-has-duplicate" } else if has_dup { "C11:local-fold-wrong-with-duplicate" } else { "C11:local-fold-wrong" };
            return Outcome::fail(sig, json!({"step": k, "list": list, "previous_set": prev, "fold": fold, "expected": w, "changes": changes}));
        }
        if has_dup && w != prev {
            nontrivial = true;
        }
        if has_dup {
            labels.push("dup_step");
        }
        if w.len() < prev.len() {
            labels.push("shrink_step");
        }
        prev = w;
    }
    // remote
    let mut existing: HashSet<StreamProtocol> = HashSet::new();
    let mut rfold: BTreeSet<String> = BTreeSet::new();
    let mut rwant: BTreeSet<String> = BTreeSet::new();
    for (k, (add, v)) in c.remote.iter().enumerate() {
        let set: HashSet<StreamProtocol> = names(v).into_iter().filter_map(|n| StreamProtocol::try_from_owned(n).ok()).collect();
        let as_names: BTreeSet<String> = set.iter().map(|p| p.as_ref().to_string()).collect();
        if *add {
            if let Some(a) = libp2p_swarm::verif::remote_add(&mut existing, set) {
                for p in a {
                    rfold.insert(p.as_ref().to_string());
                }
            }
            rwant.extend(as_names);
        } else {
            if let Some(r) = libp2p_swarm::verif::remote_remove(&mut existing, set) {
                for p in r {
                    rfold.remove(p.as_ref());
                }
            }
            for n in &as_names {
                rwant.remove(n);
            }
        }
        let ex: BTreeSet<String> = existing.iter().map(|p| p.as_ref().to_string()).collect();
        if rfold != rwant || ex != rwant {
            return Outcome::fail("C11:remote-fold-wrong", json!({"step": k, "op": (add, names(v)), "fold": rfold, "tracked": ex, "expected": rwant}));
        }
    }
    if c.remote.len() >= 2 {
        labels.push("remote_ops");
    }
    labels.sort();
    labels.dedup();
    Outcome::pass_l(nontrivial, labels)
}

fn list() -> impl Strategy<Value = Vec<u8>> {
    proptest::collection::vec(0u8..8, 0..7)
}

pub fn run_pure(ctx: &mut Ctx) {
    ctx.check::<Case>(
        "helpers",
        "initial list + up to 12 advertised lists over 6 valid + 2 invalid names (duplicates, growth, shrink, add+remove) and up to 8 remote add/remove reports, through the real ProtocolsChange helpers with Connection's state kept across calls; non-trivial = a step whose list has a duplicate and whose valid-name set differs from the previous one; distinct by case hash",
        ctx.n(60_000, 2_000_000),
        &|| (list(), proptest::collection::vec(list(), 0..12), proptest::collection::vec((any::<bool>(), list()), 0..8)).prop_map(|(initial, updates, remote)| Case { initial, updates, remote }).boxed(),
        &check,
    );
}
