//! C08 — concurrent dialing respects the concurrency factor and reports each failure.
//! The real ConcurrentDial / SmartDial futures (through swarm::verif) over harness-controlled dial futures.
use futures::channel::oneshot;
use futures::future::BoxFuture;
use futures::FutureExt;
use libp2p_core::transport::TransportError;
use libp2p_core::Multiaddr;
use libp2p_swarm::verif::{DialFuture, DialResult};
use multiaddr::Protocol;
use proptest::prelude::*;
use serde::{Deserialize, Serialize};
use serde_json::json;
use std::collections::BTreeMap;
use std::num::NonZeroU8;
use std::sync::atomic::{AtomicBool, AtomicU32, Ordering};
use std::sync::Arc;
use std::task::{Context, Poll};
use vcore::{gen, Ctx, Outcome};

#[derive(Clone, Copy, Debug, PartialEq, Eq, Serialize, Deserialize)]
pub enum Out {
    Ok,
    Err,
    Never,
}

#[derive(Clone, Debug, Serialize, Deserialize)]
pub struct Case {
    k: u8,
    outcomes: Vec<Out>,
    /// order in which outcomes are released (indices into outcomes, scaled); one poll after each release
    order: Vec<u16>,
    /// release this many outcomes before the first poll (0 = poll first)
    batch_first: u8,
}

struct Ctl {
    tx: Option<oneshot::Sender<bool>>,
    polled: Arc<AtomicBool>,
    polls: Arc<AtomicU32>,
    dropped: Arc<AtomicBool>,
}

struct Guard(Arc<AtomicBool>);
impl Drop for Guard {
    fn drop(&mut self) {
        self.0.store(true, Ordering::SeqCst);
    }
}

fn addr(i: usize) -> Multiaddr {
    Multiaddr::empty().with(Protocol::Memory(9000 + i as u64))
}

fn make_dial(i: usize) -> (DialFuture, Ctl) {
    let (tx, rx) = oneshot::channel::<bool>();
    let polled = Arc::new(AtomicBool::new(false));
    let polls = Arc::new(AtomicU32::new(0));
    let dropped = Arc::new(AtomicBool::new(false));
    let (p2, n2, g) = (polled.clone(), polls.clone(), Guard(dropped.clone()));
    let a = addr(i);
    let mut rx = rx;
    let fut: DialFuture = futures::future::poll_fn(move |cx| {
        let _keep = &g;
        p2.store(true, Ordering::SeqCst);
        n2.fetch_add(1, Ordering::SeqCst);
        match rx.poll_unpin(cx) {
            Poll::Ready(Ok(true)) => {
                let ((m, _c), (m2, _c2)) = simswarm::net::mux_pair();
                std::mem::forget(m2); // the remote end stays alive; irrelevant here
                Poll::Ready((a.clone(), Ok((gen::peer(5), simswarm::net::boxed(m)))))
            }
            Poll::Ready(Ok(false)) => Poll::Ready((a.clone(), Err(TransportError::Other(std::io::Error::other("scripted"))))),
            Poll::Ready(Err(_)) => Poll::Ready((a.clone(), Err(TransportError::Other(std::io::Error::other("abandoned"))))),
            Poll::Pending => Poll::Pending,
        }
    })
    .boxed();
    (fut, Ctl { tx: Some(tx), polled, polls, dropped })
}

fn poll_once(f: &mut BoxFuture<'static, DialResult>) -> Option<DialResult> {
    let w = futures::task::noop_waker();
    let mut cx = Context::from_waker(&w);
    match f.as_mut().poll(&mut cx) {
        Poll::Ready(r) => Some(r),
        Poll::Pending => None,
    }
}

fn multiset(v: impl Iterator<Item = String>) -> BTreeMap<String, usize> {
    let mut m = BTreeMap::new();
    for x in v {
        *m.entry(x).or_default() += 1;
    }
    m
}

fn check(c: &Case) -> Outcome {
    let n = c.outcomes.len();
    let k = c.k.clamp(1, 8) as usize;
    let mut ctls = vec![];
    let mut dials = vec![];
    for i in 0..n {
        let (f, ctl) = make_dial(i);
        dials.push((addr(i), f));
        ctls.push(ctl);
    }
    let mut fut = libp2p_swarm::verif::concurrent_dial(dials, NonZeroU8::new(k as u8).unwrap());
    // model
    let mut started: Vec<bool> = vec![false; n];
    let mut released: Vec<bool> = vec![false; n];
    let mut done: Vec<bool> = vec![false; n];
    let mut next_pending = 0usize;
    let mut errors_model: Vec<usize> = vec![];
    let mut result_model: Option<Result<usize, ()>> = None;
    let mut ambiguous = false;
    let start_next = |started: &mut Vec<bool>, next_pending: &mut usize| -> Option<usize> {
        if *next_pending < n {
            started[*next_pending] = true;
            *next_pending += 1;
            Some(*next_pending - 1)
        } else {
            None
        }
    };
    for _ in 0..k.min(n) {
        start_next(&mut started, &mut next_pending);
    }
    // process completions of started+released dials until fixpoint (what one poll of the real future does)
    let settle_model = |started: &mut Vec<bool>, released: &Vec<bool>, done: &mut Vec<bool>, next_pending: &mut usize, errors_model: &mut Vec<usize>, result_model: &mut Option<Result<usize, ()>>, ambiguous: &mut bool| {
        loop {
            if result_model.is_some() {
                return;
            }
            let ready: Vec<usize> = (0..n).filter(|i| started[*i] && released[*i] && !done[*i] && c.outcomes[*i] != Out::Never).collect();
            if ready.is_empty() {
                if (0..n).all(|i| !started[i] || done[i]) && *next_pending >= n {
                    *result_model = Some(Err(()));
                }
                return;
            }
            if ready.len() > 1 && ready.iter().any(|i| c.outcomes[*i] == Out::Ok) {
                // several completions visible to the same poll and one of them is a success: which one the
                // real future reports first is unspecified → only the validity predicate applies
                *ambiguous = true;
            }
            let i = ready[0];
            done[i] = true;
            match c.outcomes[i] {
                Out::Ok => {
                    *result_model = Some(Ok(i));
                }
                Out::Err => {
                    errors_model.push(i);
                    if *next_pending < n {
                        started[*next_pending] = true;
                        *next_pending += 1;
                    }
                }
                Out::Never => {}
            }
        }
    };
    let mut real: Option<DialResult> = None;
    let mut max_inflight = 0usize;
    let mut steps: Vec<Option<usize>> = vec![];
    // release schedule: distinct indices in generated order
    let mut remaining: Vec<usize> = (0..n).collect();
    let mut releases: Vec<usize> = vec![];
    for p in &c.order {
        if remaining.is_empty() {
            break;
        }
        let j = vcore::pick(*p, remaining.len());
        releases.push(remaining.remove(j));
    }
    let batch = c.batch_first as usize;
    let mut rounds: Vec<Option<usize>> = vec![];
    if batch == 0 {
        rounds.push(None);
    }
    rounds.extend(releases.iter().map(|i| Some(*i)));
    rounds.push(None);
    let mut released_count = 0usize;
    for r in rounds {
        if let Some(i) = r {
            released[i] = true;
            released_count += 1;
            if c.outcomes[i] != Out::Never {
                if let Some(tx) = ctls[i].tx.take() {
                    let _ = tx.send(c.outcomes[i] == Out::Ok);
                }
            }
            steps.push(Some(i));
            if released_count < batch {
                continue;
            }
        } else {
            steps.push(None);
        }
        if real.is_none() {
            real = poll_once(&mut fut);
            settle_model(&mut started, &released, &mut done, &mut next_pending, &mut errors_model, &mut result_model, &mut ambiguous);
        }
        let inflight = (0..n).filter(|i| ctls[*i].polled.load(Ordering::SeqCst) && !ctls[*i].dropped.load(Ordering::SeqCst)).count();
        max_inflight = max_inflight.max(inflight);
        if inflight > k {
            return Outcome::fail("C08:more-than-k-dials-in-flight", json!({"k": k, "in_flight": inflight, "steps": steps}));
        }
        if !ambiguous && real.is_none() {
            for i in 0..n {
                if ctls[i].polled.load(Ordering::SeqCst) != started[i] {
                    return Outcome::fail("C08:attempted-set-differs-from-model", json!({"k": k, "address": i, "polled": ctls[i].polled.load(Ordering::SeqCst), "model_started": started[i], "steps": steps}));
                }
            }
        }
    }
    let attempted: Vec<usize> = (0..n).filter(|i| ctls[*i].polled.load(Ordering::SeqCst)).collect();
    let scripted = |i: usize| c.outcomes[i];
    let idx_of = |a: &Multiaddr| -> usize {
        match a.iter().next() {
            Some(Protocol::Memory(p)) => (p - 9000) as usize,
            _ => usize::MAX,
        }
    };
    let mut labels = vec![];
    match (&real, &result_model) {
        (None, None) => {
            labels.push("still_pending");
        }
        (Some(Ok((a, _, errs))), m) => {
            let w = idx_of(a);
            if scripted(w) != Out::Ok || !released[w] || !attempted.contains(&w) {
                return Outcome::fail("C08:success-reported-for-address-that-did-not-succeed", json!({"winner": w, "outcomes": format!("{:?}", c.outcomes), "steps": steps}));
            }
            let got = multiset(errs.iter().map(|(a, _)| a.to_string()));
            for (a, cnt) in &got {
                let i = idx_of(&a.parse().unwrap());
                if *cnt != 1 || scripted(i) != Out::Err || !released[i] || !attempted.contains(&i) {
                    return Outcome::fail("C08:bad-error-list-on-success", json!({"errors": got, "steps": steps}));
                }
            }
            if !ambiguous {
                if *m != Some(Ok(w)) {
                    return Outcome::fail("C08:winner-differs-from-model", json!({"winner": w, "model": format!("{m:?}"), "steps": steps}));
                }
                let want = multiset(errors_model.iter().map(|i| addr(*i).to_string()));
                if got != want {
                    return Outcome::fail("C08:errors-before-success-differ-from-model", json!({"errors": got, "model": want, "steps": steps}));
                }
            }
            labels.push("ok");
        }
        (Some(Err(errs)), m) => {
            let got = multiset(errs.iter().map(|(a, _)| a.to_string()));
            let want = multiset((0..n).map(|i| addr(i).to_string()));
            if got != want {
                return Outcome::fail("C08:failed-dial-does-not-list-every-address-once", json!({"errors": got, "all": want, "steps": steps}));
            }
            if (0..n).any(|i| scripted(i) != Out::Err) {
                return Outcome::fail("C08:failure-reported-although-an-address-did-not-fail", json!({"outcomes": format!("{:?}", c.outcomes), "steps": steps}));
            }
            if !ambiguous && *m != Some(Err(())) {
                return Outcome::fail("C08:failure-differs-from-model", json!({"model": format!("{m:?}"), "steps": steps}));
            }
            labels.push("all_failed");
        }
        (None, Some(m)) => {
            if !ambiguous {
                return Outcome::fail("C08:dial-did-not-complete-although-model-did", json!({"model": format!("{m:?}"), "outcomes": format!("{:?}", c.outcomes), "steps": steps}));
            }
        }
    }
    for ctl in &ctls {
        let _ = ctl.polls.load(Ordering::SeqCst);
    }
    if n > k {
        labels.push("n>k");
    }
    let failure_before = !errors_model.is_empty();
    if max_inflight == k && n > k {
        labels.push("window_full");
    }
    Outcome::pass_l(n > k && failure_before, labels)
}

fn case() -> impl Strategy<Value = Case> {
    (1u8..=8, proptest::collection::vec(prop_oneof![3 => Just(Out::Err), 1 => Just(Out::Ok), 1 => Just(Out::Never)], 0..=12), 0u8..3)
        .prop_flat_map(|(k, outcomes, batch_first)| {
            let n = outcomes.len();
            (Just(k), Just(outcomes), proptest::collection::vec(any::<u16>(), 0..=n), Just(batch_first))
        })
        .prop_map(|(k, outcomes, order, batch_first)| Case { k, outcomes, order, batch_first })
}

// ---------------------------------------------------------------------------------------------
// smart dialing (real delays; private addresses only so that the whole dial takes < 0.5 s)

#[derive(Clone, Debug, Serialize, Deserialize)]
pub struct SmartCase {
    outcomes: Vec<Out>,
    quic: Vec<bool>,
}

fn check_smart(c: &SmartCase) -> Outcome {
    let n = c.outcomes.len();
    let mut ctls = vec![];
    let mut dials = vec![];
    let mut addrs = vec![];
    for i in 0..n {
        let (f, ctl) = make_dial(i);
        // ranked address (private ip) is only the label given to SmartDial; the future reports the memory address
        let a = if c.quic.get(i).copied().unwrap_or(false) {
            Multiaddr::empty().with(Protocol::Ip4([10, 0, 0, 1 + i as u8].into())).with(Protocol::Udp(4001)).with(Protocol::QuicV1)
        } else {
            Multiaddr::empty().with(Protocol::Ip4([10, 0, 0, 1 + i as u8].into())).with(Protocol::Tcp(4001))
        };
        addrs.push(a.clone());
        dials.push((a, f));
        ctls.push(ctl);
    }
    // release everything up front: each dial completes as soon as SmartDial starts it
    for (i, ctl) in ctls.iter_mut().enumerate() {
        if c.outcomes[i] != Out::Never {
            if let Some(tx) = ctl.tx.take() {
                let _ = tx.send(c.outcomes[i] == Out::Ok);
            }
        }
    }
    let fut = libp2p_swarm::verif::smart_dial(dials);
    let ex = vcore::simexec::Exec::new();
    let slot = vcore::simexec::Slot::new();
    let s2 = slot.clone();
    ex.spawn(async move {
        s2.set(fut.await);
    });
    let done = ex.drain_until(100_000, std::time::Duration::from_millis(1500), &mut || slot.is_set());
    let has_never = c.outcomes.iter().any(|o| *o == Out::Never);
    let any_ok = c.outcomes.iter().any(|o| *o == Out::Ok);
    let res = slot.take();
    for (i, ctl) in ctls.iter().enumerate() {
        let _ = (i, ctl.polls.load(Ordering::SeqCst));
    }
    match res {
        None => {
            if !has_never && done {
                return Outcome::fail("C08:smart-dial-did-not-complete", json!({"outcomes": format!("{:?}", c.outcomes)}));
            }
            if !has_never {
                return Outcome::Inconclusive("smart dial did not complete within 1.5 s".into());
            }
            Outcome::pass_l(false, vec!["smart_pending"])
        }
        Some(Ok((a, _, errs))) => {
            let w = match a.iter().next() {
                Some(Protocol::Memory(p)) => (p - 9000) as usize,
                _ => usize::MAX,
            };
            if w >= n || c.outcomes[w] != Out::Ok {
                return Outcome::fail("C08:smart-success-for-address-that-did-not-succeed", json!({"winner": w}));
            }
            let got = multiset(errs.iter().map(|(a, _)| a.to_string()));
            if got.values().any(|c| *c != 1) {
                return Outcome::fail("C08:smart-address-reported-twice", json!({"errors": got}));
            }
            Outcome::pass_l(!errs.is_empty(), vec!["smart_ok"])
        }
        Some(Err(errs)) => {
            let got = multiset(errs.iter().map(|(a, _)| a.to_string()));
            let want = multiset((0..n).map(|i| addr(i).to_string()));
            if got != want || any_ok {
                return Outcome::fail("C08:smart-failed-dial-does-not-list-every-address-once", json!({"errors": got, "all": want}));
            }
            Outcome::pass_l(n >= 2, vec!["smart_all_failed"])
        }
    }
}

pub fn run(ctx: &mut Ctx) {
    ctx.assume("dial futures are harness objects that record their first poll and completion; 'attempted' = polled at least once; when several completions (one of them a success) become visible to the same poll the winner is unspecified and only the validity predicate is asserted");
    ctx.check::<Case>(
        "concurrent",
        "N in 0..12 addresses, factor k in 1..8, per-address outcome ok/err/never, generated release order with one poll of the real ConcurrentDial after each release (optionally a first batch); exact reference model + validity predicate; non-trivial = N > k and >=1 failure before the outcome; distinct by case hash",
        ctx.n(40_000, 1_500_000),
        &|| case().boxed(),
        &check,
    );
    ctx.check::<SmartCase>(
        "smart",
        "SmartDial over 1..5 private-IP addresses (QUIC/TCP mix), outcomes available immediately, real ranked delays (<= ~200 ms); every address reported at most once, all exactly once on failure; non-trivial = >=2 addresses and a failure",
        ctx.n(160, 3_000),
        &|| {
            (1usize..=5)
                .prop_flat_map(|n| (proptest::collection::vec(prop_oneof![4 => Just(Out::Err), 1 => Just(Out::Ok)], n), proptest::collection::vec(any::<bool>(), n)))
                .prop_map(|(outcomes, quic)| SmartCase { outcomes, quic })
                .boxed()
        },
        &check_smart,
    );
}
