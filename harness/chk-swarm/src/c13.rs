//! C13 — observed-address translation only swaps the host component.
use proptest::prelude::*;
use serde::{Deserialize, Serialize};
use vcore::gen::{build_addr, Comp};
use vcore::runner::LANES;
use vcore::{ensure, Ctx, Outcome};

#[derive(Clone, Debug, Serialize, Deserialize)]
pub struct Case {
    original: Vec<Comp>,
    observed: Vec<Comp>,
}

fn eligible(c: &Comp) -> bool {
    matches!(c, Comp::Ip4(_) | Comp::Ip6(_) | Comp::Dns(_) | Comp::Dns4(_) | Comp::Dns6(_))
}

fn check(case: &Case) -> Outcome {
    let original = build_addr(&case.original);
    let observed = build_addr(&case.observed);
    let got = libp2p_swarm::_address_translation(&original, &observed);
    // reference on component vectors
    let expect = match (case.original.first(), case.observed.first()) {
        (Some(o), Some(b)) if eligible(o) && eligible(b) => {
            let mut v = vec![b.clone()];
            v.extend_from_slice(&case.original[1..]);
            Some(build_addr(&v))
        }
        _ => None,
    };
    let both = expect.is_some();
    ensure!(
        got == expect,
        if both { "C13:wrong-translation" } else { "C13:translated-ineligible" },
        serde_json::json!({"original": original.to_string(), "observed": observed.to_string(),
            "got": got.map(|g| g.to_string()), "expected": expect.map(|g| g.to_string())})
    );
    let nontrivial = both && case.original[0] != case.observed[0];
    let mut labels = vec![];
    if both {
        labels.push("both_eligible");
    } else {
        labels.push("expect_none");
    }
    if case.original.len() > 1 {
        labels.push("has_tail");
    }
    if both && matches!(case.observed.first(), Some(Comp::Dns(_))) {
        labels.push("observed_head_plain_dns");
    }
    if both && case.original[1..].iter().any(eligible) {
        labels.push("original_with_later_host_component");
    }
    Outcome::pass_l(nontrivial, labels)
}

/// 14-symbol alphabet for the exhaustive sweep
fn alphabet() -> Vec<Comp> {
    vec![
        Comp::Ip4([192, 0, 2, 1]),
        Comp::Ip4([10, 0, 0, 7]),
        Comp::Ip6([0x2001, 0xdb8, 0, 0, 0, 0, 0, 1]),
        Comp::Dns("foo".into()),
        Comp::Dns4("bar".into()),
        Comp::Dns6("baz.example".into()),
        Comp::Tcp(1),
        Comp::Tcp(4001),
        Comp::Udp(2),
        Comp::QuicV1,
        Comp::P2p(0),
        Comp::P2p(1),
        Comp::Memory(3),
        Comp::P2pCircuit,
    ]
}

fn seqs(alpha: &[Comp], max_len: usize) -> Vec<Vec<Comp>> {
    let mut out: Vec<Vec<Comp>> = vec![vec![]];
    let mut layer: Vec<Vec<Comp>> = vec![vec![]];
    for _ in 0..max_len {
        let mut next = vec![];
        for s in &layer {
            for c in alpha {
                let mut t = s.clone();
                t.push(c.clone());
                next.push(t);
            }
        }
        out.extend(next.iter().cloned());
        layer = next;
    }
    out
}

fn c13_comp() -> impl Strategy<Value = Comp> {
    // the statement's alphabet: IP4/IP6/DNS/TCP/UDP/QUIC/P2P (+ memory / circuit as non-host heads)
    prop_oneof![
        3 => vcore::gen::ip_comp(),
        1 => any::<[u8; 4]>().prop_map(Comp::Ip4),
        1 => any::<[u16; 8]>().prop_map(Comp::Ip6),
        1 => "[a-z]{1,8}(\\.[a-z]{2,5})?".prop_map(Comp::Dns),
        1 => "[a-z]{1,8}".prop_map(Comp::Dns4),
        1 => "[a-z]{1,8}".prop_map(Comp::Dns6),
        2 => any::<u16>().prop_map(Comp::Tcp),
        2 => any::<u16>().prop_map(Comp::Udp),
        1 => Just(Comp::QuicV1),
        1 => Just(Comp::Quic),
        1 => (0u8..4).prop_map(Comp::P2p),
        1 => (0u64..5).prop_map(Comp::Memory),
        1 => Just(Comp::P2pCircuit),
        1 => Just(Comp::Ws),
    ]
}

pub fn run(ctx: &mut Ctx) {
    ctx.assume("Dnsaddr heads are outside the stated alphabet and are not generated");
    let max_len = ctx.tier.sel(2, 3);
    let all = seqs(&alphabet(), max_len);
    let n = all.len();
    ctx.sweep(
        "exhaustive",
        &format!("all ordered pairs of component sequences of length 0..={max_len} over a 14-symbol alphabet; non-trivial = both heads are IP/DNS and differ"),
        true,
        &|lane| {
            let all = all.clone();
            (0..n * n).skip(lane).step_by(LANES).map(move |i| Case { original: all[i / n].clone(), observed: all[i % n].clone() })
        },
        &check,
    );
    ctx.check(
        "random",
        "pairs of sequences of 0..6 components with generated IPs, names, ports; non-trivial = both heads are IP/DNS and differ; distinct by case hash",
        ctx.n(50_000, 2_000_000),
        &|| (proptest::collection::vec(c13_comp(), 0..6), proptest::collection::vec(c13_comp(), 0..6)).prop_map(|(original, observed)| Case { original, observed }).boxed(),
        &check,
    );
}
