//! C12 — listen and external address views equal the fold of their events.
use libp2p_core::transport::{ListenerId, TransportError};
use libp2p_core::Multiaddr;
use libp2p_identity::PeerId;
use libp2p_swarm::behaviour::{DialFailure, ExpiredListenAddr, ExternalAddrConfirmed, ExternalAddrExpired, NewExternalAddrOfPeer, NewListenAddr};
use libp2p_swarm::{ConnectionId, DialError, ExternalAddresses, FromSwarm, ListenAddresses, PeerAddresses, ToSwarm};
use multiaddr::Protocol;
use proptest::prelude::*;
use serde::{Deserialize, Serialize};
use serde_json::json;
use simswarm::probe::{Probe, ProbeScript};
use simswarm::world::{release_phantoms, Ev, World};
use std::collections::{BTreeMap, BTreeSet};
use std::num::NonZeroUsize;
use vcore::{gen, Ctx, Outcome};

// ------------------------------------------------------------------------------------------
// (a) helpers

#[derive(Clone, Debug, Serialize, Deserialize)]
pub enum HOp {
    ExtConfirmed(u8),
    ExtExpired(u8),
    NewListen(u8),
    ExpiredListen(u8),
    /// NewExternalAddrOfPeer(peer, addr, suffix: 0 none / 1 own / 2 foreign)
    PeerAddr(u8, u8, u8),
    /// DialFailure(Transport) for peer with failed addresses
    DialFailTransport(u8, Vec<(u8, u8)>),
    DialFailOther(u8),
    PAdd(u8, u8, u8),
    PRemove(u8, u8, u8),
    PGet(u8),
    /// events the helpers must ignore
    Unrelated(u8),
    /// n consecutive ExtConfirmed starting at s
    ExtBurst(u8, u8),
    /// n consecutive NewExternalAddrOfPeer for one peer
    PeerBurst(u8, u8, u8),
}

#[derive(Clone, Debug, Serialize, Deserialize)]
pub struct HCase {
    peers_cap: u8,
    ops: Vec<HOp>,
}

fn ea(i: u8) -> Multiaddr {
    Multiaddr::empty().with(Protocol::Ip4([1, 2, 3, i].into())).with(Protocol::Tcp(4001))
}
fn pa(i: u8, suffix: u8, peer: PeerId) -> Multiaddr {
    let mut a = Multiaddr::empty().with(Protocol::Memory(7000 + i as u64));
    match suffix {
        1 => a.push(Protocol::P2p(peer)),
        2 => a.push(Protocol::P2p(gen::peer(7))),
        _ => {}
    }
    a
}

/// reference model of PeerAddresses: MRU at the end
#[derive(Default)]
struct PModel {
    cap: usize,
    peers: Vec<(PeerId, Vec<Multiaddr>)>,
}

impl PModel {
    fn touch(&mut self, p: &PeerId) -> Option<usize> {
        let pos = self.peers.iter().position(|(q, _)| q == p)?;
        let e = self.peers.remove(pos);
        self.peers.push(e);
        Some(self.peers.len() - 1)
    }
    fn add(&mut self, p: PeerId, a: &Multiaddr) -> bool {
        let Ok(a) = a.clone().with_p2p(p) else { return false };
        if let Some(i) = self.touch(&p) {
            let inner = &mut self.peers[i].1;
            if let Some(k) = inner.iter().position(|x| *x == a) {
                let e = inner.remove(k);
                inner.push(e);
                false
            } else {
                inner.push(a);
                if inner.len() > 10 {
                    inner.remove(0);
                }
                true
            }
        } else {
            self.peers.push((p, vec![a]));
            if self.peers.len() > self.cap {
                self.peers.remove(0);
            }
            true
        }
    }
    fn remove(&mut self, p: &PeerId, a: &Multiaddr) -> bool {
        let Some(i) = self.touch(p) else { return false };
        let Ok(a) = a.clone().with_p2p(*p) else { return false };
        let inner = &mut self.peers[i].1;
        match inner.iter().position(|x| *x == a) {
            Some(k) => {
                inner.remove(k);
                true
            }
            None => false,
        }
    }
    fn get(&mut self, p: &PeerId) -> BTreeSet<String> {
        match self.touch(p) {
            Some(i) => self.peers[i].1.iter().map(|a| a.to_string()).collect(),
            None => BTreeSet::new(),
        }
    }
    fn contents(&self) -> BTreeMap<String, BTreeSet<String>> {
        self.peers.iter().filter(|(_, v)| !v.is_empty()).map(|(p, v)| (p.to_string(), v.iter().map(|a| a.to_string()).collect())).collect()
    }
}

fn check_helpers(c: &HCase) -> Outcome {
    // expand bursts
    let mut ops: Vec<HOp> = vec![];
    for op in &c.ops {
        match op {
            HOp::ExtBurst(s, n) => ops.extend((0..*n).map(|k| HOp::ExtConfirmed((s + k) % 25))),
            HOp::PeerBurst(p, s, n) => ops.extend((0..*n).map(|k| HOp::PeerAddr(*p, (s + k) % 13, 0))),
            o => ops.push(o.clone()),
        }
    }
    let c = &HCase { peers_cap: c.peers_cap, ops };
    let mut ext = ExternalAddresses::default();
    let mut ext_model: Vec<Multiaddr> = vec![]; // most recent first
    let mut lis = ListenAddresses::default();
    let mut lis_model: BTreeSet<Multiaddr> = BTreeSet::new();
    let cap = c.peers_cap.clamp(1, 3) as usize;
    let mut pad = PeerAddresses::new(NonZeroUsize::new(cap).unwrap());
    let mut pm = PModel { cap, peers: vec![] };
    let lid = ListenerId::next();
    let mut labels = vec![];
    let mut nontrivial = false;
    for (k, op) in c.ops.iter().enumerate() {
        // build the event (owned data first)
        let a_ext;
        let a_lis;
        let a_peer;
        let err;
        let peer;
        let (event, direct): (Option<FromSwarm>, Option<(bool, &'static str)>) = match op {
            HOp::ExtConfirmed(i) => {
                a_ext = ea(*i % 25);
                (Some(FromSwarm::ExternalAddrConfirmed(ExternalAddrConfirmed { addr: &a_ext })), None)
            }
            HOp::ExtExpired(i) => {
                a_ext = ea(*i % 25);
                (Some(FromSwarm::ExternalAddrExpired(ExternalAddrExpired { addr: &a_ext })), None)
            }
            HOp::NewListen(i) => {
                a_lis = ea(*i % 6);
                (Some(FromSwarm::NewListenAddr(NewListenAddr { listener_id: lid, addr: &a_lis })), None)
            }
            HOp::ExpiredListen(i) => {
                a_lis = ea(*i % 6);
                (Some(FromSwarm::ExpiredListenAddr(ExpiredListenAddr { listener_id: lid, addr: &a_lis })), None)
            }
            HOp::PeerAddr(p, i, s) => {
                peer = gen::peer(*p as usize % 4);
                a_peer = pa(*i % 13, *s % 3, peer);
                (Some(FromSwarm::NewExternalAddrOfPeer(NewExternalAddrOfPeer { peer_id: peer, addr: &a_peer })), None)
            }
            HOp::DialFailTransport(p, v) => {
                peer = gen::peer(*p as usize % 4);
                err = DialError::Transport(v.iter().map(|(i, s)| (pa(*i % 13, *s % 3, peer), TransportError::Other(std::io::Error::other("x")))).collect());
                (Some(FromSwarm::DialFailure(DialFailure { peer_id: Some(peer), error: &err, connection_id: ConnectionId::new_unchecked(1) })), None)
            }
            HOp::DialFailOther(p) => {
                peer = gen::peer(*p as usize % 4);
                err = DialError::Aborted;
                (Some(FromSwarm::DialFailure(DialFailure { peer_id: Some(peer), error: &err, connection_id: ConnectionId::new_unchecked(1) })), None)
            }
            HOp::Unrelated(i) => {
                a_ext = ea(*i % 25);
                (Some(FromSwarm::NewExternalAddrCandidate(libp2p_swarm::behaviour::NewExternalAddrCandidate { addr: &a_ext })), None)
            }
            HOp::PAdd(p, i, s) => {
                let peer = gen::peer(*p as usize % 4);
                let a = pa(*i % 13, *s % 3, peer);
                let got = pad.add(peer, a.clone());
                let want = pm.add(peer, &a);
                if got != want {
                    return Outcome::fail("C12:peer-addresses-add-return", json!({"step": k, "op": format!("{op:?}"), "got": got, "model": want}));
                }
                (None, Some((got, "add")))
            }
            HOp::PRemove(p, i, s) => {
                let peer = gen::peer(*p as usize % 4);
                let a = pa(*i % 13, *s % 3, peer);
                let got = pad.remove(&peer, &a);
                let want = pm.remove(&peer, &a);
                if got != want {
                    return Outcome::fail("C12:peer-addresses-remove-return", json!({"step": k, "op": format!("{op:?}"), "got": got, "model": want}));
                }
                (None, Some((got, "remove")))
            }
            HOp::ExtBurst(..) | HOp::PeerBurst(..) => unreachable!("expanded"),
            HOp::PGet(p) => {
                let peer = gen::peer(*p as usize % 4);
                let got: BTreeSet<String> = pad.get(&peer).map(|a| a.to_string()).collect();
                let want = pm.get(&peer);
                if got != want {
                    return Outcome::fail("C12:peer-addresses-get", json!({"step": k, "op": format!("{op:?}"), "got": got, "model": want}));
                }
                (None, None)
            }
        };
        let _ = direct;
        if let Some(ev) = event {
            // ExternalAddresses
            let before: BTreeSet<Multiaddr> = ext.iter().cloned().collect();
            let ch = ext.on_swarm_event(&ev);
            match &ev {
                FromSwarm::ExternalAddrConfirmed(e) => {
                    ext_model.retain(|x| x != e.addr);
                    ext_model.insert(0, e.addr.clone());
                    if ext_model.len() > 20 {
                        ext_model.pop();
                        labels.push("ext_capacity_eviction");
                        nontrivial = true;
                    }
                }
                FromSwarm::ExternalAddrExpired(e) => ext_model.retain(|x| x != e.addr),
                _ => {}
            }
            let after: BTreeSet<Multiaddr> = ext.iter().cloned().collect();
            if ext.as_slice() != ext_model.as_slice() {
                return Outcome::fail("C12:external-addresses-contents", json!({"step": k, "op": format!("{op:?}"), "got": ext.as_slice().iter().map(|a| a.to_string()).collect::<Vec<_>>(), "model": ext_model.iter().map(|a| a.to_string()).collect::<Vec<_>>()}));
            }
            if ch != (before != after) {
                return Outcome::fail("C12:external-addresses-changed-flag", json!({"step": k, "op": format!("{op:?}"), "changed": ch}));
            }
            // ListenAddresses
            let before: BTreeSet<Multiaddr> = lis.iter().cloned().collect();
            let ch = lis.on_swarm_event(&ev);
            match &ev {
                FromSwarm::NewListenAddr(e) => {
                    lis_model.insert(e.addr.clone());
                }
                FromSwarm::ExpiredListenAddr(e) => {
                    lis_model.remove(e.addr);
                }
                _ => {}
            }
            let after: BTreeSet<Multiaddr> = lis.iter().cloned().collect();
            if after != lis_model {
                return Outcome::fail("C12:listen-addresses-contents", json!({"step": k, "op": format!("{op:?}")}));
            }
            if ch != (before != after) {
                return Outcome::fail("C12:listen-addresses-changed-flag", json!({"step": k, "op": format!("{op:?}"), "changed": ch}));
            }
            // PeerAddresses
            let before = pm.contents();
            let ch = pad.on_swarm_event(&ev);
            match &ev {
                FromSwarm::NewExternalAddrOfPeer(e) => {
                    let n_before = pm.peers.len();
                    let had = pm.peers.iter().any(|(q, _)| *q == e.peer_id);
                    pm.add(e.peer_id, e.addr);
                    if !had && n_before == cap {
                        labels.push("peer_lru_eviction");
                        nontrivial = true;
                    }
                }
                FromSwarm::DialFailure(DialFailure { peer_id: Some(p), error: DialError::Transport(errs), .. }) => {
                    for (a, _) in errs {
                        pm.remove(p, a);
                    }
                }
                _ => {}
            }
            let after = pm.contents();
            if ch != (before != after) {
                let sig = if matches!(op, HOp::DialFailTransport(..)) { "C12:peer-addresses-changed-flag-on-dial-failure" } else { "C12:peer-addresses-changed-flag" };
                return Outcome::fail(sig, json!({"step": k, "op": format!("{op:?}"), "changed": ch, "contents_changed": before != after}));
            }
        }
        // compare PeerAddresses contents through the public getter (same touches in the model)
        for i in 0..4 {
            let peer = gen::peer(i);
            let got: BTreeSet<String> = pad.get(&peer).map(|a| a.to_string()).collect();
            let want = pm.get(&peer);
            if got != want {
                return Outcome::fail("C12:peer-addresses-contents", json!({"step": k, "op": format!("{op:?}"), "peer": i, "got": got, "model": want}));
            }
            if want.len() == 10 {
                labels.push("peer_addr_capacity");
                nontrivial = true;
            }
        }
    }
    labels.sort();
    labels.dedup();
    Outcome::pass_l(nontrivial, labels)
}

fn hop() -> impl Strategy<Value = HOp> {
    prop_oneof![
        6 => (0u8..25).prop_map(HOp::ExtConfirmed),
        2 => (0u8..25).prop_map(HOp::ExtExpired),
        2 => (0u8..6).prop_map(HOp::NewListen),
        2 => (0u8..6).prop_map(HOp::ExpiredListen),
        6 => (0u8..4, 0u8..13, 0u8..3).prop_map(|(p, i, s)| HOp::PeerAddr(p, i, s)),
        2 => (0u8..4, proptest::collection::vec((0u8..13, 0u8..3), 0..4)).prop_map(|(p, v)| HOp::DialFailTransport(p, v)),
        1 => (0u8..4).prop_map(HOp::DialFailOther),
        2 => (0u8..4, 0u8..13, 0u8..3).prop_map(|(p, i, s)| HOp::PAdd(p, i, s)),
        1 => (0u8..4, 0u8..13, 0u8..3).prop_map(|(p, i, s)| HOp::PRemove(p, i, s)),
        1 => (0u8..4).prop_map(HOp::PGet),
        1 => (0u8..25).prop_map(HOp::Unrelated),
        1 => (0u8..25, 5u8..25).prop_map(|(s, n)| HOp::ExtBurst(s, n)),
        1 => (0u8..4, 0u8..13, 4u8..13).prop_map(|(p, s, n)| HOp::PeerBurst(p, s, n)),
    ]
}

// ------------------------------------------------------------------------------------------
// (b) Swarm::listeners() / external_addresses() vs fold of SwarmEvents

#[derive(Clone, Debug, Serialize, Deserialize)]
pub enum WOp {
    Listen,
    NewAddress(u8, u8),
    AddressExpired(u8, u8),
    ListenerClosed(u8, bool),
    RemoveListener(u8),
    ListenerError(u8),
    AddExternal(u8),
    RemoveExternal(u8),
    BehConfirm(u8),
    BehExpire(u8),
    BehCandidate(u8),
    Poll(u8),
}

#[derive(Clone, Debug, Serialize, Deserialize)]
pub struct WCase {
    ops: Vec<WOp>,
}

fn la(i: u8) -> Multiaddr {
    Multiaddr::empty().with(Protocol::Memory(8000 + i as u64 % 5))
}

fn check_world(c: &WCase) -> Outcome {
    let r = check_world_inner(c);
    release_phantoms();
    r
}

fn check_world_inner(c: &WCase) -> Outcome {
    let mut w: World<Probe> = World::new(&[gen::peer(0)], |i, log| Probe::new(i as u8, 0, log, ProbeScript::default()), |cfg| cfg);
    w.nodes[0].net.lock().unwrap().auto_announce = false;
    let mut lmodel: BTreeMap<String, BTreeSet<Multiaddr>> = BTreeMap::new();
    let mut emodel: BTreeSet<Multiaddr> = BTreeSet::new();
    let mut nontrivial = false;
    let mut labels = vec![];
    let fold = |ev: &Ev, lmodel: &mut BTreeMap<String, BTreeSet<Multiaddr>>, emodel: &mut BTreeSet<Multiaddr>, nontrivial: &mut bool| -> Option<Outcome> {
        match ev {
            Ev::NewListenAddr { l, addr } => {
                lmodel.entry(l.clone()).or_default().insert(addr.clone());
            }
            Ev::ExpiredListenAddr { l, addr } => {
                if let Some(s) = lmodel.get_mut(l) {
                    s.remove(addr);
                }
            }
            Ev::ListenerClosed { l, addrs, .. } => {
                let m = lmodel.remove(l).unwrap_or_default();
                let got: BTreeSet<Multiaddr> = addrs.iter().cloned().collect();
                if got != m || got.len() != addrs.len() {
                    return Some(Outcome::fail("C12:listener-closed-addresses", json!({"listener": l, "event": addrs.iter().map(|a| a.to_string()).collect::<Vec<_>>(), "model": m.iter().map(|a| a.to_string()).collect::<Vec<_>>()})));
                }
                if m.len() >= 2 {
                    *nontrivial = true;
                }
            }
            Ev::ExtConfirmed(a) => {
                emodel.insert(a.clone());
            }
            Ev::ExtExpired(a) => {
                emodel.remove(a);
            }
            _ => {}
        }
        None
    };
    let compare = |w: &World<Probe>, lmodel: &BTreeMap<String, BTreeSet<Multiaddr>>, emodel: &BTreeSet<Multiaddr>, when: &str| -> Option<Outcome> {
        let got: BTreeSet<Multiaddr> = w.nodes[0].swarm.listeners().cloned().collect();
        let want: BTreeSet<Multiaddr> = lmodel.values().flatten().cloned().collect();
        if got != want {
            return Some(Outcome::fail("C12:listeners-differ-from-event-fold", json!({"when": when, "got": got.iter().map(|a| a.to_string()).collect::<Vec<_>>(), "model": want.iter().map(|a| a.to_string()).collect::<Vec<_>>()})));
        }
        let got: BTreeSet<Multiaddr> = w.nodes[0].swarm.external_addresses().cloned().collect();
        if &got != emodel {
            return Some(Outcome::fail("C12:external-addresses-differ-from-fold", json!({"when": when, "got": got.iter().map(|a| a.to_string()).collect::<Vec<_>>(), "model": emodel.iter().map(|a| a.to_string()).collect::<Vec<_>>()})));
        }
        None
    };
    let mut ops = c.ops.clone();
    ops.push(WOp::Poll(50));
    for op in &ops {
        let nl = w.nodes[0].listeners.len();
        let lid = |k: u8| -> Option<ListenerId> {
            if nl == 0 {
                None
            } else {
                Some(w.nodes[0].listeners[k as usize % nl])
            }
        };
        match op {
            WOp::Listen => {
                if nl < 3 {
                    w.listen(0, la(nl as u8));
                }
            }
            WOp::NewAddress(l, a) => {
                if let Some(id) = lid(*l) {
                    let open = w.nodes[0].net.lock().unwrap().listeners.iter().any(|x| x.id == id && x.open);
                    if open {
                        w.nodes[0].net.lock().unwrap().new_address(id, la(*a));
                    }
                }
            }
            WOp::AddressExpired(l, a) => {
                if let Some(id) = lid(*l) {
                    let open = w.nodes[0].net.lock().unwrap().listeners.iter().any(|x| x.id == id && x.open);
                    if open {
                        w.nodes[0].net.lock().unwrap().address_expired(id, la(*a));
                    }
                }
            }
            WOp::ListenerClosed(l, ok) => {
                if let Some(id) = lid(*l) {
                    let open = w.nodes[0].net.lock().unwrap().listeners.iter().any(|x| x.id == id && x.open);
                    if open {
                        w.nodes[0].net.lock().unwrap().listener_closed(id, *ok);
                    }
                }
            }
            WOp::RemoveListener(l) => {
                if let Some(id) = lid(*l) {
                    w.nodes[0].swarm.remove_listener(id);
                }
            }
            WOp::ListenerError(l) => {
                if let Some(id) = lid(*l) {
                    w.nodes[0].net.lock().unwrap().listener_error(id);
                }
            }
            WOp::AddExternal(a) => {
                w.nodes[0].swarm.add_external_address(ea(*a % 6));
                emodel.insert(ea(*a % 6));
                labels.push("api_external");
            }
            WOp::RemoveExternal(a) => {
                w.nodes[0].swarm.remove_external_address(&ea(*a % 6));
                emodel.remove(&ea(*a % 6));
            }
            WOp::BehConfirm(a) => w.nodes[0].swarm.behaviour_mut().push_cmd(ToSwarm::ExternalAddrConfirmed(ea(*a % 6))),
            WOp::BehExpire(a) => w.nodes[0].swarm.behaviour_mut().push_cmd(ToSwarm::ExternalAddrExpired(ea(*a % 6))),
            WOp::BehCandidate(a) => w.nodes[0].swarm.behaviour_mut().push_cmd(ToSwarm::NewExternalAddrCandidate(ea(*a % 6))),
            WOp::Poll(n) => {
                for _ in 0..(*n).max(1) {
                    match w.poll(0) {
                        Some(ev) => {
                            if let Some(o) = fold(&ev, &mut lmodel, &mut emodel, &mut nontrivial) {
                                return o;
                            }
                            if let Some(o) = compare(&w, &lmodel, &emodel, "after event") {
                                return o;
                            }
                        }
                        None => break,
                    }
                }
            }
        }
        if !matches!(op, WOp::Poll(_)) {
            // API calls and queued transport events must not change the views before the event is returned,
            // except the documented direct effect of add/remove_external_address
            if let Some(o) = compare(&w, &lmodel, &emodel, "after api call") {
                return o;
            }
        }
    }
    labels.sort();
    labels.dedup();
    Outcome::pass_l(nontrivial, labels)
}

fn wop() -> impl Strategy<Value = WOp> {
    prop_oneof![
        2 => Just(WOp::Listen),
        6 => (0u8..3, 0u8..5).prop_map(|(l, a)| WOp::NewAddress(l, a)),
        2 => (0u8..3, 0u8..5).prop_map(|(l, a)| WOp::AddressExpired(l, a)),
        2 => (0u8..3, any::<bool>()).prop_map(|(l, ok)| WOp::ListenerClosed(l, ok)),
        1 => (0u8..3).prop_map(WOp::RemoveListener),
        1 => (0u8..3).prop_map(WOp::ListenerError),
        1 => (0u8..6).prop_map(WOp::AddExternal),
        1 => (0u8..6).prop_map(WOp::RemoveExternal),
        2 => (0u8..6).prop_map(WOp::BehConfirm),
        1 => (0u8..6).prop_map(WOp::BehExpire),
        1 => (0u8..6).prop_map(WOp::BehCandidate),
        5 => (1u8..4).prop_map(WOp::Poll),
    ]
}

pub fn run(ctx: &mut Ctx) {
    ctx.assume("ExternalAddresses: 'contents' = the address set (a refresh only reorders); PeerAddresses: get/add/remove refresh recency (model mirrors the touches); capacity evictions are part of the fold");
    ctx.check::<HCase>(
        "helpers",
        "up to 60 FromSwarm events / direct calls fed to ExternalAddresses, ListenAddresses, PeerAddresses(cap 1..3) vs reference folds; non-trivial = a capacity eviction happened (external list > 20, per-peer list > 10 or peer LRU); distinct by case hash",
        ctx.n(20_000, 600_000),
        &|| (1u8..4, proptest::collection::vec(hop(), 0..60)).prop_map(|(peers_cap, ops)| HCase { peers_cap, ops }).boxed(),
        &check_helpers,
    );
    ctx.check::<WCase>(
        "swarm-views",
        "up to 40 listener / external-address operations on a real Swarm over the simulated transport, polled at generated points; listeners() and external_addresses() compared with the fold of returned events after every poll return and API call; non-trivial = a listener with >=2 addresses closed; distinct by case hash",
        ctx.n(6_000, 200_000),
        &|| proptest::collection::vec(wop(), 0..40).prop_map(|ops| WCase { ops }).boxed(),
        &check_world,
    );
}
