//! C52 — connection limits are never exceeded (ignoring connections to bypassed peers).
//!
//! `libp2p_connection_limits::Behaviour` is composed with a `Probe` through `#[derive(NetworkBehaviour)]`
//! (both field orders) and driven by the shared world interpreter (`life.rs`). After every Swarm poll
//! return and every API call the number of pending incoming / pending outgoing / established incoming /
//! established outgoing / per-peer / total established connections — taken both from the fold of the
//! returned events and from `Swarm::network_info()` — restricted to connections whose peer was never on
//! the bypass list during the connection's life must not exceed the configured limit.
use crate::life::{self, Case, Ext, NodeModel, Weights};
use libp2p_connection_limits as limits;
use libp2p_identity::PeerId;
use libp2p_swarm::NetworkBehaviour;
use proptest::prelude::*;
use serde::{Deserialize, Serialize};
use serde_json::{json, Value};
use simswarm::probe::{Entry, ErrKind, Probe, ProbeScript, SharedLog};
use simswarm::world::{Ev, Probes, World};
use std::collections::{BTreeMap, BTreeSet};
use vcore::{gen, Ctx, Outcome};

#[derive(NetworkBehaviour)]
#[behaviour(prelude = "libp2p_swarm::derive_prelude")]
pub struct LimitsProbe {
    limits: limits::Behaviour,
    probe: Probe,
}

#[derive(NetworkBehaviour)]
#[behaviour(prelude = "libp2p_swarm::derive_prelude")]
pub struct ProbeLimits {
    probe: Probe,
    limits: limits::Behaviour,
}

pub trait HasLimits {
    fn limits(&mut self) -> &mut limits::Behaviour;
}

macro_rules! impls {
    ($t:ty) => {
        impl Probes for $t {
            fn fields(&self) -> usize {
                1
            }
            fn probe(&mut self, _f: usize) -> &mut Probe {
                &mut self.probe
            }
        }
        impl HasLimits for $t {
            fn limits(&mut self) -> &mut limits::Behaviour {
                &mut self.limits
            }
        }
    };
}
impls!(LimitsProbe);
impls!(ProbeLimits);

/// limit kinds, in the order of `Lim`
const KINDS: [&str; 6] = ["pending-incoming", "pending-outgoing", "established-incoming", "established-outgoing", "established-per-peer", "established-total"];
type Lim = [Option<u8>; 6];

#[derive(Clone, Debug, Serialize, Deserialize)]
pub struct LCase {
    /// per node: pending in, pending out, established in, established out, per peer, total
    pub limits: Vec<Lim>,
    /// per node: bit k set = gen::peer(k) is on the bypass list from the start
    pub bypass: Vec<u8>,
    pub probe_first: bool,
    pub base: Case,
}

fn build_limits(l: &Lim) -> limits::ConnectionLimits {
    let o = |x: Option<u8>| x.map(|v| v as u32);
    limits::ConnectionLimits::default()
        .with_max_pending_incoming(o(l[0]))
        .with_max_pending_outgoing(o(l[1]))
        .with_max_established_incoming(o(l[2]))
        .with_max_established_outgoing(o(l[3]))
        .with_max_established_per_peer(o(l[4]))
        .with_max_established(o(l[5]))
}

#[derive(Default)]
struct LimExt {
    limits: Vec<Lim>,
    /// per node: peers on the bypass list right now
    bypassed: Vec<BTreeSet<PeerId>>,
    /// per node: connection ids whose (expected / authenticated) peer was on the bypass list at some observation
    /// point of the connection's life; these are ignored when counting
    ignored: Vec<BTreeSet<u64>>,
    /// per kind: the restricted count reached the (non-zero) limit at some point
    at_limit: [bool; 6],
    bypass_changes: u32,
    ignored_live_max: usize,
}

impl LimExt {
    fn new(c: &LCase, nn: usize) -> Self {
        LimExt {
            limits: (0..nn).map(|i| c.limits.get(i).cloned().unwrap_or([None; 6])).collect(),
            bypassed: (0..nn).map(|i| (0..8).filter(|k| c.bypass.get(i).cloned().unwrap_or(0) >> k & 1 == 1).map(gen::peer).collect()).collect(),
            ignored: vec![BTreeSet::new(); nn],
            ..Default::default()
        }
    }
}

impl<B: Probes + HasLimits> Ext<B> for LimExt {
    fn op(&mut self, w: &mut World<B>, _m: &[NodeModel], node: usize, kind: u8, arg: u8) {
        let p = gen::peer(arg as usize % 8);
        let b = w.nodes[node].swarm.behaviour_mut().limits();
        if kind % 2 == 0 {
            b.bypass_peer_id(&p);
            self.bypassed[node].insert(p);
        } else {
            b.remove_peer_id(&p);
            self.bypassed[node].remove(&p);
        }
        self.bypass_changes += 1;
    }

    fn observe(&mut self, w: &mut World<B>, m: &[NodeModel], i: usize, when: &str) -> Option<(String, Value)> {
        let mm = &m[i];
        let byp = &self.bypassed[i];
        // connections to currently bypassed peers are ignored from now on
        for (id, info) in &mm.ids {
            if info.handed_out && info.outbound && info.terminal.is_empty() {
                if let Some(p) = info.expected {
                    if byp.contains(&p) {
                        self.ignored[i].insert(*id);
                    }
                }
            }
        }
        for (p, set) in &mm.est {
            if byp.contains(p) {
                self.ignored[i].extend(set.iter().cloned());
            }
        }
        let ign = &self.ignored[i];
        // (a) fold of the returned events and API calls
        let pend_in = mm.ids.values().filter(|x| x.handed_out && !x.outbound && x.terminal.is_empty()).count() as u32;
        let pend_out_all = mm.ids.values().filter(|x| x.handed_out && x.outbound && x.terminal.is_empty()).count() as u32;
        let pend_out_ign = mm.ids.iter().filter(|(id, x)| x.handed_out && x.outbound && x.terminal.is_empty() && ign.contains(id)).count() as u32;
        let est_in_all = mm.est_dir.values().filter(|o| !**o).count() as u32;
        let est_out_all = mm.est_dir.values().filter(|o| **o).count() as u32;
        let est_in_ign = mm.est_dir.iter().filter(|(id, o)| !**o && ign.contains(id)).count() as u32;
        let est_out_ign = mm.est_dir.iter().filter(|(id, o)| **o && ign.contains(id)).count() as u32;
        let per_peer: BTreeMap<PeerId, u32> = mm.est.iter().map(|(p, s)| (*p, s.iter().filter(|c| !ign.contains(c)).count() as u32)).collect();
        let max_per_peer = per_peer.values().cloned().max().unwrap_or(0);
        self.ignored_live_max = self.ignored_live_max.max((pend_out_ign + est_in_ign + est_out_ign) as usize);
        let hist = [pend_in, pend_out_all - pend_out_ign, est_in_all - est_in_ign, est_out_all - est_out_ign, max_per_peer, est_in_all - est_in_ign + est_out_all - est_out_ign];
        // (b) the Swarm's own counters minus the ignored connections
        let info = w.nodes[i].swarm.network_info();
        let c = info.connection_counters();
        let ctr = [
            c.num_pending_incoming(),
            c.num_pending_outgoing().saturating_sub(pend_out_ign),
            c.num_established_incoming().saturating_sub(est_in_ign),
            c.num_established_outgoing().saturating_sub(est_out_ign),
            0, // no per-peer counter is exposed
            c.num_established().saturating_sub(est_in_ign + est_out_ign),
        ];
        let lim = &self.limits[i];
        for k in 0..6 {
            let Some(l) = lim[k] else { continue };
            let l = l as u32;
            if hist[k] > l {
                let mut d = json!({"node": i, "when": when, "kind": KINDS[k], "limit": l, "held (event history, bypassed ignored)": hist[k], "bypassed_now": byp.iter().map(|p| p.to_string()).collect::<Vec<_>>(), "ignored_connections": ign});
                if k == 4 {
                    d["per_peer"] = json!(per_peer.iter().map(|(p, n)| (p.to_string(), *n)).collect::<BTreeMap<_, _>>());
                }
                return Some((format!("C52:{}-limit-exceeded", KINDS[k]), d));
            }
            if ctr[k] > l {
                return Some((format!("C52:{}-limit-exceeded-by-counters", KINDS[k]), json!({"node": i, "when": when, "kind": KINDS[k], "limit": l, "network_info minus ignored": ctr[k]})));
            }
            if l > 0 && hist[k] == l {
                self.at_limit[k] = true;
            }
        }
        None
    }
}

fn script_for(case: &Case, node: usize) -> ProbeScript {
    ProbeScript {
        deny: case.denies.iter().filter(|(n, f, _, _)| *n as usize == node && *f == 0).map(|(_, _, d, k)| (*d, *k)).collect(),
        dial_addrs: vec![],
        protocols: vec!["/probe/1".into()],
        keep_alive: true,
        stream_timeout_ms: 0,
    }
}

fn check(c: &LCase) -> Outcome {
    let mut base = c.base.clone();
    base.fields = 1;
    let nn = base.nodes.clamp(1, 3) as usize;
    let mut ext = LimExt::new(c, nn);
    let mk_limits = |i: usize, ext: &LimExt| {
        let mut b = limits::Behaviour::new(build_limits(&ext.limits[i]));
        for p in &ext.bypassed[i] {
            b.bypass_peer_id(p);
        }
        b
    };
    let r = if c.probe_first {
        let behaviours: Vec<limits::Behaviour> = (0..nn).map(|i| mk_limits(i, &ext)).collect();
        let mut it = behaviours.into_iter();
        life::run_with(&base, |i, log: SharedLog| ProbeLimits { probe: Probe::new(i as u8, 0, log, script_for(&base, i)), limits: it.next().expect("one per node") }, &mut ext)
    } else {
        let behaviours: Vec<limits::Behaviour> = (0..nn).map(|i| mk_limits(i, &ext)).collect();
        let mut it = behaviours.into_iter();
        life::run_with(&base, |i, log: SharedLog| LimitsProbe { limits: it.next().expect("one per node"), probe: Probe::new(i as u8, 0, log, script_for(&base, i)) }, &mut ext)
    };
    if let Some((sig, detail)) = r.fails.iter().find(|(s, _)| s.starts_with("C52:")) {
        return Outcome::fail(sig.clone(), detail.clone());
    }
    // the counting above rests on the event-history model of the world interpreter: a failure of one of its
    // own oracles (C01/C02/... signatures) is reported as it is
    if let Some((sig, detail)) = r.fails.first() {
        return Outcome::fail(sig.clone(), detail.clone());
    }
    if !r.settled {
        return Outcome::Inconclusive("world did not settle within the round bound".into());
    }
    // denials that are not the probe's are the limit behaviour's
    let mut labels: Vec<&'static str> = vec![];
    let mut limit_denials = 0u32;
    for i in 0..nn {
        let probe_denied: BTreeSet<u64> = r
            .log
            .iter()
            .filter(|x| x.node == i as u8)
            .filter_map(|x| match &x.entry {
                Entry::PendingIn { conn, denied: true } | Entry::PendingOut { conn, denied: true, .. } | Entry::EstIn { conn, denied: true, .. } | Entry::EstOut { conn, denied: true, .. } => Some(*conn),
                _ => None,
            })
            .collect();
        let incoming_seen: BTreeSet<u64> = r.events[i].iter().filter_map(|e| if let Ev::Incoming { conn, .. } = e { Some(*conn) } else { None }).collect();
        for e in &r.events[i] {
            match e {
                Ev::OutgoingError { conn, err: ErrKind::Denied, .. } if !probe_denied.contains(conn) => {
                    limit_denials += 1;
                    labels.push("denied:established-outgoing/per-peer/total");
                }
                Ev::IncomingError { conn, err: ErrKind::Denied, .. } if !probe_denied.contains(conn) => {
                    limit_denials += 1;
                    labels.push(if incoming_seen.contains(conn) { "denied:established-incoming/per-peer/total" } else { "denied:pending-incoming" });
                }
                _ => {}
            }
        }
        // dials made with DialOpts::override_role(): still outgoing connections, counted against the outgoing limits
        let lim = ext.limits[i];
        for (id, info) in &r.models[i].ids {
            if !info.role_override || !info.outbound || ext.ignored[i].contains(id) {
                continue;
            }
            if info.established && (lim[3].is_some() || lim[4].is_some() || lim[5].is_some()) {
                labels.push("role_override_established_under_limits");
                if lim[3].map(|l| l > 0).unwrap_or(false) {
                    labels.push("role_override_established_under_outgoing_limit");
                }
            }
            if info.terminal.first().map(|t| t.contains("Denied")).unwrap_or(false) && !probe_denied.contains(id) {
                labels.push("role_override_denied_by_limits");
            }
        }
        for (id, info) in &r.models[i].ids {
            if info.sync_err == Some(ErrKind::Denied) && !probe_denied.contains(id) {
                limit_denials += 1;
                labels.push("denied:pending-outgoing");
            }
        }
        // behaviour-initiated dials that were denied synchronously never get a model entry: count their DialFailure
        let known: BTreeSet<u64> = r.models[i].ids.keys().cloned().collect();
        for x in r.log.iter().filter(|x| x.node == i as u8) {
            if let Entry::Swarm(simswarm::probe::FS::DialFailure { conn, err: ErrKind::Denied, .. }) = &x.entry {
                if !known.contains(conn) && !probe_denied.contains(conn) {
                    limit_denials += 1;
                    labels.push("denied:pending-outgoing");
                }
            }
        }
    }
    labels.sort();
    labels.dedup();
    for k in 0..6 {
        if ext.at_limit[k] {
            labels.push(["at-limit:pending-incoming", "at-limit:pending-outgoing", "at-limit:established-incoming", "at-limit:established-outgoing", "at-limit:per-peer", "at-limit:total"][k]);
        }
    }
    if ext.ignored_live_max > 0 {
        labels.push("bypassed-connection-live");
    }
    if ext.bypass_changes > 0 {
        labels.push("bypass-list-changed");
    }
    if r.flags.established > 0 {
        labels.push("established");
    }
    if r.flags.two_node_links > 0 {
        labels.push("swarm_to_swarm");
    }
    if r.flags.closes > 0 {
        labels.push("closed");
    }
    if c.probe_first {
        labels.push("order:probe,limits");
    } else {
        labels.push("order:limits,probe");
    }
    Outcome::pass_l(limit_denials > 0, labels)
}

fn limit() -> impl Strategy<Value = Option<u8>> {
    prop_oneof![5 => Just(None), 1 => Just(Some(0u8)), 4 => Just(Some(1u8)), 4 => Just(Some(2u8)), 2 => Just(Some(3u8))]
}

fn strategy(max_ops: usize) -> BoxedStrategy<LCase> {
    let w = Weights { dial: 7, connect: 9, resolve_ok: 10, resolve_err: 2, inbound: 6, close: 2, disconnect: 1, remote_close: 1, notify: 0, poll: 6, step: 3, settle: 3 };
    (
        proptest::collection::vec(proptest::array::uniform6(limit()), 3),
        proptest::collection::vec(prop_oneof![3 => Just(0u8), 2 => any::<u8>().prop_map(|b| b & 0b0011_0110), 1 => any::<u8>()], 3),
        any::<bool>(),
        life::case_strategy_ext(3, 1..=1, 1, 4..=max_ops, w, 3, 2, 8),
    )
        .prop_map(|(limits, bypass, probe_first, base)| LCase { limits, bypass, probe_first, base })
        .boxed()
}

pub fn run(ctx: &mut Ctx) {
    ctx.assume("transport, muxer and remote peers are simulated (simswarm); connection tasks run on the harness executor; idle timeout 1h so no timer fires");
    ctx.assume("a connection counts as 'to a bypassed peer' if its expected/authenticated peer was on the bypass list at some observation point between the id being handed out and now (list changes during a connection's life make the statement ambiguous; the reading that ignores more is used)");
    ctx.assume("pending incoming connections have no peer yet and are all counted");
    let max_ops = ctx.tier.sel(50, 70);
    ctx.check::<LCase>(
        "world",
        "programs of 4..50 world ops (dials with/without peer id, 20 % of them with DialOpts::override_role() - still outgoing connections -, swarm-to-swarm connects, phantom inbound connections, transport outcomes ok/err/wrong peer, closes, disconnects, remote close, muxer fault, bypass_peer_id/remove_peer_id, generated schedules) over 1..3 swarms whose behaviour is #[derive(NetworkBehaviour)] {connection_limits, probe} in both field orders; per node six limits each None or 0..3 and an initial bypass set; after every poll return / API call the six counts (event-history fold and network_info, bypassed connections ignored) are <= the limits; non-trivial = at least one connection was denied by the limits behaviour; distinct by case hash",
        ctx.n(60_000, 2_000_000),
        &move || strategy(max_ops),
        &check,
    );
}
