//! World interpreter + history oracles shared by C01, C02, C05, C06 (and reused by C07, C52, C53, C58).
//!
//! A case is a program of world operations over 1..3 real Swarms; connection tasks only run when
//! the program says so (`Step`, `Settle`), swarms are only polled when the program says so.

use libp2p_core::Multiaddr;
use libp2p_identity::PeerId;
use libp2p_swarm::dial_opts::{DialOpts, PeerCondition};
use libp2p_swarm::{CloseConnection, ConnectionId, NotifyHandler, ToSwarm};
use multiaddr::Protocol;
use proptest::prelude::*;
use serde::{Deserialize, Serialize};
use serde_json::{json, Value};
use simswarm::derived::{Three, Two};
use simswarm::probe::{Decision, Entry, ErrKind, HCmd, HIn, Probe, ProbeScript, Rec, FS};
use simswarm::world::{release_phantoms, Ev, Probes, World};
use std::collections::{BTreeMap, BTreeSet};
use std::num::{NonZeroU8, NonZeroUsize};
use vcore::{gen, pick};

#[derive(Clone, Copy, Debug, PartialEq, Eq, Serialize, Deserialize)]
pub enum Target {
    /// another node: (n + 1 + off) % nodes (the node itself when there is only one)
    Node(u8),
    Phantom(u8),
    Myself,
}

#[derive(Clone, Copy, Debug, PartialEq, Eq, Serialize, Deserialize)]
pub enum Who {
    Expected,
    Other(u8),
    Local,
}

#[derive(Clone, Debug, PartialEq, Eq, Serialize, Deserialize)]
pub enum Op {
    Listen { n: u8 },
    Dial {
        n: u8,
        to: Target,
        with_peer: bool,
        p2p_suffix: bool,
        cond: u8,
        naddrs: u8,
        via_behaviour: bool,
        /// `DialOpts::override_role()`: the dial is executed "as a listener" (hole punching)
        #[serde(default)]
        override_role: bool,
    },
    ResolveOk { n: u8, pick: u16, auth: Who, attach: bool },
    ResolveErr { n: u8, pick: u16 },
    /// macro: listen (target) + dial with peer + resolve first open dial ok (attached) + resolve inbound ok
    Connect { n: u8, to: Target, settle: bool },
    Inbound { n: u8 },
    ResolveIn { pick: u16, auth: Option<Who> },
    Close { n: u8, pick: u16 },
    BehClose { n: u8, field: u8, pick: u16, all: bool },
    Disconnect { n: u8, peer: u8 },
    /// `disconnect_peer_id` (or `ToSwarm::CloseConnection{All}` from a behaviour field) for the peer of a dial that is
    /// still pending; with `run_tasks` every woken task runs first, so that a dial whose transport already succeeded
    /// has handed its result to the pool (queued, not yet consumed by a Swarm poll) when the abort arrives
    DisconnectDialing { n: u8, pick: u16, run_tasks: bool, via_behaviour: bool },
    RemoteClose { pick: u16 },
    Fault { pick: u16 },
    Notify { n: u8, field: u8, pick: u16, any: bool, cmd: HCmd },
    Poll { n: u8 },
    Step { picks: Vec<u16> },
    Settle,
    /// behaviour-specific operation, interpreted by the check's `Ext` (C52: bypass list, C53: block/allow lists)
    Ext { n: u8, kind: u8, arg: u8 },
}

#[derive(Clone, Debug, Serialize, Deserialize)]
pub struct Case {
    pub nodes: u8,
    pub fields: u8,
    pub denies: Vec<(u8, u8, Decision, u8)>,
    pub conc: u8,
    pub buf: u8,
    pub ops: Vec<Op>,
}

fn node_peer(j: usize) -> PeerId {
    gen::peer(j)
}
fn phantom_peer(x: u8) -> PeerId {
    gen::peer(4 + (x as usize % 4))
}
fn listen_addr(j: usize, k: usize) -> Multiaddr {
    Multiaddr::empty().with(Protocol::Memory(1000 + 10 * j as u64 + k as u64))
}
fn phantom_addr(x: u8, k: u8) -> Multiaddr {
    Multiaddr::empty().with(Protocol::Memory(2000 + 10 * (x as u64 % 4) + k as u64))
}
fn strip_p2p(a: &Multiaddr) -> Multiaddr {
    a.iter().filter(|p| !matches!(p, Protocol::P2p(_))).collect()
}

#[derive(Default, Clone, Debug)]
pub struct IdInfo {
    pub outbound: bool,
    pub expected: Option<PeerId>,
    pub terminal: Vec<String>,
    pub established: bool,
    pub est_peer: Option<PeerId>,
    pub closed: u32,
    /// dial() returned Ok / Dialing seen / Incoming seen (=> belongs to C01's universe)
    pub handed_out: bool,
    pub sync_err: Option<ErrKind>,
    pub role_override: bool,
    /// the peer was disconnected while the dial's successful result was queued in the pool
    pub raced: bool,
}

#[derive(Default)]
pub struct NodeModel {
    pub ids: BTreeMap<u64, IdInfo>,
    pub pend_in: u32,
    pub pend_out: u32,
    pub est_in: u32,
    pub est_out: u32,
    pub est: BTreeMap<PeerId, BTreeSet<u64>>,
    pub est_dir: BTreeMap<u64, bool>,
    pub sw_seq: Vec<(char, u64)>,
    pub dial_conn: BTreeMap<usize, u64>,
    pub seen_dials: usize,
    /// behaviour-initiated dials waiting for their Dialing event: conn -> expected
    pub beh_dials: BTreeMap<u64, Option<PeerId>>,
    pub beh_role_override: BTreeMap<u64, bool>,
    /// conn -> (auth given, link index)
    pub auths: BTreeMap<u64, Vec<(PeerId, usize)>>,
    pub max_simul_same_peer: usize,
}

#[derive(Default, Debug, Clone)]
pub struct Flags {
    pub established: u32,
    pub aborts: u32,
    pub denials: u32,
    pub failures: u32,
    pub closes: u32,
    pub close_with_pending_same_peer: u32,
    pub wrong_peer: u32,
    pub local_peer: u32,
    pub max_simul: usize,
    pub denial_non_first_field: u32,
    pub est_denial_with_other_open: u32,
    pub inbound_est: u32,
    pub notifies: u32,
    pub two_node_links: u32,
    /// dials built with override_role() that were accepted
    pub role_override_dials: u32,
    pub role_override_established: u32,
    /// dial() rejected with DialPeerConditionFalse
    pub cond_false: u32,
    /// ... where the peer was not connected and every pending dial to it was a role-overridden one
    pub cond_false_by_role_override_dial: u32,
    /// accepted dials with a non-Always condition
    pub cond_true: u32,
    /// pending dials without a known peer id that failed (transport errors on every address)
    pub unknown_peer_dial_failed: u32,
    /// disconnect of the peer of a pending dial: at all / after the transport dial succeeded / with the result queued in the pool
    pub disconnect_dialing: u32,
    pub disconnect_after_resolution: u32,
    pub disconnect_with_result_queued: u32,
    /// ... and what became of those dials
    pub queued_result_then_established: u32,
    pub queued_result_then_aborted: u32,
}

pub struct RunResult {
    pub fails: Vec<(String, Value)>,
    /// per failure: the length of the probe log when it was recorded (failures of the final checks: the whole log)
    pub fail_at: Vec<u64>,
    pub flags: Flags,
    pub events: Vec<Vec<Ev>>,
    pub log: Vec<Rec>,
    pub models: Vec<NodeModel>,
    pub settled: bool,
    /// every op and the wind-down were executed (a failure, if any, comes from the final checks): the history is complete
    pub complete: bool,
    /// per node: peer ids
    pub peers: Vec<PeerId>,
    /// (node, link a-side closed?, close_polled?, auth, conn) for every link
    pub links: Vec<LinkInfo>,
    /// handler states snapshot: (node, field, conn, polls, alive)
    pub handlers: Vec<(u8, u8, u64, u64, bool)>,
    /// notify emissions: (node, field, n, peer, one, snapshot of established conns of peer at emission)
    pub emissions: Vec<Emission>,
}

#[derive(Clone, Debug)]
pub struct LinkInfo {
    pub node: usize,
    pub conn: Option<u64>,
    pub auth: PeerId,
    pub a_closed: bool,
    pub a_close_polled: bool,
    pub a_dropped: bool,
}

#[derive(Clone, Debug)]
pub struct Emission {
    pub node: u8,
    pub field: u8,
    pub n: u64,
    pub peer: PeerId,
    pub one: Option<u64>,
    pub queued_at_log_seq: u64,
    /// the command asks the handler to emit a NotifyBehaviour tagged with `n`
    pub emit: bool,
    /// the command asks the handler to keep an event tagged with `n` back and yield it from `poll_close`
    pub emit_on_close: bool,
}

/// Extension points for checks whose behaviour is more than probes (C52, C53): behaviour-specific
/// operations and an observer that runs wherever the C02 counters are compared (after every Swarm
/// poll return and every API call).
pub trait Ext<B: Probes> {
    /// execute `Op::Ext { kind, arg }` on node `node`
    fn op(&mut self, _w: &mut World<B>, _m: &[NodeModel], _node: usize, _kind: u8, _arg: u8) {}
    /// called after every poll return / API call on node `node`; a returned (signature, detail) is a failure
    fn observe(&mut self, _w: &mut World<B>, _m: &[NodeModel], _node: usize, _when: &str) -> Option<(String, Value)> {
        None
    }
    /// called once at the end when the world settled and no failure was recorded
    fn finish(&mut self, _w: &mut World<B>, _m: &[NodeModel]) -> Option<(String, Value)> {
        None
    }
}
impl<B: Probes> Ext<B> for () {}

struct Interp<'x, B: Probes> {
    /// signature prefix of the property under check: only its failures end the run; a disagreement that belongs to a
    /// neighbouring property is recorded and the program continues (so that it cannot mask the property's own verdict,
    /// e.g. the at-quiescence checks). None = every failure ends the run.
    focus: Option<String>,
    ext: &'x mut dyn Ext<B>,
    w: World<B>,
    m: Vec<NodeModel>,
    fails: Vec<(String, Value)>,
    /// length of the probe log when the failure of the same index was recorded
    fail_at: Vec<u64>,
    flags: Flags,
    next_n: u64,
    emissions: Vec<Emission>,
    link_conn: Vec<Option<u64>>,
    link_auth: Vec<PeerId>,
    in_auth_expected: Vec<Option<PeerId>>, // per incoming: dialer's peer id (None = phantom)
}

impl<B: Probes> Interp<'_, B>
where
    B::ToSwarm: std::fmt::Debug,
{
    fn in_focus(&self, sig: &str) -> bool {
        self.focus.as_deref().map(|p| sig.starts_with(p)).unwrap_or(true)
    }

    fn fail(&mut self, sig: &str, detail: Value) {
        if self.in_focus(sig) || self.fails.len() < 8 {
            let at = self.w.log.lock().unwrap().recs.len() as u64;
            while self.fail_at.len() < self.fails.len() {
                self.fail_at.push(at);
            }
            self.fail_at.push(at);
            self.fails.push((sig.to_string(), detail));
        }
    }

    /// a failure of the property under check was recorded
    fn halted(&self) -> bool {
        self.fails.iter().any(|(s, _)| self.in_focus(s))
    }

    fn check_counters(&mut self, i: usize, when: &str) {
        if let Some((sig, detail)) = self.ext.observe(&mut self.w, &self.m, i, when) {
            self.fail(&sig, detail);
        }
        let info = self.w.nodes[i].swarm.network_info();
        let c = info.connection_counters();
        let m = &self.m[i];
        let got = (c.num_pending_incoming(), c.num_pending_outgoing(), c.num_established_incoming(), c.num_established_outgoing(), info.num_peers() as u32);
        let want = (m.pend_in, m.pend_out, m.est_in, m.est_out, m.est.len() as u32);
        if got != want {
            self.fail("C02:counters-disagree-with-history", json!({"node": i, "when": when, "got(pi,po,ei,eo,peers)": format!("{got:?}"), "model": format!("{want:?}")}));
            return;
        }
        if c.num_pending() != m.pend_in + m.pend_out || c.num_established() != m.est_in + m.est_out || c.num_connections() != m.pend_in + m.pend_out + m.est_in + m.est_out {
            self.fail("C02:counter-sums-inconsistent", json!({"node": i, "when": when}));
            return;
        }
        let connected: BTreeSet<PeerId> = self.w.nodes[i].swarm.connected_peers().cloned().collect();
        let model: BTreeSet<PeerId> = self.m[i].est.keys().cloned().collect();
        if connected != model {
            self.fail("C02:connected-peers-disagree", json!({"node": i, "when": when, "got": format!("{connected:?}"), "model": format!("{model:?}")}));
            return;
        }
        for p in gen::peers().iter() {
            if self.w.nodes[i].swarm.is_connected(p) != model.contains(p) {
                self.fail("C02:is-connected-disagrees", json!({"node": i, "when": when, "peer": p.to_string()}));
                return;
            }
        }
    }

    fn on_event(&mut self, i: usize, ev: &Ev) {
        // attribute new transport dials (behaviour-initiated dial) before anything else
        let nd = self.w.n_dials(i);
        if nd > self.m[i].seen_dials {
            if let Ev::Dialing { conn, .. } = ev {
                for d in self.m[i].seen_dials..nd {
                    self.m[i].dial_conn.insert(d, *conn);
                }
            } else {
                self.fail("C01:transport-dials-without-dialing-event", json!({"node": i, "event": format!("{ev:?}")}));
            }
            self.m[i].seen_dials = nd;
        }
        match ev {
            Ev::Dialing { conn, peer } => {
                let exp = self.m[i].beh_dials.remove(conn);
                let ro = self.m[i].beh_role_override.remove(conn).unwrap_or(false);
                if ro {
                    self.flags.role_override_dials += 1;
                }
                let info = self.m[i].ids.entry(*conn).or_default();
                info.outbound = true;
                info.handed_out = true;
                info.role_override = ro;
                info.expected = exp.unwrap_or(*peer);
                self.m[i].pend_out += 1;
            }
            Ev::Incoming { conn, .. } => {
                let reused = self.m[i].ids.get(conn).map(|x| x.handed_out).unwrap_or(false);
                if reused {
                    self.fail("C03:connection-id-reused", json!({"node": i, "conn": conn}));
                }
                let info = self.m[i].ids.entry(*conn).or_default();
                info.handed_out = true;
                info.outbound = false;
                self.m[i].pend_in += 1;
            }
            Ev::Established { conn, peer, num_established, outbound, .. } => {
                self.flags.established += 1;
                if !*outbound {
                    self.flags.inbound_est += 1;
                }
                let local = self.w.nodes[i].peer;
                let m = &mut self.m[i];
                let info = m.ids.entry(*conn).or_default();
                let known = info.handed_out;
                let was_out = info.outbound;
                info.terminal.push("Established".into());
                info.established = true;
                info.est_peer = Some(*peer);
                let expected = info.expected;
                if info.role_override {
                    self.flags.role_override_established += 1;
                }
                if info.raced {
                    self.flags.queued_result_then_established += 1;
                }
                m.sw_seq.push(('E', *conn));
                if known {
                    if was_out {
                        m.pend_out = m.pend_out.saturating_sub(1);
                    } else {
                        m.pend_in = m.pend_in.saturating_sub(1);
                    }
                }
                if *outbound {
                    m.est_out += 1;
                } else {
                    m.est_in += 1;
                }
                m.est_dir.insert(*conn, *outbound);
                let set = m.est.entry(*peer).or_default();
                set.insert(*conn);
                let n = set.len();
                m.max_simul_same_peer = m.max_simul_same_peer.max(n);
                self.flags.max_simul = self.flags.max_simul.max(n);
                if !known {
                    self.fail("C01:established-for-unknown-id", json!({"node": i, "conn": conn}));
                }
                if was_out != *outbound && known {
                    self.fail("C01:direction-changed", json!({"node": i, "conn": conn}));
                }
                if *num_established as usize != n {
                    self.fail("C02:num-established-wrong", json!({"node": i, "conn": conn, "event": num_established, "model": n}));
                }
                // C05
                if *peer == local {
                    self.fail("C05:established-with-local-peer-id", json!({"node": i, "conn": conn}));
                }
                if let Some(e) = expected {
                    if e != *peer && *outbound {
                        self.fail("C05:established-with-unexpected-peer", json!({"node": i, "conn": conn, "expected": e.to_string(), "got": peer.to_string()}));
                    }
                }
                if *outbound {
                    let given = self.m[i].auths.get(conn).cloned().unwrap_or_default();
                    if !given.iter().any(|(a, _)| a == peer) {
                        self.fail("C05:established-peer-not-authenticated-by-transport", json!({"node": i, "conn": conn, "peer": peer.to_string()}));
                    }
                }
            }
            Ev::Closed { conn, peer, num_established, .. } => {
                self.flags.closes += 1;
                let m = &mut self.m[i];
                let info = m.ids.entry(*conn).or_default();
                info.closed += 1;
                let closed = info.closed;
                let was_est = info.established;
                m.sw_seq.push(('C', *conn));
                let mut remaining = usize::MAX;
                if was_est && closed == 1 {
                    if let Some(out) = m.est_dir.remove(conn) {
                        if out {
                            m.est_out = m.est_out.saturating_sub(1);
                        } else {
                            m.est_in = m.est_in.saturating_sub(1);
                        }
                    }
                    if let Some(set) = m.est.get_mut(peer) {
                        set.remove(conn);
                        remaining = set.len();
                        if set.is_empty() {
                            m.est.remove(peer);
                        }
                    }
                }
                if !was_est {
                    self.fail("C01:closed-without-established", json!({"node": i, "conn": conn}));
                } else if closed > 1 {
                    self.fail("C01:closed-twice", json!({"node": i, "conn": conn}));
                } else if remaining != *num_established as usize {
                    self.fail("C02:remaining-established-wrong", json!({"node": i, "conn": conn, "event": num_established, "model": remaining}));
                }
            }
            Ev::OutgoingError { conn, err, obtained, peer, .. } => {
                self.flags.failures += 1;
                match err {
                    ErrKind::Aborted => self.flags.aborts += 1,
                    ErrKind::Denied => self.flags.denials += 1,
                    ErrKind::WrongPeerId => self.flags.wrong_peer += 1,
                    ErrKind::LocalPeerId => self.flags.local_peer += 1,
                    _ => {}
                }
                let local = self.w.nodes[i].peer;
                let m = &mut self.m[i];
                let info = m.ids.entry(*conn).or_default();
                let known = info.handed_out;
                info.terminal.push(format!("OutgoingError:{err:?}"));
                let expected = info.expected;
                if info.raced && *err == ErrKind::Aborted {
                    self.flags.queued_result_then_aborted += 1;
                }
                if peer.is_none() && expected.is_none() && *err == ErrKind::Transport {
                    self.flags.unknown_peer_dial_failed += 1;
                }
                m.sw_seq.push(('D', *conn));
                if known {
                    m.pend_out = m.pend_out.saturating_sub(1);
                } else {
                    self.fail("C01:outgoing-error-for-unknown-id", json!({"node": i, "conn": conn, "err": format!("{err:?}")}));
                }
                let given = self.m[i].auths.get(conn).cloned().unwrap_or_default();
                match err {
                    ErrKind::WrongPeerId => {
                        let ok = match (expected, obtained) {
                            (Some(e), Some(o)) => e != *o && given.iter().any(|(a, _)| a == o),
                            _ => false,
                        };
                        if !ok {
                            self.fail("C05:wrong-peer-id-error-unjustified", json!({"node": i, "conn": conn, "expected": expected.map(|e| e.to_string()), "obtained": obtained.map(|e| e.to_string())}));
                        }
                    }
                    ErrKind::LocalPeerId => {
                        if !given.iter().any(|(a, _)| *a == local) {
                            self.fail("C05:local-peer-id-error-unjustified", json!({"node": i, "conn": conn}));
                        }
                    }
                    _ => {}
                }
                let _ = peer;
            }
            Ev::IncomingError { conn, err, .. } => {
                self.flags.failures += 1;
                match err {
                    ErrKind::Aborted => self.flags.aborts += 1,
                    ErrKind::Denied => self.flags.denials += 1,
                    ErrKind::LocalPeerId => self.flags.local_peer += 1,
                    _ => {}
                }
                let m = &mut self.m[i];
                let info = m.ids.entry(*conn).or_default();
                let known = info.handed_out;
                info.terminal.push(format!("IncomingError:{err:?}"));
                m.sw_seq.push(('L', *conn));
                if known {
                    m.pend_in = m.pend_in.saturating_sub(1);
                } else if *err == ErrKind::Denied {
                    // pending-inbound denial: the id is handed out and fails in one step
                    info.handed_out = true;
                    info.outbound = false;
                } else {
                    self.fail("C01:incoming-error-for-unknown-id", json!({"node": i, "conn": conn, "err": format!("{err:?}")}));
                }
            }
            _ => {}
        }
        // exactly-once terminal, checked incrementally
        if let Ev::Established { conn, .. } | Ev::OutgoingError { conn, .. } | Ev::IncomingError { conn, .. } = ev {
            let t = self.m[i].ids[conn].terminal.clone();
            if t.len() > 1 {
                self.fail("C01:more-than-one-terminal", json!({"node": i, "conn": conn, "terminals": t}));
            }
        }
        self.check_counters(i, "after event");
    }

    fn poll_node(&mut self, i: usize, max: usize) {
        for _ in 0..max {
            match self.w.poll(i) {
                Some(ev) => self.on_event(i, &ev),
                None => {
                    let nd = self.w.n_dials(i);
                    if nd > self.m[i].seen_dials {
                        self.fail("C01:transport-dials-without-dialing-event", json!({"node": i, "event": "pending"}));
                        self.m[i].seen_dials = nd;
                    }
                    self.check_counters(i, "after pending poll");
                    break;
                }
            }
        }
    }

    fn settle(&mut self) -> bool {
        for _ in 0..400 {
            let mut progressed = false;
            if !self.w.exec.runnable().is_empty() {
                self.w.exec.drain(64);
                progressed = true;
            }
            for i in 0..self.w.nodes.len() {
                let mut k = 0;
                while self.w.woken(i) && k < 64 {
                    k += 1;
                    progressed = true;
                    self.poll_node(i, 1);
                }
            }
            if !progressed {
                return true;
            }
        }
        false
    }

    fn node_of(&self, n: usize, to: Target) -> Option<usize> {
        let nn = self.w.nodes.len();
        match to {
            Target::Node(off) => Some(if nn > 1 { (n + 1 + off as usize % (nn - 1)) % nn } else { 0 }),
            Target::Myself => Some(n),
            Target::Phantom(_) => None,
        }
    }

    fn expected_of(&self, n: usize, to: Target) -> PeerId {
        match (self.node_of(n, to), to) {
            (Some(j), _) => node_peer(j),
            (None, Target::Phantom(x)) => phantom_peer(x),
            _ => unreachable!(),
        }
    }

    fn who(&self, w: Who, expected: PeerId, local: PeerId) -> PeerId {
        match w {
            Who::Expected => expected,
            Who::Other(k) => gen::peer(k as usize),
            Who::Local => local,
        }
    }

    /// peer that "owns" a dialed address
    fn owner_of(&self, addr: &Multiaddr) -> PeerId {
        match strip_p2p(addr).iter().next() {
            Some(Protocol::Memory(p)) if (1000..2000).contains(&p) => node_peer(((p - 1000) / 10) as usize % 4),
            Some(Protocol::Memory(p)) if (2000..3000).contains(&p) => phantom_peer(((p - 2000) / 10) as u8),
            _ => gen::peer(7),
        }
    }

    fn est_conns(&self, i: usize) -> Vec<(PeerId, u64)> {
        self.m[i].est.iter().flat_map(|(p, s)| s.iter().map(move |c| (*p, *c))).collect()
    }

    fn all_conn_ids(&self, i: usize) -> Vec<u64> {
        self.m[i].ids.keys().cloned().collect()
    }

    fn exec_op(&mut self, op: &Op) {
        let nn = self.w.nodes.len();
        match op {
            Op::Listen { n } => {
                let i = *n as usize % nn;
                let k = self.w.nodes[i].listeners.len();
                if k < 2 {
                    self.w.listen(i, listen_addr(i, k));
                }
            }
            Op::Dial { n, to, with_peer, p2p_suffix, cond, naddrs, via_behaviour, override_role } => {
                let i = *n as usize % nn;
                let expected = self.expected_of(i, *to);
                let mut addrs: Vec<Multiaddr> = vec![];
                match (self.node_of(i, *to), to) {
                    (Some(j), _) => {
                        for k in 0..(*naddrs as usize).clamp(1, 3) {
                            addrs.push(listen_addr(j, k));
                        }
                    }
                    (None, Target::Phantom(x)) => {
                        for k in 0..(*naddrs).clamp(1, 3) {
                            addrs.push(phantom_addr(*x, k));
                        }
                    }
                    _ => unreachable!(),
                }
                let cond = match cond % 8 {
                    1 => PeerCondition::Disconnected,
                    2 => PeerCondition::NotDialing,
                    3 => PeerCondition::DisconnectedAndNotDialing,
                    _ => PeerCondition::Always,
                };
                let (opts, exp): (DialOpts, Option<PeerId>) = if *with_peer {
                    let b = DialOpts::peer_id(expected).condition(cond).addresses(addrs);
                    (if *override_role { b.override_role().build() } else { b.build() }, Some(expected))
                } else {
                    let mut a = addrs[0].clone();
                    if *p2p_suffix {
                        a.push(Protocol::P2p(expected));
                    }
                    let b = DialOpts::unknown_peer_id().address(a);
                    let o = if *override_role { b.override_role().build() } else { b.build() };
                    let e = o.get_peer_id();
                    (o, e)
                };
                let id = simswarm::probe::cid(opts.connection_id());
                if *via_behaviour {
                    self.m[i].beh_dials.insert(id, exp);
                    self.m[i].beh_role_override.insert(id, *override_role);
                    self.w.nodes[i].swarm.behaviour_mut().probe(0).push_cmd(ToSwarm::Dial { opts });
                } else {
                    let before = self.w.n_dials(i);
                    // the state the PeerCondition is about, from the history: connected = an established and not yet
                    // closed connection to the peer; dialing = an accepted dial for the peer without a terminal event
                    // (whatever role the dial was made in)
                    let connected = exp.map(|p| self.m[i].est.contains_key(&p)).unwrap_or(false);
                    let dialing_any = exp.is_some() && self.m[i].ids.values().any(|x| x.outbound && x.handed_out && x.terminal.is_empty() && x.expected == exp);
                    let dialing_plain = exp.is_some() && self.m[i].ids.values().any(|x| x.outbound && x.handed_out && x.terminal.is_empty() && x.expected == exp && !x.role_override);
                    let effective_cond = if *with_peer { cond } else { PeerCondition::Always };
                    let should = match effective_cond {
                        PeerCondition::Always => true,
                        PeerCondition::Disconnected => !connected,
                        PeerCondition::NotDialing => !dialing_any,
                        PeerCondition::DisconnectedAndNotDialing => !connected && !dialing_any,
                    };
                    let r = self.w.dial(i, opts);
                    let after = self.w.n_dials(i);
                    let info = self.m[i].ids.entry(id).or_default();
                    if info.handed_out {
                        self.fail("C03:connection-id-reused", json!({"node": i, "conn": id}));
                        return;
                    }
                    let rejected_for_condition = r == Err(ErrKind::ConditionFalse);
                    match r {
                        Ok(_) => {
                            info.handed_out = true;
                            info.outbound = true;
                            info.expected = exp;
                            info.role_override = *override_role;
                            self.m[i].pend_out += 1;
                            for d in before..after {
                                self.m[i].dial_conn.insert(d, id);
                            }
                            if *override_role {
                                self.flags.role_override_dials += 1;
                            }
                            if !matches!(effective_cond, PeerCondition::Always) {
                                self.flags.cond_true += 1;
                            }
                        }
                        Err(k) => {
                            info.sync_err = Some(k);
                            if after != before {
                                // transport dials performed for a rejected dial
                                self.fail("C04:transport-dialed-for-rejected-dial", json!({"node": i, "conn": id}));
                            }
                        }
                    }
                    if rejected_for_condition {
                        self.flags.cond_false += 1;
                        if !connected && !dialing_plain && !matches!(effective_cond, PeerCondition::Disconnected) {
                            self.flags.cond_false_by_role_override_dial += 1;
                        }
                    }
                    if rejected_for_condition == should {
                        let sig = if should { "C04:dial-rejected-although-condition-holds-in-history" } else { "C04:condition-false-in-history-but-dial-not-rejected" };
                        self.fail(
                            sig,
                            json!({"node": i, "conn": id, "condition": format!("{effective_cond:?}"), "connected_in_history": connected, "dialing_in_history": dialing_any, "only_role_overridden_dials_pending": dialing_any && !dialing_plain, "result": if rejected_for_condition { "DialPeerConditionFalse" } else { "other" }}),
                        );
                    }
                    self.m[i].seen_dials = after;
                    self.check_counters(i, "after dial()");
                }
            }
            Op::ResolveOk { n, pick: p, auth, attach } => {
                let i = *n as usize % nn;
                let open = self.w.open_dials(i);
                if open.is_empty() {
                    return;
                }
                let d = open[pick(*p, open.len())];
                let addr = self.w.dial_addr(i, d);
                let owner = self.owner_of(&addr);
                let local = self.w.nodes[i].peer;
                let a = self.who(*auth, owner, local);
                // attach to a node if the address is one of its open listeners
                let bare = strip_p2p(&addr);
                let mut att = None;
                if *attach {
                    for j in 0..nn {
                        for (k, lid) in self.w.nodes[j].listeners.iter().enumerate() {
                            let s = self.w.nodes[j].net.lock().unwrap();
                            if s.listeners.iter().any(|l| l.id == *lid && l.open && l.requested == bare) {
                                att = Some((j, k));
                            }
                        }
                    }
                }
                let link_no = self.w.links.len();
                let attach_arg = att.map(|(j, k)| (j, k, Multiaddr::empty().with(Protocol::Memory(5000 + link_no as u64))));
                let n_in_before = self.w.incoming.len();
                if let Some(l) = self.w.resolve_ok(i, d, a, attach_arg) {
                    let conn = self.m[i].dial_conn.get(&d).cloned();
                    self.link_conn.push(conn);
                    self.link_auth.push(a);
                    if let Some(c) = conn {
                        self.m[i].auths.entry(c).or_default().push((a, l));
                    }
                    if self.w.incoming.len() > n_in_before {
                        self.in_auth_expected.push(Some(local));
                        self.flags.two_node_links += 1;
                    }
                }
            }
            Op::ResolveErr { n, pick: p } => {
                let i = *n as usize % nn;
                let open = self.w.open_dials(i);
                if open.is_empty() {
                    return;
                }
                let d = open[pick(*p, open.len())];
                self.w.resolve_err(i, d);
            }
            Op::Connect { n, to, settle } => {
                let i = *n as usize % nn;
                if let Some(j) = self.node_of(i, *to) {
                    if self.w.nodes[j].listeners.is_empty() {
                        self.exec_op(&Op::Listen { n: j as u8 });
                        self.poll_node(j, 2);
                    }
                }
                let open_before: BTreeSet<usize> = self.w.open_dials(i).into_iter().collect();
                let in_before = self.w.incoming.len();
                self.exec_op(&Op::Dial { n: *n, to: *to, with_peer: true, p2p_suffix: false, cond: 0, naddrs: 1, via_behaviour: false, override_role: false });
                let new: Vec<usize> = self.w.open_dials(i).into_iter().filter(|d| !open_before.contains(d)).collect();
                if let Some(d) = new.first() {
                    // resolve exactly this dial: find its position among the open dials
                    let open = self.w.open_dials(i);
                    let pos = open.iter().position(|x| x == d).unwrap();
                    let p = (((pos as u32) << 16) / open.len() as u32 + 1).min(65535) as u16;
                    debug_assert_eq!(pick(p, open.len()), pos);
                    self.exec_op(&Op::ResolveOk { n: *n, pick: p, auth: Who::Expected, attach: true });
                    if self.w.incoming.len() > in_before {
                        let k = in_before;
                        if let Some(j) = self.node_of(i, *to) {
                            self.poll_node(j, 2);
                        }
                        let node = self.w.incoming[k].node;
                        let _ = node;
                        let a = self.in_auth_expected.get(k).cloned().flatten();
                        self.w.resolve_incoming(k, a);
                    }
                }
                if *settle {
                    self.settle();
                }
            }
            Op::Inbound { n } => {
                let i = *n as usize % nn;
                if self.w.nodes[i].listeners.is_empty() {
                    return;
                }
                let k = self.w.incoming.len();
                if self.w.incoming_phantom(i, 0, Multiaddr::empty().with(Protocol::Memory(6000 + k as u64))).is_some() {
                    self.in_auth_expected.push(None);
                }
            }
            Op::ResolveIn { pick: p, auth } => {
                let open = self.w.open_incoming();
                if open.is_empty() {
                    return;
                }
                let k = open[pick(*p, open.len())];
                let node = self.w.incoming[k].node;
                let local = self.w.nodes[node].peer;
                let exp = self.in_auth_expected.get(k).cloned().flatten().unwrap_or_else(|| phantom_peer(k as u8));
                let a = auth.map(|w| self.who(w, exp, local));
                self.w.resolve_incoming(k, a);
            }
            Op::Close { n, pick: p } => {
                let i = *n as usize % nn;
                let ids = self.all_conn_ids(i);
                if ids.is_empty() {
                    return;
                }
                let id = ids[pick(*p, ids.len())];
                let is_est = self.m[i].est_dir.contains_key(&id);
                let r = self.w.nodes[i].swarm.close_connection(ConnectionId::new_unchecked(id as usize));
                if r != is_est {
                    self.fail("C02:close-connection-return-disagrees", json!({"node": i, "conn": id, "returned": r, "model_established": is_est}));
                }
                self.note_close_with_pending(i, id);
            }
            Op::BehClose { n, field, pick: p, all } => {
                let i = *n as usize % nn;
                let est = self.est_conns(i);
                if est.is_empty() {
                    return;
                }
                let (peer, conn) = est[pick(*p, est.len())];
                let f = *field as usize % self.w.nodes[i].swarm.behaviour_mut().fields();
                let connection = if *all { CloseConnection::All } else { CloseConnection::One(ConnectionId::new_unchecked(conn as usize)) };
                self.w.nodes[i].swarm.behaviour_mut().probe(f).push_cmd(ToSwarm::CloseConnection { peer_id: peer, connection });
                self.note_close_with_pending(i, conn);
            }
            Op::Disconnect { n, peer } => {
                let i = *n as usize % nn;
                let p = gen::peer(*peer as usize);
                let was = self.m[i].est.contains_key(&p);
                let r = self.w.nodes[i].swarm.disconnect_peer_id(p);
                if r.is_ok() != was {
                    self.fail("C02:disconnect-return-disagrees", json!({"node": i, "peer": p.to_string(), "returned_ok": r.is_ok(), "model_connected": was}));
                }
            }
            Op::DisconnectDialing { n, pick: p, run_tasks, via_behaviour } => {
                let i = *n as usize % nn;
                let pend: Vec<(u64, PeerId)> = self.m[i].ids.iter().filter(|(_, x)| x.outbound && x.handed_out && x.terminal.is_empty()).filter_map(|(c, x)| x.expected.map(|p| (*c, p))).collect();
                if pend.is_empty() {
                    return;
                }
                let (_, peer) = pend[pick(*p, pend.len())];
                if *run_tasks {
                    self.w.exec.drain(64);
                }
                self.flags.disconnect_dialing += 1;
                // every pending dial for that peer is aborted by the call
                let same: Vec<u64> = pend.iter().filter(|(_, q)| *q == peer).map(|(c, _)| *c).collect();
                for c in same {
                    // a transport dial of this attempt succeeded and authenticated (whatever id): the attempt has a result
                    let resolved = self.m[i].auths.contains_key(&c);
                    if resolved {
                        self.flags.disconnect_after_resolution += 1;
                        if *run_tasks {
                            self.flags.disconnect_with_result_queued += 1;
                            if let Some(x) = self.m[i].ids.get_mut(&c) {
                                x.raced = true;
                            }
                        }
                    }
                }
                if *via_behaviour {
                    let f = 0;
                    self.w.nodes[i].swarm.behaviour_mut().probe(f).push_cmd(ToSwarm::CloseConnection { peer_id: peer, connection: CloseConnection::All });
                } else {
                    let was = self.m[i].est.contains_key(&peer);
                    let r = self.w.nodes[i].swarm.disconnect_peer_id(peer);
                    if r.is_ok() != was {
                        self.fail("C02:disconnect-return-disagrees", json!({"node": i, "peer": peer.to_string(), "returned_ok": r.is_ok(), "model_connected": was}));
                    }
                }
            }
            Op::RemoteClose { pick: p } => {
                if self.w.links.is_empty() {
                    return;
                }
                let l = pick(*p, self.w.links.len());
                self.w.links[l].a.remote_close();
            }
            Op::Fault { pick: p } => {
                if self.w.links.is_empty() {
                    return;
                }
                let l = pick(*p, self.w.links.len());
                self.w.links[l].a.inject_fault(std::io::ErrorKind::BrokenPipe);
            }
            Op::Notify { n, field, pick: p, any, cmd } => {
                let i = *n as usize % nn;
                let est = self.est_conns(i);
                if est.is_empty() {
                    return;
                }
                let (peer, conn) = est[pick(*p, est.len())];
                let f = *field as usize % self.w.nodes[i].swarm.behaviour_mut().fields();
                self.next_n += 1;
                let nno = self.next_n;
                let handler = if *any { NotifyHandler::Any } else { NotifyHandler::One(ConnectionId::new_unchecked(conn as usize)) };
                let seq = self.w.log.lock().unwrap().recs.len() as u64;
                self.emissions.push(Emission { node: i as u8, field: f as u8, n: nno, peer, one: if *any { None } else { Some(conn) }, queued_at_log_seq: seq, emit: matches!(cmd, HCmd::Emit(_)), emit_on_close: matches!(cmd, HCmd::EmitOnClose(_)) });
                self.flags.notifies += 1;
                // handler-emitted events carry the notification number as their tag so that they can be correlated
                let cmd = match cmd {
                    HCmd::Emit(_) => HCmd::Emit(nno),
                    HCmd::EmitOnClose(_) => HCmd::EmitOnClose(nno),
                    c => c.clone(),
                };
                self.w.nodes[i].swarm.behaviour_mut().probe(f).push_cmd(ToSwarm::NotifyHandler { peer_id: peer, handler, event: HIn { n: nno, cmd } });
            }
            Op::Poll { n } => {
                let i = *n as usize % nn;
                self.poll_node(i, 6);
            }
            Op::Step { picks } => {
                for p in picks {
                    if self.w.exec.step(*p).is_none() {
                        break;
                    }
                }
            }
            Op::Settle => {
                self.settle();
            }
            Op::Ext { n, kind, arg } => {
                let i = *n as usize % nn;
                self.ext.op(&mut self.w, &self.m, i, *kind, *arg);
                self.check_counters(i, "after ext op");
            }
        }
    }

    fn note_close_with_pending(&mut self, i: usize, conn: u64) {
        let peer = self.m[i].ids.get(&conn).and_then(|x| x.est_peer);
        if let Some(p) = peer {
            if self.m[i].ids.values().any(|x| x.handed_out && x.terminal.is_empty() && x.expected == Some(p)) {
                self.flags.close_with_pending_same_peer += 1;
            }
        }
    }
}

fn project_log(recs: &[Rec], node: u8, field: u8) -> Vec<(char, u64)> {
    recs.iter()
        .filter(|r| r.node == node && r.field == field)
        .filter_map(|r| match &r.entry {
            Entry::Swarm(FS::Established { conn, .. }) => Some(('E', *conn)),
            Entry::Swarm(FS::Closed { conn, .. }) => Some(('C', *conn)),
            Entry::Swarm(FS::DialFailure { conn, .. }) => Some(('D', *conn)),
            Entry::Swarm(FS::ListenFailure { conn, .. }) => Some(('L', *conn)),
            _ => None,
        })
        .collect()
}

fn run_generic_focus<B: Probes>(case: &Case, focus: Option<&str>, make: impl FnMut(usize, simswarm::probe::SharedLog) -> B) -> RunResult
where
    B::ToSwarm: std::fmt::Debug,
{
    run_with_focus(case, focus, make, &mut ())
}

/// Run a case over an arbitrary probe-containing behaviour with a check-specific extension.
pub fn run_with<B: Probes>(case: &Case, make: impl FnMut(usize, simswarm::probe::SharedLog) -> B, ext: &mut dyn Ext<B>) -> RunResult
where
    B::ToSwarm: std::fmt::Debug,
{
    run_with_focus(case, None, make, ext)
}

/// `run_with`, but only failures whose signature starts with `focus` end the run (see `Interp::focus`).
pub fn run_with_focus<B: Probes>(case: &Case, focus: Option<&str>, make: impl FnMut(usize, simswarm::probe::SharedLog) -> B, ext: &mut dyn Ext<B>) -> RunResult
where
    B::ToSwarm: std::fmt::Debug,
{
    let nn = case.nodes.clamp(1, 3) as usize;
    let peers: Vec<PeerId> = (0..nn).map(node_peer).collect();
    let conc = NonZeroU8::new(case.conc.clamp(1, 4)).unwrap();
    let buf = NonZeroUsize::new(case.buf.clamp(1, 8) as usize).unwrap();
    let w = World::new(&peers, make, |c| {
        c.with_dial_concurrency_factor(conc).with_notify_handler_buffer_size(buf).with_idle_connection_timeout(std::time::Duration::from_secs(3600))
    });
    let mut it = Interp {
        focus: focus.map(|s| s.to_string()),
        ext,
        w,
        m: (0..nn).map(|_| NodeModel::default()).collect(),
        fails: vec![],
        fail_at: vec![],
        flags: Flags::default(),
        next_n: 0,
        emissions: vec![],
        link_conn: vec![],
        link_auth: vec![],
        in_auth_expected: vec![],
    };
    for op in &case.ops {
        if it.halted() {
            break;
        }
        it.exec_op(op);
    }
    // wind down: everything the script left pending fails, then quiescence
    let mut settled = true;
    if !it.halted() {
        settled = it.settle();
        for i in 0..nn {
            for d in it.w.open_dials(i) {
                it.w.resolve_err(i, d);
            }
        }
        for k in it.w.open_incoming() {
            it.w.resolve_incoming(k, None);
        }
        settled &= it.settle();
    }
    let recs: Vec<Rec> = it.w.log.lock().unwrap().recs.clone();
    let complete = !it.halted();
    if !it.halted() && settled {
        final_checks(&mut it, &recs, case);
    }
    if !it.halted() && settled {
        if let Some((sig, detail)) = it.ext.finish(&mut it.w, &it.m) {
            it.fail(&sig, detail);
        }
    }
    let links: Vec<LinkInfo> = it
        .w
        .links
        .iter()
        .enumerate()
        .map(|(k, l)| LinkInfo {
            node: l.dialer,
            conn: it.link_conn.get(k).cloned().flatten(),
            auth: it.link_auth[k],
            a_closed: l.a.closed(),
            a_close_polled: l.a.close_polled(),
            a_dropped: l.a.with(|s| s.dropped),
        })
        .collect();
    let mut handlers = vec![];
    for i in 0..nn {
        let nf = it.w.nodes[i].swarm.behaviour_mut().fields();
        for f in 0..nf {
            let hs = it.w.nodes[i].swarm.behaviour_mut().probe(f).handlers.lock().unwrap().clone();
            for (conn, st) in hs {
                let s = st.lock().unwrap();
                handlers.push((i as u8, f as u8, conn, s.polls, s.alive));
            }
        }
    }
    let events = it.w.nodes.iter().map(|n| n.events.clone()).collect();
    while it.fail_at.len() < it.fails.len() {
        it.fail_at.push(recs.len() as u64);
    }
    let res = RunResult { fails: it.fails, fail_at: it.fail_at, flags: it.flags, events, log: recs, models: it.m, settled, complete, peers, links, handlers, emissions: it.emissions };
    drop(it.w);
    release_phantoms();
    res
}

fn final_checks<B: Probes>(it: &mut Interp<'_, B>, recs: &[Rec], case: &Case)
where
    B::ToSwarm: std::fmt::Debug,
{
    let nn = it.w.nodes.len();
    for i in 0..nn {
        // C01: exactly one terminal for every id handed out
        let ids: Vec<(u64, IdInfo)> = it.m[i].ids.iter().map(|(k, v)| (*k, v.clone())).collect();
        for (id, info) in &ids {
            if info.handed_out && info.terminal.len() != 1 {
                it.fail("C01:no-terminal-at-quiescence", json!({"node": i, "conn": id, "terminals": info.terminal, "outbound": info.outbound}));
            }
            if !info.handed_out && !info.terminal.is_empty() {
                it.fail("C01:event-for-rejected-dial", json!({"node": i, "conn": id, "terminals": info.terminal}));
            }
        }
        if it.m[i].pend_in != 0 || it.m[i].pend_out != 0 {
            it.fail("C02:pending-nonzero-at-quiescence", json!({"node": i, "pend_in": it.m[i].pend_in, "pend_out": it.m[i].pend_out}));
        }
        // C01: FromSwarm projection == SwarmEvent projection (ids in the universe only), per field
        let universe: BTreeSet<u64> = ids.iter().filter(|(_, v)| v.handed_out).map(|(k, _)| *k).collect();
        let sw: Vec<(char, u64)> = it.m[i].sw_seq.iter().filter(|(_, c)| universe.contains(c)).cloned().collect();
        for f in 0..case.fields.clamp(1, 3) {
            let lg: Vec<(char, u64)> = project_log(recs, i as u8, f).into_iter().filter(|(_, c)| universe.contains(c)).collect();
            if lg != sw {
                it.fail("C01:fromswarm-order-differs-from-swarm-events", json!({"node": i, "field": f, "from_swarm": format!("{lg:?}"), "swarm_events": format!("{sw:?}")}));
            }
        }
        // C01/C04: a synchronously rejected dial is reported exactly once to every field
        for (id, info) in &ids {
            if let Some(k) = &info.sync_err {
                for f in 0..case.fields.clamp(1, 3) {
                    let n = recs.iter().filter(|r| r.node == i as u8 && r.field == f && matches!(&r.entry, Entry::Swarm(FS::DialFailure { conn, .. }) if conn == id)).count();
                    if n != 1 {
                        it.fail("C04:rejected-dial-not-reported-exactly-once", json!({"node": i, "field": f, "conn": id, "kind": format!("{k:?}"), "dial_failures": n}));
                    }
                }
            }
        }
    }
    // C05: underlying connection closed on identity failure
    for (k, l) in it.w.links.iter().enumerate() {
        let Some(conn) = it.link_conn.get(k).cloned().flatten() else { continue };
        let info = it.m[l.dialer].ids.get(&conn).cloned().unwrap_or_default();
        let t = info.terminal.first().cloned().unwrap_or_default();
        if (t.contains("WrongPeerId") || t.contains("LocalPeerId")) && !l.a.closed() {
            it.fails.push(("C05:connection-not-closed-after-identity-failure".into(), json!({"node": l.dialer, "conn": conn, "terminal": t, "link": k})));
        }
    }
    for i in 0..nn {
        let ids: Vec<(u64, IdInfo)> = it.m[i].ids.iter().map(|(k, v)| (*k, v.clone())).collect();
        for (id, info) in ids {
            let t = info.terminal.first().cloned().unwrap_or_default();
            if t.contains("WrongPeerId") || t.contains("LocalPeerId") {
                let given = it.m[i].auths.get(&id).cloned().unwrap_or_default();
                if !given.is_empty() && !given.iter().any(|(_, l)| it.w.links[*l].a.close_polled()) {
                    it.fail("C05:muxer-close-not-driven-after-identity-failure", json!({"node": i, "conn": id, "terminal": t}));
                }
            }
        }
    }
    // inbound LocalPeerId: pending incoming resolved with the node's own id must fail
    // (covered by the Established arm: peer == local is flagged)

    // C06: denials are final
    let nf = case.fields.clamp(1, 3);
    for r in recs.iter() {
        let (conn, denied, point) = match &r.entry {
            Entry::PendingIn { conn, denied } => (*conn, *denied, Decision::PendingIn),
            Entry::PendingOut { conn, denied, .. } => (*conn, *denied, Decision::PendingOut),
            Entry::EstIn { conn, denied, .. } => (*conn, *denied, Decision::EstIn),
            Entry::EstOut { conn, denied, .. } => (*conn, *denied, Decision::EstOut),
            _ => continue,
        };
        if !denied {
            continue;
        }
        let i = r.node as usize;
        if r.field > 0 {
            it.flags.denial_non_first_field += 1;
        }
        // never reported established
        let est_ev = it.w.nodes[i].events.iter().any(|e| matches!(e, Ev::Established { conn: c, .. } if *c == conn));
        let est_fs = recs.iter().any(|x| x.node == r.node && matches!(&x.entry, Entry::Swarm(FS::Established { conn: c, .. }) if *c == conn));
        if est_ev || est_fs {
            it.fails.push(("C06:denied-connection-reported-established".into(), json!({"node": i, "conn": conn, "point": format!("{point:?}"), "field": r.field})));
        }
        // no handler of this connection is ever used
        let used = recs.iter().any(|x| x.node == r.node && matches!(&x.entry, Entry::HConn { conn: c, .. } | Entry::HBehaviourEvent { conn: c, .. } if *c == conn));
        let mut polled = false;
        let mut alive = false;
        for f in 0..nf {
            let hs = it.w.nodes[i].swarm.behaviour_mut().probe(f as usize).handlers.lock().unwrap().clone();
            for (c, st) in hs {
                if c == conn {
                    let s = st.lock().unwrap();
                    polled |= s.polls > 0;
                    alive |= s.alive;
                }
            }
        }
        if used || polled || alive {
            it.fails.push(("C06:handler-of-denied-connection-in-use".into(), json!({"node": i, "conn": conn, "used": used, "polled": polled, "alive": alive})));
        }
        // exactly one failure per field; exactly one swarm error event (none for a synchronous dial rejection)
        let outbound = matches!(point, Decision::PendingOut | Decision::EstOut);
        for f in 0..nf {
            let n = recs
                .iter()
                .filter(|x| x.node == r.node && x.field == f)
                .filter(|x| match &x.entry {
                    Entry::Swarm(FS::DialFailure { conn: c, err, .. }) => outbound && *c == conn && *err == ErrKind::Denied,
                    Entry::Swarm(FS::ListenFailure { conn: c, err, .. }) => !outbound && *c == conn && *err == ErrKind::Denied,
                    _ => false,
                })
                .count();
            if n != 1 {
                it.fails.push(("C06:denial-not-reported-exactly-once-to-behaviour".into(), json!({"node": i, "conn": conn, "field": f, "point": format!("{point:?}"), "count": n})));
            }
        }
        let nev = it.w.nodes[i]
            .events
            .iter()
            .filter(|e| match e {
                Ev::OutgoingError { conn: c, err, .. } => *c == conn && *err == ErrKind::Denied,
                Ev::IncomingError { conn: c, err, .. } => *c == conn && *err == ErrKind::Denied,
                _ => false,
            })
            .count();
        let want = if point == Decision::PendingOut { 0 } else { 1 };
        if nev != want {
            it.fails.push(("C06:denial-swarm-event-count".into(), json!({"node": i, "conn": conn, "point": format!("{point:?}"), "events": nev, "expected": want})));
        }
        if point == Decision::PendingOut {
            let sync = it.m[i].ids.get(&conn).and_then(|x| x.sync_err.clone());
            let via_beh = it.m[i].beh_dials.contains_key(&conn);
            if sync != Some(ErrKind::Denied) && !via_beh {
                it.fails.push(("C06:pending-outbound-denial-not-returned".into(), json!({"node": i, "conn": conn, "sync": format!("{sync:?}")})));
            }
        }
        if matches!(point, Decision::EstIn | Decision::EstOut) {
            // was another connection to the same peer open at that time? (for the non-triviality rule)
            if let Entry::EstIn { peer, .. } | Entry::EstOut { peer, .. } = &r.entry {
                let open_before = recs[..r.seq as usize].iter().filter(|x| x.node == r.node && x.field == 0).fold(0i32, |acc, x| match &x.entry {
                    Entry::Swarm(FS::Established { peer: p, .. }) if p == peer => acc + 1,
                    Entry::Swarm(FS::Closed { peer: p, .. }) if p == peer => acc - 1,
                    _ => acc,
                });
                if open_before > 0 {
                    it.flags.est_denial_with_other_open += 1;
                }
            }
        }
    }
}

pub fn run_case(case: &Case) -> RunResult {
    run_case_focus(case, None)
}

/// `run_case` for the check of one property: failures of neighbouring properties do not end the program.
pub fn run_case_focus(case: &Case, focus: Option<&str>) -> RunResult {
    let script_for = |node: usize, field: u8| -> ProbeScript {
        ProbeScript {
            deny: case.denies.iter().filter(|(n, f, _, _)| *n as usize == node && *f == field).map(|(_, _, d, k)| (*d, *k)).collect(),
            dial_addrs: vec![],
            protocols: vec!["/probe/1".into()],
            keep_alive: true,
            stream_timeout_ms: 0,
        }
    };
    match case.fields.clamp(1, 3) {
        1 => run_generic_focus(case, focus, |i, log| Probe::new(i as u8, 0, log, script_for(i, 0))),
        2 => run_generic_focus(case, focus, |i, log| Two { a: Probe::new(i as u8, 0, log.clone(), script_for(i, 0)), b: Probe::new(i as u8, 1, log, script_for(i, 1)) }),
        _ => run_generic_focus(case, focus, |i, log| Three {
            a: Probe::new(i as u8, 0, log.clone(), script_for(i, 0)),
            b: Probe::new(i as u8, 1, log.clone(), script_for(i, 1)),
            c: Probe::new(i as u8, 2, log, script_for(i, 2)),
        }),
    }
}

// ---------------------------------------------------------------------------------------------
// generators

pub fn who() -> impl Strategy<Value = Who> {
    prop_oneof![12 => Just(Who::Expected), 2 => (0u8..8).prop_map(Who::Other), 1 => Just(Who::Local)]
}

pub fn target(_nodes: u8) -> impl Strategy<Value = Target> {
    prop_oneof![6 => (0u8..2).prop_map(Target::Node), 3 => (0u8..3).prop_map(Target::Phantom), 1 => Just(Target::Myself)]
}

pub fn decision() -> impl Strategy<Value = Decision> {
    prop_oneof![Just(Decision::PendingIn), Just(Decision::PendingOut), Just(Decision::EstIn), Just(Decision::EstOut)]
}

pub fn hcmd() -> impl Strategy<Value = HCmd> {
    prop_oneof![3 => Just(HCmd::Nop), 1 => any::<bool>().prop_map(HCmd::KeepAlive), 1 => (0u64..1000).prop_map(HCmd::Emit)]
}

#[derive(Clone, Copy)]
pub struct Weights {
    pub dial: u32,
    pub connect: u32,
    pub resolve_ok: u32,
    pub resolve_err: u32,
    pub inbound: u32,
    pub close: u32,
    pub disconnect: u32,
    pub remote_close: u32,
    pub notify: u32,
    pub poll: u32,
    pub step: u32,
    pub settle: u32,
}

impl Default for Weights {
    fn default() -> Self {
        Weights { dial: 6, connect: 6, resolve_ok: 8, resolve_err: 2, inbound: 3, close: 2, disconnect: 1, remote_close: 1, notify: 0, poll: 5, step: 4, settle: 4 }
    }
}

pub fn op(nodes: u8, w: Weights) -> impl Strategy<Value = Op> {
    let n = 0..nodes;
    let all: Vec<(u32, BoxedStrategy<Op>)> = vec![
        (2, n.clone().prop_map(|n| Op::Listen { n }).boxed()),
        (
            w.dial,
            (n.clone(), target(nodes), any::<bool>(), any::<bool>(), 0u8..8, 1u8..4, proptest::bool::weighted(0.25), proptest::bool::weighted(0.2))
                .prop_map(|(n, to, with_peer, p2p_suffix, cond, naddrs, via_behaviour, override_role)| Op::Dial { n, to, with_peer, p2p_suffix, cond, naddrs, via_behaviour, override_role })
                .boxed(),
        ),
        (w.connect, (n.clone(), target(nodes), any::<bool>()).prop_map(|(n, to, settle)| Op::Connect { n, to, settle }).boxed()),
        (w.resolve_ok, (n.clone(), any::<u16>(), who(), proptest::bool::weighted(0.7)).prop_map(|(n, pick, auth, attach)| Op::ResolveOk { n, pick, auth, attach }).boxed()),
        (w.resolve_err, (n.clone(), any::<u16>()).prop_map(|(n, pick)| Op::ResolveErr { n, pick }).boxed()),
        (w.inbound, n.clone().prop_map(|n| Op::Inbound { n }).boxed()),
        (w.inbound + w.resolve_ok, (any::<u16>(), proptest::option::weighted(0.85, who())).prop_map(|(pick, auth)| Op::ResolveIn { pick, auth }).boxed()),
        (w.close, (n.clone(), any::<u16>()).prop_map(|(n, pick)| Op::Close { n, pick }).boxed()),
        (w.close, (n.clone(), 0u8..3, any::<u16>(), any::<bool>()).prop_map(|(n, field, pick, all)| Op::BehClose { n, field, pick, all }).boxed()),
        (w.disconnect, (n.clone(), 0u8..8).prop_map(|(n, peer)| Op::Disconnect { n, peer }).boxed()),
        (
            w.disconnect,
            (n.clone(), any::<u16>(), proptest::bool::weighted(0.6), proptest::bool::weighted(0.3)).prop_map(|(n, pick, run_tasks, via_behaviour)| Op::DisconnectDialing { n, pick, run_tasks, via_behaviour }).boxed(),
        ),
        (w.remote_close, any::<u16>().prop_map(|pick| Op::RemoteClose { pick }).boxed()),
        (w.remote_close, any::<u16>().prop_map(|pick| Op::Fault { pick }).boxed()),
        (w.notify, (n.clone(), 0u8..3, any::<u16>(), any::<bool>(), hcmd()).prop_map(|(n, field, pick, any, cmd)| Op::Notify { n, field, pick, any, cmd }).boxed()),
        (w.poll, n.clone().prop_map(|n| Op::Poll { n }).boxed()),
        (w.step, proptest::collection::vec(any::<u16>(), 1..6).prop_map(|picks| Op::Step { picks }).boxed()),
        (w.settle, Just(Op::Settle).boxed()),
    ];
    proptest::strategy::Union::new_weighted(all.into_iter().filter(|(w, _)| *w > 0).collect())
}

pub fn case_strategy(max_nodes: u8, fields: std::ops::RangeInclusive<u8>, max_denies: usize, max_ops: usize, w: Weights) -> BoxedStrategy<Case> {
    (1..=max_nodes, fields)
        .prop_flat_map(move |(nodes, fields)| {
            (
                Just(nodes),
                Just(fields),
                proptest::collection::vec((0..nodes, 0..fields, decision(), 0u8..4), 0..=max_denies),
                1u8..4,
                1u8..4,
                proptest::collection::vec(op(nodes, w), 4..=max_ops),
            )
        })
        .prop_map(|(nodes, fields, denies, conc, buf, ops)| Case { nodes, fields, denies, conc, buf, ops })
        .boxed()
}

/// `case_strategy` plus behaviour-specific `Op::Ext { n, kind in 0..kinds, arg in 0..args }` operations with weight `weight`
/// (relative to the sum of the `Weights`).
pub fn case_strategy_ext(max_nodes: u8, fields: std::ops::RangeInclusive<u8>, max_denies: usize, ops: std::ops::RangeInclusive<usize>, w: Weights, weight: u32, kinds: u8, args: u8) -> BoxedStrategy<Case> {
    let total = 2 + w.dial + w.connect + w.resolve_ok + w.resolve_err + 2 * w.inbound + w.resolve_ok + 2 * w.close + 2 * w.disconnect + 2 * w.remote_close + w.notify + w.poll + w.step + w.settle;
    (1..=max_nodes, fields)
        .prop_flat_map(move |(nodes, fields)| {
            let one = prop_oneof![
                total => op(nodes, w),
                weight => (0..nodes, 0..kinds, 0..args).prop_map(|(n, kind, arg)| Op::Ext { n, kind, arg }),
            ];
            (Just(nodes), Just(fields), proptest::collection::vec((0..nodes, 0..fields, decision(), 0u8..4), 0..=max_denies), 1u8..4, 1u8..4, proptest::collection::vec(one, ops.clone()))
        })
        .prop_map(|(nodes, fields, denies, conc, buf, ops)| Case { nodes, fields, denies, conc, buf, ops })
        .boxed()
}
