//! C10 — idle connections close only when truly idle; once idle, they close with KeepAliveTimeout no
//! earlier than the idle timeout.
//!
//! One interpreter, two back-ends, three timing modes.
//!
//! Back-ends
//! * `Direct` — the real `Connection` object (hook `swarm::verif::Conn`) polled by the harness itself,
//!   over a simulated muxer whose remote side the harness plays (real multistream-select on both ends).
//! * `World`  — a real `Swarm` in the simulated world (connection task on the harness executor); the
//!   close is observed as `SwarmEvent::ConnectionClosed { cause }`.
//!
//! Modes
//! * `Asap`  (idle timeout 0, deterministic): after every poll-to-quiescence the connection is closed
//!   with KeepAliveTimeout **iff** none of the four busy conditions holds.
//! * `Armed` (idle timeout 1 h, deterministic, Direct only): the connection never closes; the planned
//!   shutdown read through the hook is `None` whenever a busy condition holds (a timer that survived a
//!   busy period would fire too early) and `Later` when idle.
//! * `Timed` (idle timeout 25 ms, wall clock, one-sided): a close implies no busy condition and at
//!   least the timeout elapsed since the harness timestamp taken *before* the poll in which the
//!   connection could first have seen itself idle (jitter can only lengthen the measured time); a busy
//!   connection survives a wait longer than the timeout; a missed deadline is Inconclusive, never a
//!   violation.
//!
//! The harness model of "busy" is built only from what the harness itself did or saw (handler
//! callbacks, muxer counters, its own commands) and is evaluated where the connection evaluates it:
//! at the end of a poll. A keep-alive flag that was raised and lowered again without the connection
//! being polled in between was never "asked" of the connection and is not counted.
use futures::task::{waker, ArcWake};
use libp2p_core::transport::PortUse;
use libp2p_core::upgrade::ReadyUpgrade;
use libp2p_core::{Endpoint, Multiaddr};
use libp2p_identity::PeerId;
use libp2p_swarm::dial_opts::DialOpts;
use libp2p_swarm::handler::ConnectionEvent;
use libp2p_swarm::verif::{Conn, ConnPoll, ShutdownView};
use libp2p_swarm::{
    ConnectionDenied, ConnectionError, ConnectionHandler, ConnectionHandlerEvent, ConnectionId, FromSwarm, NetworkBehaviour, Stream, StreamProtocol, SubstreamProtocol, THandlerInEvent,
    THandlerOutEvent, ToSwarm,
};
use multiaddr::Protocol;
use multistream_select::{dialer_select_proto, listener_select_proto, Version};
use proptest::prelude::*;
use serde::{Deserialize, Serialize};
use serde_json::json;
use simswarm::net::{boxed, mux_pair, MuxCtl, SimMuxer};
use simswarm::world::{release_phantoms, Ev, World};
use std::convert::Infallible;
use std::future::Future;
use std::pin::Pin;
use std::sync::atomic::{AtomicBool, Ordering};
use std::sync::{Arc, Mutex};
use std::task::{Context, Poll, Waker};
use std::time::{Duration, Instant};
use vcore::simio::Duplex;
use vcore::{gen, Ctx, Outcome};

const PROTO: StreamProtocol = StreamProtocol::new("/c10/1");
const HOUR: Duration = Duration::from_secs(3600);
const TIMED: Duration = Duration::from_millis(25);
const MAX_REMOTE_OPEN: u32 = 6;

// ---------------------------------------------------------------------------------------------
// handler + behaviour (state shared with the harness)

struct Held {
    s: Stream,
    ignored: bool,
}

#[derive(Default)]
struct Shared {
    keep_alive: bool,
    want_open: u32,
    streams: Vec<Held>,
    waker: Option<Waker>,
    requested: u32,
    out_ok: u32,
    out_err: u32,
    in_ok: u32,
    in_err: u32,
}

type Sh = Arc<Mutex<Shared>>;

struct H10 {
    sh: Sh,
}

impl ConnectionHandler for H10 {
    type FromBehaviour = Infallible;
    type ToBehaviour = Infallible;
    type InboundProtocol = ReadyUpgrade<StreamProtocol>;
    type OutboundProtocol = ReadyUpgrade<StreamProtocol>;
    type InboundOpenInfo = ();
    type OutboundOpenInfo = ();

    fn listen_protocol(&self) -> SubstreamProtocol<Self::InboundProtocol, ()> {
        SubstreamProtocol::new(ReadyUpgrade::new(PROTO), ()).with_timeout(HOUR)
    }

    fn connection_keep_alive(&self) -> bool {
        self.sh.lock().unwrap().keep_alive
    }

    fn poll(&mut self, cx: &mut Context<'_>) -> Poll<ConnectionHandlerEvent<Self::OutboundProtocol, (), Infallible>> {
        let mut g = self.sh.lock().unwrap();
        if g.want_open > 0 {
            g.want_open -= 1;
            g.requested += 1;
            return Poll::Ready(ConnectionHandlerEvent::OutboundSubstreamRequest { protocol: SubstreamProtocol::new(ReadyUpgrade::new(PROTO), ()).with_timeout(HOUR) });
        }
        g.waker = Some(cx.waker().clone());
        Poll::Pending
    }

    fn on_behaviour_event(&mut self, ev: Infallible) {
        match ev {}
    }

    fn on_connection_event(&mut self, event: ConnectionEvent<Self::InboundProtocol, Self::OutboundProtocol, (), ()>) {
        let mut g = self.sh.lock().unwrap();
        match event {
            ConnectionEvent::FullyNegotiatedInbound(f) => {
                g.streams.push(Held { s: f.protocol, ignored: false });
                g.in_ok += 1;
            }
            ConnectionEvent::FullyNegotiatedOutbound(f) => {
                g.streams.push(Held { s: f.protocol, ignored: false });
                g.out_ok += 1;
            }
            ConnectionEvent::DialUpgradeError(_) => g.out_err += 1,
            ConnectionEvent::ListenUpgradeError(_) => g.in_err += 1,
            _ => {}
        }
    }
}

struct B10 {
    sh: Sh,
}

impl NetworkBehaviour for B10 {
    type ConnectionHandler = H10;
    type ToSwarm = Infallible;

    fn handle_established_inbound_connection(&mut self, _: ConnectionId, _: PeerId, _: &Multiaddr, _: &Multiaddr) -> Result<H10, ConnectionDenied> {
        Ok(H10 { sh: self.sh.clone() })
    }
    fn handle_established_outbound_connection(&mut self, _: ConnectionId, _: PeerId, _: &Multiaddr, _: Endpoint, _: PortUse) -> Result<H10, ConnectionDenied> {
        Ok(H10 { sh: self.sh.clone() })
    }
    fn on_swarm_event(&mut self, _: FromSwarm) {}
    fn on_connection_handler_event(&mut self, _: PeerId, _: ConnectionId, ev: THandlerOutEvent<Self>) {
        match ev {}
    }
    fn poll(&mut self, _: &mut Context<'_>) -> Poll<ToSwarm<Self::ToSwarm, THandlerInEvent<Self>>> {
        Poll::Pending
    }
}

// ---------------------------------------------------------------------------------------------
// case

#[derive(Clone, Debug, Serialize, Deserialize, PartialEq, Eq)]
pub enum Op {
    /// the handler's `connection_keep_alive()` answer from now on
    KeepAlive(bool),
    /// the handler requests an outbound stream on its next poll
    Open,
    /// the muxer (remote) stops / resumes granting outbound streams
    HoldOutbound(bool),
    /// the remote opens a stream towards us (it stays silent: negotiation pending)
    RemoteOpen,
    /// the remote completes multistream-select on its k-th silent stream end
    RemoteAnswer(u8),
    /// the remote drops its k-th silent stream end (negotiation fails on our side)
    RemoteReset(u8),
    /// the k-th held stream is dropped (by the application: the connection is not woken)
    DropStream(u8),
    /// `ignore_for_keep_alive` on the k-th held stream
    Ignore(u8),
    /// real sleep (Timed mode only), polling the connection whenever it is woken
    Sleep(u8),
}

#[derive(Clone, Debug, Serialize, Deserialize, PartialEq, Eq)]
pub struct Case {
    /// (operation, poll the connection to quiescence afterwards)
    pub ops: Vec<(Op, bool)>,
    /// make everything idle at the end (otherwise the final state is whatever the ops left)
    pub wind_down: bool,
}

#[derive(Clone, Copy, PartialEq, Eq, Debug)]
enum Mode {
    Asap,
    Armed,
    Timed,
}

impl Mode {
    fn timeout(self) -> Duration {
        match self {
            Mode::Asap => Duration::ZERO,
            Mode::Armed => HOUR,
            Mode::Timed => TIMED,
        }
    }
}

// ---------------------------------------------------------------------------------------------
// back-ends

struct Flag(AtomicBool);
impl ArcWake for Flag {
    fn wake_by_ref(a: &Arc<Self>) {
        a.0.store(true, Ordering::SeqCst);
    }
}

enum Backend {
    Direct { conn: Option<Conn<H10>>, flag: Arc<Flag> },
    World { w: Box<World<B10>>, seen: usize },
}

enum Pumped {
    Open { quiescent: bool },
    ClosedIdle,
    ClosedOther(String),
}

impl Backend {
    fn woken(&self) -> bool {
        match self {
            Backend::Direct { flag, .. } => flag.0.load(Ordering::SeqCst),
            Backend::World { w, .. } => !w.exec.runnable().is_empty() || w.woken(0),
        }
    }

    /// Poll the connection until nothing is woken any more. `force` polls it even when not woken.
    fn pump(&mut self, force: bool) -> Pumped {
        match self {
            Backend::Direct { conn, flag } => {
                let Some(c) = conn.as_mut() else { return Pumped::Open { quiescent: true } };
                if !force && !flag.0.load(Ordering::SeqCst) {
                    return Pumped::Open { quiescent: true };
                }
                let w = waker(flag.clone());
                let mut cx = Context::from_waker(&w);
                for _ in 0..256 {
                    flag.0.store(false, Ordering::SeqCst);
                    match c.poll(&mut cx) {
                        ConnPoll::Pending => {
                            if !flag.0.load(Ordering::SeqCst) {
                                return Pumped::Open { quiescent: true };
                            }
                        }
                        ConnPoll::Closed(ConnectionError::KeepAliveTimeout) => {
                            *conn = None;
                            return Pumped::ClosedIdle;
                        }
                        ConnPoll::Closed(e) => {
                            *conn = None;
                            return Pumped::ClosedOther(e.to_string());
                        }
                        ConnPoll::Handler(v) => match v {},
                        ConnPoll::AddressChange(_) => {}
                    }
                }
                Pumped::Open { quiescent: false }
            }
            Backend::World { w, seen } => {
                if force {
                    for id in w.exec.alive() {
                        w.exec.poll_task(id);
                    }
                }
                let quiescent = w.settle(200, &mut |_, _, _| {});
                let evs = &w.nodes[0].events;
                let mut out = Pumped::Open { quiescent };
                for e in &evs[*seen..] {
                    if let Ev::Closed { cause, .. } = e {
                        out = match cause.as_deref() {
                            Some("KeepAliveTimeout") => Pumped::ClosedIdle,
                            other => Pumped::ClosedOther(format!("{other:?}")),
                        };
                    }
                }
                *seen = evs.len();
                out
            }
        }
    }

    fn view(&self) -> Option<(ShutdownView, libp2p_swarm::verif::ConnCounts)> {
        match self {
            Backend::Direct { conn: Some(c), .. } => Some((c.shutdown(), c.counts())),
            _ => None,
        }
    }
}

// ---------------------------------------------------------------------------------------------
// interpreter

type RemFut = Pin<Box<dyn Future<Output = Result<Box<dyn std::any::Any>, String>>>>;

enum Rem {
    /// the remote holds its end and says nothing
    Silent(Duplex),
    /// negotiation completed; the negotiated stream is kept open
    Done(#[allow(dead_code)] Box<dyn std::any::Any>),
    /// the remote is in the middle of answering
    Answering,
    Reset,
}

struct RemEnd {
    st: Rem,
    /// we opened it (the remote is the multistream listener)
    ours: bool,
}

struct Run {
    be: Backend,
    sh: Sh,
    ctl: MuxCtl,
    mode: Mode,
    rem: Vec<RemEnd>,
    remote_opened: u32,
    idle_since: Option<Instant>,
    prev_busy: bool,
    flips: u32,
    reasons: Vec<&'static str>,
    closed: bool,
    survived_busy_wait: bool,
    verdict: Option<Outcome>,
}

#[derive(Debug, Clone, Copy, Default, Serialize)]
struct Model {
    keep_alive: bool,
    active: usize,
    neg_in: i64,
    neg_out: i64,
    req_out: i64,
}

impl Model {
    fn reason(&self) -> Option<&'static str> {
        if self.keep_alive {
            Some("keep-alive")
        } else if self.active > 0 {
            Some("active-stream")
        } else if self.neg_in > 0 {
            Some("negotiating-inbound")
        } else if self.neg_out > 0 {
            Some("negotiating-outbound")
        } else if self.req_out > 0 {
            Some("outbound-requested")
        } else {
            None
        }
    }
    fn all_reasons(&self) -> Vec<&'static str> {
        let mut v = vec![];
        if self.keep_alive {
            v.push("keep-alive");
        }
        if self.active > 0 {
            v.push("active-stream");
        }
        if self.neg_in > 0 {
            v.push("negotiating-inbound");
        }
        if self.neg_out > 0 {
            v.push("negotiating-outbound");
        }
        if self.req_out > 0 {
            v.push("outbound-requested");
        }
        v
    }
}

impl Run {
    fn model(&self) -> Model {
        let g = self.sh.lock().unwrap();
        let (accepted_in, opened_out) = self.ctl.with(|s| (s.accepted_in as i64, s.opened_out as i64));
        // inbound ends are accepted by the connection in the order the remote opened them
        let reset_accepted = self.rem.iter().filter(|r| !r.ours).take(accepted_in as usize).filter(|r| matches!(r.st, Rem::Reset)).count() as i64;
        Model {
            keep_alive: g.keep_alive,
            active: g.streams.iter().filter(|h| !h.ignored).count(),
            neg_in: accepted_in - g.in_ok as i64 - g.in_err as i64 - reset_accepted,
            neg_out: opened_out - g.out_ok as i64 - g.out_err as i64,
            req_out: g.requested as i64 - opened_out,
        }
    }

    fn fail(&mut self, sig: &str, detail: serde_json::Value) {
        if self.verdict.is_none() {
            self.verdict = Some(Outcome::fail(sig, detail));
        }
    }

    fn collect_outbound_ends(&mut self) {
        for d in self.ctl.take_peer_inbound() {
            self.rem.push(RemEnd { st: Rem::Silent(d), ours: true });
        }
    }

    /// Poll the connection and judge what happened. `t0` must be taken before anything that the
    /// connection could observe in this poll.
    fn pump(&mut self, force: bool) {
        if self.closed || self.verdict.is_some() {
            return;
        }
        let t0 = Instant::now();
        let p = self.be.pump(force);
        let now = Instant::now();
        self.collect_outbound_ends();
        let m = self.model();
        let busy = m.reason();
        match p {
            Pumped::ClosedOther(e) => {
                self.closed = true;
                self.verdict = Some(Outcome::Inconclusive(format!("connection closed for another reason: {e}")));
            }
            Pumped::ClosedIdle => {
                self.closed = true;
                if let Some(r) = busy {
                    self.fail(&format!("C10:closed-for-idleness-while-busy:{r}"), json!({"model": m, "mode": format!("{:?}", self.mode)}));
                    return;
                }
                match self.mode {
                    Mode::Asap => {}
                    Mode::Armed => self.fail("C10:closed-before-idle-timeout", json!({"idle_timeout_s": 3600, "model": m})),
                    Mode::Timed => {
                        let since = self.idle_since.unwrap_or(t0);
                        let el = now.duration_since(since);
                        if el < TIMED {
                            self.fail(
                                "C10:closed-before-idle-timeout",
                                json!({"idle_timeout_us": TIMED.as_micros() as u64, "elapsed_since_idle_us_upper_bound": el.as_micros() as u64, "idle_seen_in_an_earlier_poll": self.idle_since.is_some()}),
                            );
                        }
                    }
                }
            }
            Pumped::Open { quiescent } => {
                if !quiescent {
                    self.verdict = Some(Outcome::Inconclusive("connection did not become quiescent within the poll bound".into()));
                    return;
                }
                let view = self.be.view();
                match self.mode {
                    Mode::Asap => {
                        if busy.is_none() {
                            self.fail("C10:idle-but-not-closed-with-zero-timeout", json!({"model": m, "hook_view": view.map(|v| format!("{v:?}"))}));
                            return;
                        }
                    }
                    Mode::Armed => {
                        if let Some((sv, _)) = view {
                            if busy.is_some() && sv != ShutdownView::None {
                                self.fail(&format!("C10:shutdown-timer-kept-while-busy:{}", busy.unwrap()), json!({"model": m, "shutdown": format!("{sv:?}")}));
                                return;
                            }
                            if busy.is_none() && sv != ShutdownView::Later {
                                self.fail("C10:idle-without-shutdown-timer", json!({"model": m, "shutdown": format!("{sv:?}")}));
                                return;
                            }
                        }
                    }
                    Mode::Timed => {}
                }
                // harness self-check (Direct only): the model counts what the connection counts
                // (a negotiating stream already holds a clone of the connection's active-stream counter)
                if let Some((_, c)) = view {
                    let same = c.negotiating_in as i64 == m.neg_in && c.negotiating_out as i64 == m.neg_out && c.requested_substreams as i64 == m.req_out && c.has_active_streams == (m.active > 0 || m.neg_in > 0 || m.neg_out > 0);
                    if !same {
                        self.verdict = Some(Outcome::Inconclusive(format!("harness model {m:?} disagrees with the connection's counts {c:?}")));
                        return;
                    }
                }
                for r in m.all_reasons() {
                    if !self.reasons.contains(&r) {
                        self.reasons.push(r);
                    }
                }
                match busy {
                    Some(_) => {
                        if !self.prev_busy {
                            self.flips += 1; // busy -> idle -> busy completed
                        }
                        self.prev_busy = true;
                        self.idle_since = None;
                    }
                    None => {
                        self.prev_busy = false;
                        if self.idle_since.is_none() {
                            self.idle_since = Some(t0);
                        }
                    }
                }
            }
        }
    }

    /// Real wait of at least `d`, polling the connection whenever something woke it.
    fn wait(&mut self, d: Duration, stop_when_closed: bool) {
        let end = Instant::now() + d;
        loop {
            if self.verdict.is_some() || (self.closed && stop_when_closed) {
                return;
            }
            if !self.closed && self.be.woken() {
                self.pump(false);
                continue;
            }
            let now = Instant::now();
            if now >= end {
                return;
            }
            std::thread::sleep((end - now).min(Duration::from_millis(1)));
        }
    }

    fn silent(&self) -> Vec<usize> {
        self.rem.iter().enumerate().filter(|(_, r)| matches!(r.st, Rem::Silent(_))).map(|(i, _)| i).collect()
    }

    fn remote_answer(&mut self, idx: usize) {
        let Rem::Silent(d) = std::mem::replace(&mut self.rem[idx].st, Rem::Answering) else { return };
        let mut fut: RemFut = if self.rem[idx].ours {
            Box::pin(async move { listener_select_proto(d, vec![PROTO]).await.map(|(_, s)| Box::new(s) as Box<dyn std::any::Any>).map_err(|e| e.to_string()) })
        } else {
            Box::pin(async move { dialer_select_proto(d, vec![PROTO], Version::V1).await.map(|(_, s)| Box::new(s) as Box<dyn std::any::Any>).map_err(|e| e.to_string()) })
        };
        let w = futures::task::noop_waker();
        let mut cx = Context::from_waker(&w);
        for _ in 0..64 {
            if let Poll::Ready(r) = fut.as_mut().poll(&mut cx) {
                match r {
                    Ok(s) => self.rem[idx].st = Rem::Done(s),
                    Err(_) => self.rem[idx].st = Rem::Reset,
                }
                // let the connection see the last message
                self.pump(true);
                return;
            }
            self.pump(true);
            if self.closed || self.verdict.is_some() {
                return;
            }
        }
        // the connection never took the stream (e.g. still queued in the muxer): the remote gives up
        drop(fut);
        self.rem[idx].st = Rem::Reset;
        self.pump(true);
    }

    fn exec(&mut self, op: &Op, then_poll: bool) {
        match op {
            Op::KeepAlive(b) => self.sh.lock().unwrap().keep_alive = *b,
            Op::Open => {
                let w = {
                    let mut g = self.sh.lock().unwrap();
                    g.want_open += 1;
                    g.waker.take()
                };
                if let Some(w) = w {
                    w.wake();
                }
            }
            Op::HoldOutbound(b) => self.ctl.hold_outbound(*b),
            Op::RemoteOpen => {
                if self.remote_opened < MAX_REMOTE_OPEN {
                    self.remote_opened += 1;
                    let d = self.ctl.remote_open();
                    self.rem.push(RemEnd { st: Rem::Silent(d), ours: false });
                }
            }
            Op::RemoteAnswer(k) => {
                let s = self.silent();
                if !s.is_empty() {
                    self.remote_answer(s[vcore::pick(*k as u16, s.len())]);
                }
            }
            Op::RemoteReset(k) => {
                let s = self.silent();
                if !s.is_empty() {
                    self.rem[s[vcore::pick(*k as u16, s.len())]].st = Rem::Reset;
                }
            }
            Op::DropStream(k) => {
                let mut g = self.sh.lock().unwrap();
                if !g.streams.is_empty() {
                    let i = vcore::pick(*k as u16, g.streams.len());
                    let h = g.streams.remove(i);
                    drop(g);
                    drop(h);
                }
            }
            Op::Ignore(k) => {
                let mut g = self.sh.lock().unwrap();
                if !g.streams.is_empty() {
                    let i = vcore::pick(*k as u16, g.streams.len());
                    g.streams[i].s.ignore_for_keep_alive();
                    g.streams[i].ignored = true;
                }
            }
            Op::Sleep(ms) => {
                if self.mode == Mode::Timed {
                    self.wait(Duration::from_millis(*ms as u64), true);
                }
            }
        }
        if then_poll {
            self.pump(true);
        }
    }

    /// Everything that keeps the connection busy goes away.
    fn wind_down(&mut self) {
        for _ in 0..6 {
            if self.closed || self.verdict.is_some() {
                return;
            }
            {
                let mut g = self.sh.lock().unwrap();
                g.keep_alive = false;
                g.want_open = 0;
                let s: Vec<Held> = g.streams.drain(..).collect();
                drop(g);
                drop(s);
            }
            self.ctl.hold_outbound(false);
            for r in self.rem.iter_mut() {
                if matches!(r.st, Rem::Silent(_)) {
                    r.st = Rem::Reset;
                }
            }
            self.pump(true);
            if self.closed || self.verdict.is_some() {
                return;
            }
            if self.model().reason().is_none() && self.silent().is_empty() {
                return;
            }
        }
    }
}

fn start(mode: Mode, world: bool) -> Result<Run, Outcome> {
    let sh: Sh = Arc::new(Mutex::new(Shared { keep_alive: true, ..Default::default() }));
    let (be, ctl) = if world {
        let shc = sh.clone();
        let mut w: World<B10> = World::new(&[gen::peer(0)], move |_, _| B10 { sh: shc.clone() }, |c| c.with_idle_connection_timeout(mode.timeout()));
        let addr = Multiaddr::empty().with(Protocol::Memory(4410));
        if w.dial(0, DialOpts::unknown_peer_id().address(addr).build()).is_err() {
            return Err(Outcome::Inconclusive("dial refused".into()));
        }
        w.settle(200, &mut |_, _, _| {});
        let Some(&d) = w.open_dials(0).first() else { return Err(Outcome::Inconclusive("no transport dial".into())) };
        let Some(l) = w.resolve_ok(0, d, gen::peer(5), None) else { return Err(Outcome::Inconclusive("dial could not be resolved".into())) };
        w.settle(200, &mut |_, _, _| {});
        if !w.nodes[0].events.iter().any(|e| matches!(e, Ev::Established { .. })) {
            return Err(Outcome::Inconclusive("connection not established".into()));
        }
        let ctl = w.links[l].a.clone();
        let seen = w.nodes[0].events.len();
        (Backend::World { w: Box::new(w), seen }, ctl)
    } else {
        let ((ma, ca), (mb, _cb)): ((SimMuxer, MuxCtl), (SimMuxer, MuxCtl)) = mux_pair();
        // the remote muxer object must stay alive (dropping it is a remote close): parked per thread
        let conn = Conn::new(boxed(ma), H10 { sh: sh.clone() }, 8, mode.timeout());
        REMOTE_MUXERS.with(|r| r.borrow_mut().push(mb));
        (Backend::Direct { conn: Some(conn), flag: Arc::new(Flag(AtomicBool::new(true))) }, ca)
    };
    Ok(Run { be, sh, ctl, mode, rem: vec![], remote_opened: 0, idle_since: None, prev_busy: true, flips: 0, reasons: vec![], closed: false, survived_busy_wait: false, verdict: None })
}

thread_local! {
    static REMOTE_MUXERS: std::cell::RefCell<Vec<SimMuxer>> = const { std::cell::RefCell::new(Vec::new()) };
}

fn run_case(case: &Case, mode: Mode, world: bool) -> Outcome {
    let out = run_case_inner(case, mode, world);
    REMOTE_MUXERS.with(|r| r.borrow_mut().clear());
    release_phantoms();
    out
}

fn run_case_inner(case: &Case, mode: Mode, world: bool) -> Outcome {
    let mut r = match start(mode, world) {
        Ok(r) => r,
        Err(o) => return o,
    };
    r.pump(true);
    for (op, then_poll) in &case.ops {
        if r.closed || r.verdict.is_some() {
            break;
        }
        r.exec(op, *then_poll);
    }
    if !r.closed && r.verdict.is_none() {
        // the connection sees the final state of the script
        r.pump(true);
    }
    let mut deadline_missed = false;
    if !r.closed && r.verdict.is_none() {
        if case.wind_down {
            r.wind_down();
        }
        if mode == Mode::Timed && !r.closed && r.verdict.is_none() {
            if r.model().reason().is_some() {
                // a busy connection outlives the idle timeout
                r.wait(TIMED + Duration::from_millis(15), true);
                if !r.closed && r.verdict.is_none() {
                    r.survived_busy_wait = true;
                }
            } else {
                r.wait(TIMED + Duration::from_millis(400), true);
                if !r.closed {
                    deadline_missed = true;
                }
            }
        }
    }
    if let Some(v) = r.verdict.take() {
        return v;
    }
    if deadline_missed {
        return Outcome::Inconclusive("idle connection not closed within idle timeout + 400 ms (deadline miss, not a violation)".into());
    }
    let mut labels: Vec<&'static str> = r.reasons.clone();
    if r.closed {
        labels.push("closed_keep_alive_timeout");
    }
    if r.flips > 0 {
        labels.push("busy_idle_busy_flip");
    }
    if r.survived_busy_wait {
        labels.push("busy_survived_timeout");
    }
    let nontrivial = match mode {
        // with a zero timeout the first idle instant is the last: flips are impossible by definition
        Mode::Asap => r.closed && r.reasons.len() >= 2,
        Mode::Armed => r.flips >= 1,
        Mode::Timed => r.flips >= 1 && (r.closed || r.survived_busy_wait),
    };
    Outcome::pass_l(nontrivial, labels)
}

// ---------------------------------------------------------------------------------------------
// generators

fn op_strategy(timed: bool) -> BoxedStrategy<Op> {
    let base = prop_oneof![
        5 => Just(Op::KeepAlive(false)),
        1 => Just(Op::KeepAlive(true)),
        4 => Just(Op::Open),
        2 => proptest::bool::weighted(0.7).prop_map(Op::HoldOutbound),
        4 => Just(Op::RemoteOpen),
        5 => any::<u8>().prop_map(Op::RemoteAnswer),
        2 => any::<u8>().prop_map(Op::RemoteReset),
        5 => any::<u8>().prop_map(Op::DropStream),
        2 => any::<u8>().prop_map(Op::Ignore),
    ];
    if timed {
        prop_oneof![3 => base, 1 => (0u8..32).prop_map(Op::Sleep)].boxed()
    } else {
        base.boxed()
    }
}

fn case_strategy(timed: bool, max_ops: usize) -> BoxedStrategy<Case> {
    (proptest::collection::vec((op_strategy(timed), proptest::bool::weighted(0.8)), 1..=max_ops), any::<bool>()).prop_map(|(ops, wind_down)| Case { ops, wind_down }).boxed()
}

pub fn run(ctx: &mut Ctx) {
    ctx.assume("muxer and remote peer are simulated (simswarm::net); stream negotiation is the real multistream-select on both ends; substream upgrade timeouts are 1 h and never fire");
    ctx.assume("'busy' is judged at the end of a poll of the connection (where the connection itself decides): a keep-alive flag raised and lowered again between two polls was never asked of the connection");
    ctx.assume("Timed sub-checks use the wall clock one-sidedly: harness timestamps are taken before the poll that could arm the timer and after the poll that reported the close; futures_timer::Delay is trusted not to fire early");
    ctx.assume("Direct sub-checks drive the real Connection through hook swarm::verif::Conn (read accessors for the planned shutdown and the stream counts; no logic re-implemented)");
    let ops_rule = "programs of 1..14 ops {keep-alive on/off, handler opens outbound stream, muxer holds/grants outbound streams, remote opens stream, remote completes / abandons negotiation, held stream dropped, ignore_for_keep_alive} each optionally followed by a poll-to-quiescence, optional final wind-down to idle";
    ctx.check::<Case>(
        "direct-asap",
        &format!("real Connection polled by the harness, idle timeout 0; {ops_rule}; oracle after every poll: closed with KeepAliveTimeout iff no busy condition holds. non-trivial = closed after >=2 different busy conditions were observed; distinct by case hash"),
        ctx.n(20_000, 500_000),
        &|| case_strategy(false, 14),
        &|c| run_case(c, Mode::Asap, false),
    );
    ctx.check::<Case>(
        "direct-armed",
        &format!("real Connection, idle timeout 1 h; {ops_rule}; oracle after every poll: never closed; planned shutdown is None while any busy condition holds and Later while idle. non-trivial = >=1 busy->idle->busy flip; distinct by case hash"),
        ctx.n(20_000, 500_000),
        &|| case_strategy(false, 14),
        &|c| run_case(c, Mode::Armed, false),
    );
    ctx.check::<Case>(
        "world-asap",
        &format!("real Swarm in the simulated world, idle_connection_timeout 0; {ops_rule}; oracle after every settle: SwarmEvent::ConnectionClosed{{cause: KeepAliveTimeout}} iff no busy condition holds. non-trivial = closed after >=2 different busy conditions; distinct by case hash"),
        ctx.n(6000, 150_000),
        &|| case_strategy(false, 14),
        &|c| run_case(c, Mode::Asap, true),
    );
    ctx.check::<Case>(
        "direct-timed",
        &format!("real Connection, idle timeout 25 ms, wall clock; {ops_rule} plus real sleeps 0..31 ms during which the connection is polled when woken; final wait: busy => must survive timeout+15 ms, idle => closes (miss within +400 ms = inconclusive). oracle: a close implies no busy condition and >= 25 ms since the timestamp taken before the poll that first saw it idle. non-trivial = >=1 busy->idle->busy flip and (closed by timeout or survived the final busy wait); distinct by case hash"),
        ctx.n(640, 12_000),
        &|| case_strategy(true, 10),
        &|c| run_case(c, Mode::Timed, false),
    );
    ctx.check::<Case>(
        "world-timed",
        &format!("real Swarm in the simulated world, idle_connection_timeout 25 ms, wall clock; {ops_rule} plus real sleeps; same one-sided oracle on SwarmEvent::ConnectionClosed{{cause: KeepAliveTimeout}}. non-trivial as direct-timed; distinct by case hash"),
        ctx.n(640, 12_000),
        &|| case_strategy(true, 10),
        &|c| run_case(c, Mode::Timed, true),
    );
}
