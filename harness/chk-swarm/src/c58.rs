//! C58 — derived behaviours compose their fields faithfully.
use crate::life::{self, Case, Weights};
use libp2p_core::Multiaddr;
use libp2p_swarm::dial_opts::DialOpts;
use multiaddr::Protocol;
use proptest::prelude::*;
use serde::{Deserialize, Serialize};
use serde_json::json;
use simswarm::derived::{Three, Two};
use simswarm::probe::{Decision, Entry, ErrKind, Probe, ProbeScript, FS};
use simswarm::world::{release_phantoms, Ev, World};
use std::collections::{BTreeMap, BTreeSet};
use vcore::{gen, Ctx, Outcome};

fn check_world(case: &Case) -> Outcome {
    let r = life::run_case(case);
    if !r.settled {
        return Outcome::Inconclusive("world did not settle".into());
    }
    let nf = case.fields.clamp(2, 3);
    let nn = r.events.len() as u8;
    let mut labels = vec![];
    let mut handler_event_non_first = false;
    let mut denial_non_first = false;
    let mut close_events = 0u32;
    let mut close_event_non_first = false;
    let mut close_events_several_fields = false;
    // when a shared oracle already failed the interpreter stopped early: completeness checks are skipped on the partial history
    let partial = !r.complete;
    for node in 0..nn {
        // 1. every FromSwarm reaches every field, in the same order
        let per_field: Vec<Vec<&FS>> = (0..nf).map(|f| r.log.iter().filter(|x| x.node == node && x.field == f).filter_map(|x| if let Entry::Swarm(fs) = &x.entry { Some(fs) } else { None }).collect()).collect();
        for f in 1..nf as usize {
            if per_field[f] != per_field[0] {
                let k = per_field[0].iter().zip(per_field[f].iter()).position(|(a, b)| a != b).unwrap_or(per_field[0].len().min(per_field[f].len()));
                return Outcome::fail(
                    "C58:swarm-event-not-forwarded-identically-to-every-field",
                    json!({"node": node, "field": f, "first_difference_at": k, "field0": per_field[0].get(k).map(|x| format!("{x:?}")), "other": per_field[f].get(k).map(|x| format!("{x:?}")), "len0": per_field[0].len(), "len": per_field[f].len()}),
                );
            }
        }
        // the events of field 0 must also be what the Swarm reported (C01 checks the lifecycle part)
        // 2. handler events return to the field whose handler produced them
        let closed: BTreeSet<u64> = r.events[node as usize].iter().filter_map(|e| if let Ev::Closed { conn, .. } = e { Some(*conn) } else { None }).collect();
        for x in r.log.iter().filter(|x| x.node == node) {
            if let Entry::HandlerEvent { from_field, tag, conn, .. } = &x.entry {
                if *from_field != x.field {
                    return Outcome::fail("C58:handler-event-routed-to-wrong-field", json!({"node": node, "conn": conn, "tag": tag, "produced_by_field": from_field, "arrived_at_field": x.field}));
                }
                if x.field > 0 {
                    handler_event_non_first = true;
                }
            }
        }
        // an Emit command that a handler of field f executed on connection c produces exactly one HandlerEvent, at field f,
        // for connection c (it may be lost only when that connection was closed)
        for e in r.emissions.iter().filter(|e| e.node == node && e.emit) {
            let f = e.field;
            let n = e.n;
            let handled: Vec<u64> = r.log.iter().filter(|x| x.node == node && x.field == f).filter_map(|x| if let Entry::HBehaviourEvent { conn, n: m } = &x.entry { if *m == n { Some(*conn) } else { None } } else { None }).collect();
            let arrived: Vec<(u8, u64)> = r.log.iter().filter(|x| x.node == node).filter_map(|x| if let Entry::HandlerEvent { tag, conn, .. } = &x.entry { if *tag == n { Some((x.field, *conn)) } else { None } } else { None }).collect();
            if arrived.len() > 1 {
                return Outcome::fail("C58:handler-event-duplicated", json!({"node": node, "tag": n, "arrived": arrived}));
            }
            if let Some((af, ac)) = arrived.first() {
                if *af != f || handled.first() != Some(ac) {
                    return Outcome::fail("C58:handler-event-routed-to-wrong-field", json!({"node": node, "tag": n, "emitting_field": f, "arrived_at_field": af, "conn": ac, "handled_on": handled}));
                }
            } else if let Some(c) = handled.first() {
                if !partial && !closed.contains(c) {
                    return Outcome::fail("C58:handler-event-lost", json!({"node": node, "field": f, "tag": n, "conn": c}));
                }
            }
        }
        // 2b. final events: whatever a field's handler yields from `poll_close` (recorded by the probe handler at the moment it
        // returns it) is a handler event like any other and goes back to that field, exactly once, for that connection. The
        // connection task drains `poll_close` to completion and forwards every item before it reports the connection closed
        // (swarm/src/connection/pool/task.rs, both the commanded close and the error path), so at quiescence nothing can be
        // in flight.
        let mut close_fields: BTreeMap<u64, BTreeSet<u8>> = BTreeMap::new();
        for x in r.log.iter().filter(|x| x.node == node) {
            let Entry::HCloseEmit { conn, tag } = &x.entry else { continue };
            let f = x.field;
            close_events += 1;
            close_fields.entry(*conn).or_default().insert(f);
            if f > 0 {
                close_event_non_first = true;
            }
            let arrived: Vec<(u8, u64, u8)> = r.log.iter().filter(|y| y.node == node).filter_map(|y| if let Entry::HandlerEvent { tag: t, conn: c, from_field, .. } = &y.entry { if t == tag { Some((y.field, *c, *from_field)) } else { None } } else { None }).collect();
            if arrived.len() > 1 {
                return Outcome::fail("C58:handler-event-duplicated", json!({"node": node, "tag": tag, "emitted_from": "poll_close", "arrived(field,conn,from_field)": arrived}));
            }
            match arrived.first() {
                Some((af, ac, _)) => {
                    if *af != f || ac != conn {
                        return Outcome::fail("C58:handler-event-routed-to-wrong-field", json!({"node": node, "tag": tag, "emitted_from": "poll_close", "emitting_field": f, "conn": conn, "arrived_at_field": af, "arrived_for_conn": ac}));
                    }
                }
                None => {
                    if !partial {
                        let same_conn: Vec<u8> = r.log.iter().filter(|y| y.node == node).filter_map(|y| if let Entry::HCloseEmit { conn: c, .. } = &y.entry { if c == conn { Some(y.field) } else { None } } else { None }).collect();
                        return Outcome::fail("C58:close-time-handler-event-lost", json!({"node": node, "field": f, "tag": tag, "conn": conn, "fields_that_flushed_on_this_connection": same_conn}));
                    }
                }
            }
        }
        if close_fields.values().any(|s| s.len() >= 2) {
            close_events_several_fields = true;
        }
        // 3. denied iff some field denies
        let mut asked: BTreeMap<(u64, u8), Vec<(u8, bool)>> = BTreeMap::new();
        for x in r.log.iter().filter(|x| x.node == node) {
            let (conn, denied, d) = match &x.entry {
                Entry::PendingIn { conn, denied } => (*conn, *denied, 0u8),
                Entry::PendingOut { conn, denied, .. } => (*conn, *denied, 1),
                Entry::EstIn { conn, denied, .. } => (*conn, *denied, 2),
                Entry::EstOut { conn, denied, .. } => (*conn, *denied, 3),
                _ => continue,
            };
            asked.entry((conn, d)).or_default().push((x.field, denied));
        }
        let denied_events: BTreeSet<u64> = r.events[node as usize]
            .iter()
            .filter_map(|e| match e {
                Ev::OutgoingError { conn, err: ErrKind::Denied, .. } | Ev::IncomingError { conn, err: ErrKind::Denied, .. } => Some(*conn),
                _ => None,
            })
            .collect();
        let denied_sync: BTreeSet<u64> = r.models[node as usize].ids.iter().filter(|(_, v)| v.sync_err == Some(ErrKind::Denied)).map(|(k, _)| *k).collect();
        let denied_fs: BTreeSet<u64> = r
            .log
            .iter()
            .filter(|x| x.node == node && x.field == 0)
            .filter_map(|x| match &x.entry {
                Entry::Swarm(FS::DialFailure { conn, err: ErrKind::Denied, .. }) | Entry::Swarm(FS::ListenFailure { conn, err: ErrKind::Denied, .. }) => Some(*conn),
                _ => None,
            })
            .collect();
        let mut some_field_denied: BTreeSet<u64> = BTreeSet::new();
        for ((conn, d), v) in &asked {
            // (the order in which fields are consulted, and whether consultation stops at the first denial, are not part
            // of the statement and are not asserted)
            let mut fields: Vec<u8> = v.iter().map(|(f, _)| *f).collect();
            fields.sort();
            fields.dedup();
            if fields.len() != v.len() {
                return Outcome::fail("C58:field-consulted-twice-for-one-decision", json!({"node": node, "conn": conn, "decision": d, "asked": v}));
            }
            if let Some(pos) = v.iter().position(|(_, den)| *den) {
                some_field_denied.insert(*conn);
                if v[pos].0 > 0 {
                    denial_non_first = true;
                }
            } else if !partial && v.len() != nf as usize {
                return Outcome::fail("C58:not-every-field-consulted", json!({"node": node, "conn": conn, "decision": d, "asked": v, "fields": nf}));
            }
        }
        let reported: BTreeSet<u64> = denied_events.union(&denied_sync).cloned().collect::<BTreeSet<_>>().union(&denied_fs).cloned().collect();
        if !partial && reported != some_field_denied {
            return Outcome::fail("C58:denied-iff-some-field-denies-violated", json!({"node": node, "reported_denied": reported, "some_field_denied": some_field_denied}));
        }
        let _ = Decision::EstIn;
    }
    // failures of the shared lifecycle/denial oracles (C01/C02/C05/C06 signatures) in a derived-behaviour world
    if let Some((sig, detail)) = r.fails.first() {
        return Outcome::fail(sig.clone(), detail.clone());
    }
    if handler_event_non_first {
        labels.push("handler_event_non_first_field");
    }
    if denial_non_first {
        labels.push("denial_non_first_field");
    }
    if close_events > 0 {
        labels.push("close_time_event");
    }
    if close_event_non_first {
        labels.push("close_time_event_non_first_field");
    }
    if close_events_several_fields {
        labels.push("close_time_events_from_several_fields_of_one_connection");
    }
    Outcome::pass_l(handler_event_non_first && denial_non_first, labels)
}

// ---------------------------------------------------------------------------------------------
// union of the fields' addresses for pending dials

#[derive(Clone, Debug, Serialize, Deserialize)]
pub struct DialCase {
    fields: u8,
    explicit: Vec<u8>,
    returned: Vec<Vec<u8>>,
    extend: bool,
    deny_field: Option<u8>,
}

fn a(i: u8) -> Multiaddr {
    Multiaddr::empty().with(Protocol::Memory(3000 + i as u64 % 8))
}

fn check_dial(c: &DialCase) -> Outcome {
    let r = check_dial_inner(c);
    release_phantoms();
    r
}

fn check_dial_inner(c: &DialCase) -> Outcome {
    let nf = c.fields.clamp(2, 3) as usize;
    let target = gen::peer(5);
    let script = |f: usize| ProbeScript {
        dial_addrs: vec![c.returned.get(f).map(|v| v.iter().map(|i| a(*i)).collect()).unwrap_or_default()],
        deny: if c.deny_field.map(|d| d as usize % nf) == Some(f) { vec![(Decision::PendingOut, 0)] } else { vec![] },
        ..Default::default()
    };
    let explicit: Vec<Multiaddr> = c.explicit.iter().map(|i| a(*i)).collect();
    let opts = {
        let b = DialOpts::peer_id(target).addresses(explicit.clone());
        if c.extend {
            b.extend_addresses_through_behaviour().build()
        } else {
            b.build()
        }
    };
    let (res, recorded, given): (Result<u64, ErrKind>, Vec<Multiaddr>, Vec<Vec<Multiaddr>>) = if nf == 2 {
        let mut w: World<Two> = World::new(&[gen::peer(0)], |i, log| Two { a: Probe::new(i as u8, 0, log.clone(), script(0)), b: Probe::new(i as u8, 1, log, script(1)) }, |cfg| cfg);
        let res = w.dial(0, opts);
        let rec = w.nodes[0].net.lock().unwrap().dials.iter().map(|d| d.addr.clone()).collect();
        let given = w.log.lock().unwrap().recs.iter().filter_map(|x| if let Entry::PendingOut { given, .. } = &x.entry { Some(given.clone()) } else { None }).collect();
        (res, rec, given)
    } else {
        let mut w: World<Three> = World::new(
            &[gen::peer(0)],
            |i, log| Three { a: Probe::new(i as u8, 0, log.clone(), script(0)), b: Probe::new(i as u8, 1, log.clone(), script(1)), c: Probe::new(i as u8, 2, log, script(2)) },
            |cfg| cfg,
        );
        let res = w.dial(0, opts);
        let rec = w.nodes[0].net.lock().unwrap().dials.iter().map(|d| d.addr.clone()).collect();
        let given = w.log.lock().unwrap().recs.iter().filter_map(|x| if let Entry::PendingOut { given, .. } = &x.entry { Some(given.clone()) } else { None }).collect();
        (res, rec, given)
    };
    let detail = || json!({"explicit": explicit.iter().map(|x| x.to_string()).collect::<Vec<_>>(), "returned": c.returned, "extend": c.extend, "recorded": recorded.iter().map(|x| x.to_string()).collect::<Vec<_>>(), "result": format!("{res:?}")});
    // every consulted field sees the explicit addresses
    for g in &given {
        if g != &explicit {
            return Outcome::fail("C58:field-not-given-the-dial-addresses", detail());
        }
    }
    if let Some(d) = c.deny_field {
        let d = d as usize % nf;
        if res != Err(ErrKind::Denied) || !recorded.is_empty() || given.len() != d + 1 {
            return Outcome::fail("C58:pending-outbound-denial-by-field-not-honoured", detail());
        }
        return Outcome::pass_l(d > 0, vec!["denied"]);
    }
    let mut want: Vec<Multiaddr> = explicit.clone();
    if c.extend {
        for f in 0..nf {
            want.extend(c.returned.get(f).map(|v| v.iter().map(|i| a(*i)).collect::<Vec<_>>()).unwrap_or_default());
        }
    }
    let want_set: BTreeSet<String> = want.iter().map(|x| x.clone().with_p2p(target).unwrap().to_string()).collect();
    let rec_set: BTreeSet<String> = recorded.iter().map(|x| x.to_string()).collect();
    if want_set.is_empty() {
        if res != Err(ErrKind::NoAddresses) {
            return Outcome::fail("C58:no-addresses-expected", detail());
        }
        return Outcome::pass(false);
    }
    if rec_set != want_set || recorded.len() != rec_set.len() {
        return Outcome::fail("C58:dialed-addresses-are-not-the-union-of-the-fields", json!({"case": detail(), "expected": want_set}));
    }
    let non_first_contributes = c.extend && (1..nf).any(|f| c.returned.get(f).map(|v| v.iter().any(|i| !explicit.contains(&a(*i)) && !c.returned[0].iter().any(|j| a(*j) == a(*i)))).unwrap_or(false));
    Outcome::pass_l(non_first_contributes, if non_first_contributes { vec!["non_first_field_contributes"] } else { vec![] })
}

pub fn run(ctx: &mut Ctx) {
    ctx.assume("derived structs use the same probe type for every field, so a mis-routing in the generated code would still type-check");
    ctx.check::<Case>(
        "world",
        "world programs over 1..3 swarms whose behaviour is #[derive(NetworkBehaviour)] over 2..3 probes: scripted denials, handler-emitted events tagged with the emitting field (a quarter of them held back and yielded from poll_close at connection close, half of those for every field's handler of the connection at once), closes; oracle: identical FromSwarm sequence at every field, handler events arrive at the producing field only, every event a handler yielded from poll_close arrives exactly once at its field for its connection, fields consulted in order until one denies, denied iff some field denies; non-trivial = a handler event from a non-first field and a denial by a non-first field; distinct by case hash",
        ctx.n(30_000, 900_000),
        &|| {
            life::case_strategy(3, 2..=3, 6, 50, Weights { notify: 12, connect: 8, ..Weights::default() })
                .prop_map(|mut c| {
                    // most notifications ask the handler to emit an event back to its behaviour: at once (`Emit`), or held back
                    // until the connection closes and flushed from `poll_close` (`EmitOnClose`); half of the latter are sent
                    // to the handlers of the other fields on the same connection as well, so that several fields' handlers
                    // have final events at the same time
                    let mut ops = Vec::with_capacity(c.ops.len() + 8);
                    for mut op in std::mem::take(&mut c.ops) {
                        let mut more = vec![];
                        if let life::Op::Notify { n, field, cmd, pick, any } = &mut op {
                            match *pick % 4 {
                                0 => {}
                                1 => {
                                    *cmd = simswarm::probe::HCmd::EmitOnClose(0);
                                    if (*pick / 4) % 2 == 0 {
                                        *any = false;
                                        for d in 1..c.fields.clamp(2, 3) {
                                            more.push(life::Op::Notify { n: *n, field: (*field % c.fields.clamp(2, 3)) + d, pick: *pick, any: false, cmd: simswarm::probe::HCmd::EmitOnClose(0) });
                                        }
                                    }
                                }
                                _ => *cmd = simswarm::probe::HCmd::Emit(0),
                            }
                        }
                        ops.push(op);
                        ops.extend(more);
                    }
                    c.ops = ops;
                    c
                })
                .boxed()
        },
        &check_world,
    );
    ctx.check::<DialCase>(
        "dial-addresses",
        "one Swarm::dial on a derived behaviour of 2..3 probes returning generated address lists, with/without extend_addresses_through_behaviour and an optional denying field; transport dials == union (after the Swarm's dedup) of explicit and every field's addresses; non-trivial = a non-first field contributes an address nobody else gave (or denies); distinct by case hash",
        ctx.n(60_000, 2_000_000),
        &|| {
            (2u8..=3, proptest::collection::vec(0u8..8, 0..4), proptest::collection::vec(proptest::collection::vec(0u8..8, 0..4), 3), proptest::bool::weighted(0.8), proptest::option::weighted(0.15, 0u8..3))
                .prop_map(|(fields, explicit, returned, extend, deny_field)| DialCase { fields, explicit, returned, extend, deny_field })
                .boxed()
        },
        &check_dial,
    );
}
