//! C09 — smart-dial ranking is a complete, well-ordered permutation.
use proptest::prelude::*;
use serde::{Deserialize, Serialize};
use std::time::Duration;
use vcore::gen::{build_addr, Comp};
use vcore::runner::LANES;
use vcore::{Ctx, Outcome};

#[derive(Clone, Debug, Serialize, Deserialize)]
pub struct Case {
    addrs: Vec<Vec<Comp>>,
}

#[derive(Clone, Copy, Debug, PartialEq, Eq, PartialOrd, Ord)]
enum Group {
    Private = 0,
    Public = 1,
    Relay = 2,
    Other = 3,
}

/// Group per the documented rule. The alphabet only contains unambiguous IPs.
fn group(a: &[Comp]) -> Group {
    if a.iter().any(|c| matches!(c, Comp::P2pCircuit)) {
        return Group::Relay;
    }
    let is_priv4 = |x: &[u8; 4]| vcore::gen::PRIVATE_V4.contains(x);
    let is_priv6 = |x: &[u16; 8]| vcore::gen::PRIVATE_V6.contains(x);
    for c in a {
        match c {
            Comp::Ip4(x) => return if is_priv4(x) { Group::Private } else { Group::Public },
            Comp::Ip6(x) => return if is_priv6(x) { Group::Private } else { Group::Public },
            _ => {}
        }
    }
    for c in a {
        if let Comp::Dns(n) | Comp::Dns4(n) | Comp::Dns6(n) = c {
            return if n == "localhost" || n.ends_with(".localhost") { Group::Private } else { Group::Other };
        }
    }
    Group::Other
}

fn is_quic(a: &[Comp]) -> bool {
    a.iter().any(|c| matches!(c, Comp::Quic | Comp::QuicV1))
}
fn is_tcp(a: &[Comp]) -> bool {
    !is_quic(a) && a.iter().any(|c| matches!(c, Comp::Tcp(_)))
}

fn check(case: &Case) -> Outcome {
    let input: Vec<_> = case.addrs.iter().map(|c| build_addr(c)).collect();
    let out = libp2p_swarm::verif::rank_dials(input.clone());
    // 1. permutation
    let mut a: Vec<String> = input.iter().map(|m| m.to_string()).collect();
    let mut b: Vec<String> = out.iter().map(|(_, m)| m.to_string()).collect();
    a.sort();
    b.sort();
    if a != b {
        return Outcome::fail("C09:not-a-permutation", serde_json::json!({"input": a, "output": b}));
    }
    // 2. finite delays
    if let Some((d, m)) = out.iter().find(|(d, _)| *d >= Duration::from_secs(3600)) {
        return Outcome::fail("C09:delay-not-finite", format!("{m} {d:?}"));
    }
    // map output back to component vectors (first unused match)
    let mut used = vec![false; case.addrs.len()];
    let mut ranked: Vec<(Duration, &Vec<Comp>, Group)> = vec![];
    for (d, m) in &out {
        let idx = (0..input.len()).find(|&i| !used[i] && &input[i] == m).unwrap();
        used[idx] = true;
        ranked.push((*d, &case.addrs[idx], group(&case.addrs[idx])));
    }
    let show = || serde_json::json!(ranked.iter().map(|(d, a, g)| format!("{:?} {:?} {}", g, d, build_addr(a))).collect::<Vec<_>>());
    // 3. output sequence is grouped private, public, relay, other
    for w in ranked.windows(2) {
        if w[0].2 > w[1].2 {
            let kind = if w[0].1.iter().any(|c| c.is_dns()) && !w[0].1.iter().any(|c| c.is_ip()) || w[1].1.iter().any(|c| c.is_dns()) && !w[1].1.iter().any(|c| c.is_ip()) {
                "C09:group-order-dns"
            } else {
                "C09:group-order"
            };
            return Outcome::fail(kind, show());
        }
    }
    // 4. nothing of the last group is scheduled before an address of an earlier group
    let max_earlier = ranked.iter().filter(|r| r.2 != Group::Other).map(|r| r.0).max();
    if let Some(me) = max_earlier {
        if let Some(_bad) = ranked.iter().find(|r| r.2 == Group::Other && r.0 < me) {
            let dns = ranked.iter().any(|r| r.1.iter().any(|c| c.is_dns()) && !r.1.iter().any(|c| c.is_ip()));
            return Outcome::fail(if dns { "C09:other-before-earlier-dns" } else { "C09:other-before-earlier" }, show());
        }
    }
    // 5. within a group, QUIC no later than TCP
    for g in [Group::Private, Group::Public, Group::Relay, Group::Other] {
        let maxq = ranked.iter().filter(|r| r.2 == g && is_quic(r.1)).map(|r| r.0).max();
        let mint = ranked.iter().filter(|r| r.2 == g && is_tcp(r.1)).map(|r| r.0).min();
        if let (Some(q), Some(t)) = (maxq, mint) {
            if q > t {
                return Outcome::fail("C09:quic-after-tcp", show());
            }
        }
    }
    let groups: std::collections::BTreeSet<_> = ranked.iter().map(|r| r.2).collect();
    let dns_only = case.addrs.iter().any(|a| a.iter().any(|c| c.is_dns()) && !a.iter().any(|c| c.is_ip()));
    let mut labels = vec![];
    if groups.contains(&Group::Relay) {
        labels.push("has_relay");
    }
    if dns_only {
        labels.push("has_dns_only");
    }
    if groups.len() >= 3 {
        labels.push("groups>=3");
    }
    if case.addrs.is_empty() {
        labels.push("empty");
    }
    Outcome::pass_l(groups.len() >= 2 && dns_only, labels)
}

/// host + transport (+relay) addresses from the statement's alphabet; no /memory, no bare addresses
fn c09_addr() -> impl Strategy<Value = Vec<Comp>> {
    let host = prop_oneof![
        5 => vcore::gen::ip_comp(),
        1 => vcore::gen::dns_name().prop_map(Comp::Dns),
        1 => vcore::gen::dns_name().prop_map(Comp::Dns4),
        1 => vcore::gen::dns_name().prop_map(Comp::Dns6),
    ];
    let transport = prop_oneof![
        3 => vcore::gen::port().prop_map(|p| vec![Comp::Tcp(p)]),
        1 => vcore::gen::port().prop_map(|p| vec![Comp::Tcp(p), Comp::Ws]),
        3 => vcore::gen::port().prop_map(|p| vec![Comp::Udp(p), Comp::QuicV1]),
        1 => vcore::gen::port().prop_map(|p| vec![Comp::Udp(p), Comp::Quic]),
        1 => vcore::gen::port().prop_map(|p| vec![Comp::Udp(p), Comp::QuicV1, Comp::WebTransport]),
        1 => vcore::gen::port().prop_map(|p| vec![Comp::Udp(p), Comp::WebRTCDirect]),
    ];
    (host, transport, proptest::option::weighted(0.3, 0u8..4), proptest::option::weighted(0.2, 0u8..4)).prop_map(|(h, t, p2p, relay)| {
        let mut v = vec![h];
        v.extend(t);
        if let Some(r) = relay {
            v.push(Comp::P2p(r));
            v.push(Comp::P2pCircuit);
        }
        if let Some(p) = p2p {
            v.push(Comp::P2p(p));
        }
        v
    })
}

fn sweep_alphabet() -> Vec<Vec<Comp>> {
    use Comp::*;
    let priv4 = Ip4([10, 0, 0, 1]);
    let pub4 = Ip4([1, 2, 3, 4]);
    let priv6 = Ip6([0xfd00, 0, 0, 0, 0, 0, 0, 9]);
    let pub6 = Ip6([0x2606, 0x4700, 0, 0, 0, 0, 0, 0x1111]);
    let mut v = vec![];
    for h in [priv4.clone(), pub4.clone(), priv6, pub6] {
        v.push(vec![h.clone(), Tcp(4001)]);
        v.push(vec![h.clone(), Udp(4001), QuicV1]);
    }
    v.push(vec![pub4.clone(), Tcp(1)]);
    v.push(vec![pub4.clone(), Udp(443), QuicV1, WebTransport]);
    v.push(vec![pub4.clone(), Udp(5), WebRTCDirect]);
    v.push(vec![priv4.clone(), Tcp(443), Ws]);
    v.push(vec![pub4.clone(), Tcp(4001), P2p(0), P2pCircuit, P2p(1)]);
    v.push(vec![pub4.clone(), Udp(4001), QuicV1, P2p(0), P2pCircuit]);
    v.push(vec![Dns("example.com".into()), Tcp(443)]);
    v.push(vec![Dns4("example.com".into()), Udp(443), QuicV1]);
    v.push(vec![Dns("localhost".into()), Tcp(443)]);
    v.push(vec![Dns6("x.localhost".into()), Udp(1), QuicV1]);
    v.push(vec![Dns("bootstrap.libp2p.io".into()), Tcp(443), Wss]);
    v.push(vec![Dns("example.com".into()), Tcp(443), P2p(0), P2pCircuit]);
    v.push(vec![pub4.clone(), Udp(1), Quic]);
    v.push(vec![priv4, Udp(1), Quic]);
    v.push(vec![pub4.clone(), Tcp(65535)]);
    v.push(vec![Ip4([8, 8, 8, 8]), Udp(4001), QuicV1]);
    v
}

pub fn run(ctx: &mut Ctx) {
    ctx.assume("group membership decided with an alphabet of unambiguous IPs (10/8, 172.16/12, 192.168/16, 127/8, 169.254/16, ::1, fe80::/10, fc00::/7 vs 1.2.3.4, 8.8.8.8, 2606:4700::/32 …); /memory and host-less addresses are outside the stated alphabet");
    ctx.check(
        "random",
        "multisets of 0..10 addresses (host+transport[+relay][+p2p]) from the C09 alphabet; non-trivial = >=2 groups present and >=1 DNS-only address; distinct by case hash",
        ctx.n(100_000, 3_000_000),
        &|| proptest::collection::vec(c09_addr(), 0..=10).prop_map(|addrs| Case { addrs }).boxed(),
        &check,
    );
    let alpha = sweep_alphabet();
    let k = alpha.len();
    let max = ctx.tier.sel(2usize, 3usize);
    // all multisets (as ordered tuples, order matters for stable-sort effects) of size <= max
    let total: usize = (0..=max).map(|l| k.pow(l as u32)).sum();
    ctx.sweep(
        "exhaustive",
        &format!("all ordered tuples of size 0..={max} over a {k}-address alphabet; non-trivial as above"),
        true,
        &|lane| {
            let alpha = alpha.clone();
            (0..total).skip(lane).step_by(LANES).map(move |mut i| {
                let mut len = 0;
                let mut block = 1;
                while i >= block {
                    i -= block;
                    len += 1;
                    block *= k;
                }
                let mut addrs = vec![];
                for _ in 0..len {
                    addrs.push(alpha[i % k].clone());
                    i /= k;
                }
                Case { addrs }
            })
        },
        &check,
    );
}
