mod c01;
mod c09;
mod c13;
mod life;

fn main() {
    vcore::runner::main(&[
        ("C01", c01::run_c01),
        ("C02", c01::run_c02),
        ("C05", c01::run_c05),
        ("C06", c01::run_c06),
        ("C09", c09::run),
        ("C13", c13::run),
    ])
}
