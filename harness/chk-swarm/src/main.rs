mod c09;
mod c13;

fn main() {
    vcore::runner::main(&[("C09", c09::run), ("C13", c13::run)])
}
