mod c01;
mod c03;
mod c04;
mod c07;
mod c08;
mod c09;
mod c10;
mod c11;
mod c12;
mod c13;
mod c52;
mod c53;
mod c58;
mod life;

fn main() {
    vcore::runner::main(&[
        ("C01", c01::run_c01),
        ("C02", c01::run_c02),
        ("C04", c04::run),
        ("C05", c01::run_c05),
        ("C06", c01::run_c06),
        ("C07", c07::run),
        ("C08", c08::run),
        ("C09", c09::run),
        ("C11", c11::run_pure),
        ("C12", c12::run),
        ("C13", c13::run),
        ("C03", c03::run),
        ("C10", c10::run),
        ("C52", c52::run),
        ("C53", c53::run),
        ("C58", c58::run),
    ])
}
