//! C07 — behaviour-to-handler notifications are targeted, ordered and not lost.
use crate::life::{self, Case, Weights};
use serde_json::json;
use simswarm::probe::Entry;
use simswarm::world::Ev;
use std::collections::{BTreeMap, BTreeSet};
use vcore::{Ctx, Outcome};

fn check(case: &Case) -> Outcome {
    // only the notification log is judged here: disagreements of the lifecycle / counter oracles do not end the program
    let r = life::run_case_focus(case, Some("C07:"));
    if !r.settled {
        return Outcome::Inconclusive("world did not settle".into());
    }
    let nn = r.events.len();
    if std::env::var("VERIF_DEBUG").is_ok() {
        for x in &r.log {
            eprintln!("LOG {} n{} f{} {:?}", x.seq, x.node, x.field, x.entry);
        }
        for (i, evs) in r.events.iter().enumerate() {
            for e in evs {
                eprintln!("EV n{} {:?}", i, e);
            }
        }
    }
    let mut nontrivial = false;
    let mut labels = vec![];
    for node in 0..nn as u8 {
        let closed: BTreeSet<u64> = r.events[node as usize].iter().filter_map(|e| if let Ev::Closed { conn, .. } = e { Some(*conn) } else { None }).collect();
        for field in 0..case.fields.clamp(1, 3) {
            // emissions in order
            let emits: Vec<(u64, Option<u64>, Vec<u64>, u64, libp2p_identity::PeerId)> = r
                .log
                .iter()
                .filter(|x| x.node == node && x.field == field)
                .filter_map(|x| if let Entry::EmitNotify { one, n, snapshot, peer } = &x.entry { Some((*n, *one, snapshot.clone(), x.seq, *peer)) } else { None })
                .collect();
            // the moment a connection's task closed its command channel is visible as the handler's poll_close
            // (task.rs: command_receiver.close() is directly followed by connection.close(), whose event stream
            // is handler.poll_close); from then on the connection cannot accept a notification any more
            let mut closing_at: BTreeMap<u64, u64> = BTreeMap::new();
            let mut delivered_at: BTreeMap<u64, u64> = BTreeMap::new();
            let mut established_at: Vec<(libp2p_identity::PeerId, u64, u64)> = vec![];
            for x in r.log.iter().filter(|x| x.node == node && x.field == field) {
                match &x.entry {
                    Entry::HPollClose { conn } | Entry::HDrop { conn } => {
                        closing_at.entry(*conn).or_insert(x.seq);
                    }
                    Entry::HBehaviourEvent { n, .. } => {
                        delivered_at.entry(*n).or_insert(x.seq);
                    }
                    Entry::Swarm(simswarm::probe::FS::Established { conn, peer, .. }) => established_at.push((*peer, *conn, x.seq)),
                    _ => {}
                }
            }
            // deliveries: n -> conns
            let mut deliv: BTreeMap<u64, Vec<u64>> = BTreeMap::new();
            let mut per_handler: BTreeMap<u64, Vec<u64>> = BTreeMap::new();
            for x in r.log.iter().filter(|x| x.node == node && x.field == field) {
                if let Entry::HBehaviourEvent { conn, n } = &x.entry {
                    deliv.entry(*n).or_default().push(*conn);
                    per_handler.entry(*conn).or_default().push(*n);
                }
            }
            // a delivery for an event that was never emitted by this field
            for (n, conns) in &deliv {
                if !emits.iter().any(|(m, ..)| m == n) {
                    return Outcome::fail("C07:handler-received-event-never-emitted-by-its-behaviour", json!({"node": node, "field": field, "n": n, "conns": conns}));
                }
            }
            for (n, one, snapshot, eseq, epeer) in &emits {
                let d = deliv.get(n).cloned().unwrap_or_default();
                if one.is_none() {
                    // generator distribution: the two situations in which the Any candidate set matters
                    if snapshot.len() >= 2 && snapshot.iter().any(|c| closing_at.get(c).map(|s| s < eseq).unwrap_or(false)) && snapshot.iter().any(|c| !closed.contains(c)) {
                        labels.push("any_emitted_with_a_closing_and_a_lasting_candidate");
                    }
                    let until = delivered_at.get(n).cloned().unwrap_or(u64::MAX);
                    if !snapshot.is_empty() && established_at.iter().any(|(p, c, s)| p == epeer && !snapshot.contains(c) && s > eseq && *s < until) {
                        labels.push("new_connection_of_peer_while_any_event_waits");
                    }
                }
                if d.len() > 1 {
                    return Outcome::fail("C07:event-delivered-more-than-once", json!({"node": node, "field": field, "n": n, "to": d}));
                }
                match (one, d.first()) {
                    (Some(c), Some(got)) if c != got => {
                        return Outcome::fail("C07:targeted-event-delivered-to-other-connection", json!({"node": node, "n": n, "target": c, "got": got}));
                    }
                    (None, Some(got)) if !snapshot.contains(got) => {
                        return Outcome::fail("C07:any-event-delivered-to-connection-not-existing-at-emission", json!({"node": node, "n": n, "snapshot": snapshot, "got": got}));
                    }
                    (Some(c), None) => {
                        if !closed.contains(c) {
                            return Outcome::fail("C07:event-lost-although-target-connection-stayed-open", json!({"node": node, "field": field, "n": n, "target": c}));
                        }
                        labels.push("dropped_for_closed_target");
                    }
                    (None, None) => {
                        // an `Any` event is handed to one candidate; if that one closes before its task processed the
                        // event, the event is lost with it. A candidate whose task had already closed its command
                        // channel at emission time can never be handed the event, so it cannot excuse the loss: if some
                        // candidate could still accept the event, the loss needs such a candidate to have closed later
                        // (if every candidate was already closing, dropping the event is what the statement allows).
                        if !snapshot.is_empty() && snapshot.iter().all(|c| !closed.contains(c)) {
                            return Outcome::fail("C07:any-event-lost-although-every-candidate-connection-stayed-open", json!({"node": node, "field": field, "n": n, "snapshot": snapshot}));
                        }
                        // candidates that could still accept the event when it was emitted
                        let alive: Vec<u64> = snapshot.iter().filter(|c| !closing_at.get(*c).map(|s| s < eseq).unwrap_or(false)).cloned().collect();
                        if !alive.is_empty() && alive.iter().all(|c| !closed.contains(c)) {
                            let closing: Vec<u64> = snapshot.iter().filter(|c| !alive.contains(*c)).cloned().collect();
                            return Outcome::fail(
                                "C07:any-event-lost-although-only-already-closing-candidates-closed",
                                json!({"node": node, "field": field, "n": n, "snapshot": snapshot, "command_channel_already_closed_at_emission": closing, "could_accept_and_stayed_open": alive}),
                            );
                        }
                        labels.push("dropped_for_closed_target");
                    }
                    _ => {}
                }
            }
            for (conn, ns) in &per_handler {
                if ns.windows(2).any(|w| w[0] >= w[1]) {
                    return Outcome::fail("C07:events-reordered-for-one-handler", json!({"node": node, "field": field, "conn": conn, "received": ns}));
                }
                if ns.len() >= 3 && !closed.is_empty() {
                    nontrivial = true;
                }
                if ns.len() >= 3 {
                    labels.push("handler_got>=3");
                }
            }
            // queued but never emitted (behaviour not polled again) is impossible after settle
            let queued = r.emissions.iter().filter(|e| e.node == node && e.field == field).count();
            if queued != emits.len() {
                return Outcome::fail("C07:behaviour-command-never-polled", json!({"node": node, "field": field, "queued": queued, "emitted": emits.len()}));
            }
        }
    }
    if r.flags.max_simul >= 2 {
        labels.push("simul>=2");
    }
    labels.sort();
    labels.dedup();
    Outcome::pass_l(nontrivial, labels)
}

pub fn run(ctx: &mut Ctx) {
    ctx.assume("emission time = the moment Probe::poll returns the NotifyHandler command (the probe snapshots its established connections of the peer then); a lost event is acceptable only if its target (or every candidate for Any) was reported closed during the run");
    ctx.check::<Case>(
        "world",
        "world programs (1..2 swarms, 1..2 probe fields, notify_handler_buffer_size 1..3) mixing numbered NotifyHandler::One/Any emissions with connection closes under generated task schedules (connection tasks are starved unless the program steps them); non-trivial = a handler received >=3 events and some connection closed; distinct by case hash",
        ctx.n(40_000, 1_200_000),
        &|| life::case_strategy(2, 1..=2, 0, 60, Weights { dial: 2, connect: 8, resolve_ok: 3, resolve_err: 1, inbound: 1, close: 3, disconnect: 1, remote_close: 2, notify: 20, poll: 8, step: 6, settle: 2 }),
        &check,
    );
}
