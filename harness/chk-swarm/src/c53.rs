//! C53 — allow and block lists are enforced.
//!
//! `libp2p_allow_block_list::Behaviour<BlockedPeers>` / `<AllowedPeers>` are composed with a `Probe`
//! (block+probe, allow+probe, probe+block+allow) and driven by the shared world interpreter. The harness
//! changes the lists between Swarm polls, so "after the list change took effect" = the API call returned
//! before the poll in which the connection would be reported established.
use crate::life::{self, Case, Ext, NodeModel, Weights};
use libp2p_allow_block_list::{AllowedPeers, Behaviour as ListBehaviour, BlockedPeers};
use libp2p_identity::PeerId;
use libp2p_swarm::NetworkBehaviour;
use proptest::prelude::*;
use serde::{Deserialize, Serialize};
use serde_json::{json, Value};
use simswarm::probe::{Entry, ErrKind, Probe, ProbeScript, SharedLog, FS};
use simswarm::world::{Ev, Probes, World};
use std::collections::BTreeSet;
use vcore::{gen, Ctx, Outcome};

#[derive(NetworkBehaviour)]
#[behaviour(prelude = "libp2p_swarm::derive_prelude")]
pub struct BlockProbe {
    block: ListBehaviour<BlockedPeers>,
    probe: Probe,
}

#[derive(NetworkBehaviour)]
#[behaviour(prelude = "libp2p_swarm::derive_prelude")]
pub struct AllowProbe {
    allow: ListBehaviour<AllowedPeers>,
    probe: Probe,
}

#[derive(NetworkBehaviour)]
#[behaviour(prelude = "libp2p_swarm::derive_prelude")]
pub struct ProbeBlockAllow {
    probe: Probe,
    block: ListBehaviour<BlockedPeers>,
    allow: ListBehaviour<AllowedPeers>,
}

pub trait HasLists {
    fn block(&mut self) -> Option<&mut ListBehaviour<BlockedPeers>>;
    fn allow(&mut self) -> Option<&mut ListBehaviour<AllowedPeers>>;
}

macro_rules! probes {
    ($t:ty) => {
        impl Probes for $t {
            fn fields(&self) -> usize {
                1
            }
            fn probe(&mut self, _f: usize) -> &mut Probe {
                &mut self.probe
            }
        }
    };
}
probes!(BlockProbe);
probes!(AllowProbe);
probes!(ProbeBlockAllow);

impl HasLists for BlockProbe {
    fn block(&mut self) -> Option<&mut ListBehaviour<BlockedPeers>> {
        Some(&mut self.block)
    }
    fn allow(&mut self) -> Option<&mut ListBehaviour<AllowedPeers>> {
        None
    }
}
impl HasLists for AllowProbe {
    fn block(&mut self) -> Option<&mut ListBehaviour<BlockedPeers>> {
        None
    }
    fn allow(&mut self) -> Option<&mut ListBehaviour<AllowedPeers>> {
        Some(&mut self.allow)
    }
}
impl HasLists for ProbeBlockAllow {
    fn block(&mut self) -> Option<&mut ListBehaviour<BlockedPeers>> {
        Some(&mut self.block)
    }
    fn allow(&mut self) -> Option<&mut ListBehaviour<AllowedPeers>> {
        Some(&mut self.allow)
    }
}

#[derive(Clone, Debug, Serialize, Deserialize)]
pub struct ACase {
    /// 0 = {block, probe}, 1 = {allow, probe}, 2 = {probe, block, allow}
    pub mode: u8,
    /// per node: bit k set = gen::peer(k) is blocked from the start
    pub blocked: Vec<u8>,
    /// per node: bit k set = gen::peer(k) is allowed from the start (modes with an allow list)
    pub allowed: Vec<u8>,
    pub base: Case,
}

fn bits(b: u8) -> BTreeSet<PeerId> {
    (0..8).filter(|k| b >> k & 1 == 1).map(gen::peer).collect()
}

#[derive(Default)]
struct ListExt {
    has_block: bool,
    has_allow: bool,
    blocked: Vec<BTreeSet<PeerId>>,
    allowed: Vec<BTreeSet<PeerId>>,
    seen_log: usize,
    seen_ev: Vec<usize>,
    /// (node, peer, conn): connections that existed when the peer became blocked / disallowed
    must_close: Vec<(usize, PeerId, u64)>,
    // statistics
    change_while_established: u32,
    change_while_pending: u32,
    changes: u32,
    lifted: u32,
}

impl ListExt {
    fn permitted(&self, node: usize, p: &PeerId) -> Result<(), &'static str> {
        if self.has_block && self.blocked[node].contains(p) {
            return Err("blocked");
        }
        if self.has_allow && !self.allowed[node].contains(p) {
            return Err("not-allowed");
        }
        Ok(())
    }
}

/// established-and-not-closed connections of `peer` at `node` as seen by the probe (FromSwarm view)
fn live_in_log(log: &SharedLog, node: usize, peer: &PeerId) -> BTreeSet<u64> {
    let l = log.lock().unwrap();
    let mut live = BTreeSet::new();
    for r in l.recs.iter().filter(|r| r.node == node as u8 && r.field == 0) {
        match &r.entry {
            Entry::Swarm(FS::Established { conn, peer: p, .. }) if p == peer => {
                live.insert(*conn);
            }
            Entry::Swarm(FS::Closed { conn, .. }) => {
                live.remove(conn);
            }
            _ => {}
        }
    }
    live
}

impl<B: Probes + HasLists> Ext<B> for ListExt {
    fn op(&mut self, w: &mut World<B>, m: &[NodeModel], node: usize, kind: u8, arg: u8) {
        // arg 0..8: a pool peer; arg 8..16: one of the peers this node currently has an established connection or a
        // pending dial to (falls back to the pool peer when there is none)
        let live: Vec<PeerId> = {
            let mut v: BTreeSet<PeerId> = m[node].est.keys().cloned().collect();
            v.extend(m[node].ids.values().filter(|x| x.handed_out && x.terminal.is_empty() && x.outbound).filter_map(|x| x.expected));
            v.into_iter().collect()
        };
        let p = if arg >= 8 && !live.is_empty() { live[(arg as usize - 8) % live.len()] } else { gen::peer(arg as usize % 8) };
        // map the op kind onto the lists this behaviour has
        let kind = match (self.has_block, self.has_allow) {
            (true, false) => kind % 2,
            (false, true) => 2 + kind % 2,
            _ => kind % 4,
        };
        let before = self.permitted(node, &p).is_ok();
        let b = w.nodes[node].swarm.behaviour_mut();
        match kind {
            0 => {
                b.block().expect("has block list").block_peer(p);
                self.blocked[node].insert(p);
            }
            1 => {
                b.block().expect("has block list").unblock_peer(p);
                self.blocked[node].remove(&p);
            }
            2 => {
                b.allow().expect("has allow list").allow_peer(p);
                self.allowed[node].insert(p);
            }
            _ => {
                b.allow().expect("has allow list").disallow_peer(p);
                self.allowed[node].remove(&p);
            }
        }
        let after = self.permitted(node, &p).is_ok();
        if before && !after {
            // the peer became blocked / disallowed: every connection that exists now has to be closed
            self.changes += 1;
            let mut live: BTreeSet<u64> = m[node].est.get(&p).cloned().unwrap_or_default();
            live.extend(live_in_log(&w.log, node, &p));
            if !live.is_empty() {
                self.change_while_established += 1;
            }
            for c in live {
                self.must_close.push((node, p, c));
            }
            if m[node].ids.values().any(|x| x.handed_out && x.terminal.is_empty() && x.outbound && x.expected == Some(p)) {
                self.change_while_pending += 1;
            }
        } else if !before && after {
            self.lifted += 1;
        }
    }

    fn observe(&mut self, w: &mut World<B>, _m: &[NodeModel], _i: usize, when: &str) -> Option<(String, Value)> {
        // every establishment reported to the probe since the last observation is judged by the lists of its node as
        // they are now: lists only change through `op`, which is followed by an observation before any poll
        let new: Vec<(u8, u64, PeerId)> = {
            let l = w.log.lock().unwrap();
            let v = l.recs[self.seen_log..].iter().filter(|r| r.field == 0).filter_map(|r| if let Entry::Swarm(FS::Established { conn, peer, .. }) = &r.entry { Some((r.node, *conn, *peer)) } else { None }).collect();
            self.seen_log = l.recs.len();
            v
        };
        for (node, conn, peer) in new {
            if let Err(why) = self.permitted(node as usize, &peer) {
                return Some((format!("C53:connection-to-{why}-peer-reported-established-to-behaviour"), json!({"node": node, "conn": conn, "peer": peer.to_string(), "when": when})));
            }
        }
        for node in 0..w.nodes.len() {
            let from = self.seen_ev[node];
            self.seen_ev[node] = w.nodes[node].events.len();
            for e in &w.nodes[node].events[from..] {
                if let Ev::Established { conn, peer, .. } = e {
                    if let Err(why) = self.permitted(node, peer) {
                        return Some((format!("C53:connection-to-{why}-peer-established"), json!({"node": node, "conn": conn, "peer": peer.to_string(), "when": when})));
                    }
                }
            }
        }
        None
    }

    fn finish(&mut self, w: &mut World<B>, m: &[NodeModel]) -> Option<(String, Value)> {
        // quiescence: connections that existed when a peer became blocked / disallowed are closed
        for (node, peer, conn) in &self.must_close {
            let closed_ev = m[*node].ids.get(conn).map(|x| x.closed > 0).unwrap_or(false);
            let closed_fs = !live_in_log(&w.log, *node, peer).contains(conn);
            if !closed_ev || !closed_fs {
                return Some(("C53:connection-existing-at-block-or-disallow-not-closed".into(), json!({"node": node, "peer": peer.to_string(), "conn": conn, "closed_event": closed_ev, "closed_reported_to_behaviour": closed_fs})));
            }
        }
        for node in 0..w.nodes.len() {
            for p in gen::peers().iter().take(8) {
                if self.permitted(node, p).is_err() && w.nodes[node].swarm.is_connected(p) {
                    return Some(("C53:connected-to-blocked-or-disallowed-peer-at-quiescence".into(), json!({"node": node, "peer": p.to_string(), "why": self.permitted(node, p).err()})));
                }
            }
        }
        None
    }
}

fn script_for(case: &Case, node: usize) -> ProbeScript {
    ProbeScript {
        deny: case.denies.iter().filter(|(n, f, _, _)| *n as usize == node && *f == 0).map(|(_, _, d, k)| (*d, *k)).collect(),
        dial_addrs: vec![],
        protocols: vec!["/probe/1".into()],
        keep_alive: true,
        stream_timeout_ms: 0,
    }
}

fn check(c: &ACase) -> Outcome {
    let mut base = c.base.clone();
    base.fields = 1;
    let nn = base.nodes.clamp(1, 3) as usize;
    let mode = c.mode % 3;
    let mut ext = ListExt {
        has_block: mode != 1,
        has_allow: mode != 0,
        blocked: (0..nn).map(|i| bits(c.blocked.get(i).cloned().unwrap_or(0))).collect(),
        allowed: (0..nn).map(|i| bits(c.allowed.get(i).cloned().unwrap_or(0))).collect(),
        seen_ev: vec![0; nn],
        ..Default::default()
    };
    let mk_block = |i: usize| {
        let mut b = ListBehaviour::<BlockedPeers>::default();
        for p in bits(c.blocked.get(i).cloned().unwrap_or(0)) {
            b.block_peer(p);
        }
        b
    };
    let mk_allow = |i: usize| {
        let mut b = ListBehaviour::<AllowedPeers>::default();
        for p in bits(c.allowed.get(i).cloned().unwrap_or(0)) {
            b.allow_peer(p);
        }
        b
    };
    let r = match mode {
        0 => life::run_with(&base, |i, log: SharedLog| BlockProbe { block: mk_block(i), probe: Probe::new(i as u8, 0, log, script_for(&base, i)) }, &mut ext),
        1 => life::run_with(&base, |i, log: SharedLog| AllowProbe { allow: mk_allow(i), probe: Probe::new(i as u8, 0, log, script_for(&base, i)) }, &mut ext),
        _ => life::run_with(&base, |i, log: SharedLog| ProbeBlockAllow { probe: Probe::new(i as u8, 0, log, script_for(&base, i)), block: mk_block(i), allow: mk_allow(i) }, &mut ext),
    };
    if let Some((sig, detail)) = r.fails.iter().find(|(s, _)| s.starts_with("C53:")) {
        return Outcome::fail(sig.clone(), detail.clone());
    }
    // a failure of one of the interpreter's own oracles (C01/C02/... signatures) is reported as it is
    if let Some((sig, detail)) = r.fails.first() {
        return Outcome::fail(sig.clone(), detail.clone());
    }
    if !r.settled {
        return Outcome::Inconclusive("world did not settle within the round bound".into());
    }
    let mut labels: Vec<&'static str> = vec![["mode:block+probe", "mode:allow+probe", "mode:probe+block+allow"][mode as usize]];
    if ext.change_while_established > 0 {
        labels.push("became-forbidden-while-established");
    }
    if ext.change_while_pending > 0 {
        labels.push("became-forbidden-while-dial-pending");
    }
    if ext.changes > 0 {
        labels.push("became-forbidden");
    }
    if ext.lifted > 0 {
        labels.push("became-permitted");
    }
    if !ext.must_close.is_empty() {
        labels.push("closed-by-list-change");
    }
    let denied = r.events.iter().flatten().any(|e| matches!(e, Ev::OutgoingError { err: ErrKind::Denied, .. } | Ev::IncomingError { err: ErrKind::Denied, .. }));
    let denied_sync = r.models.iter().any(|m| m.ids.values().any(|x| x.sync_err == Some(ErrKind::Denied)));
    if denied {
        labels.push("denied-at-establishment");
    }
    if denied_sync {
        labels.push("dial-denied");
    }
    if r.flags.established > 0 {
        labels.push("established");
    }
    if r.flags.inbound_est > 0 {
        labels.push("inbound_established");
    }
    if r.flags.two_node_links > 0 {
        labels.push("swarm_to_swarm");
    }
    Outcome::pass_l(ext.change_while_established > 0 || ext.change_while_pending > 0, labels)
}

fn strategy(max_ops: usize) -> BoxedStrategy<ACase> {
    let w = Weights { dial: 7, connect: 9, resolve_ok: 10, resolve_err: 1, inbound: 5, close: 1, disconnect: 1, remote_close: 1, notify: 0, poll: 6, step: 4, settle: 3 };
    (
        0u8..3,
        // few peers blocked, most peers allowed at the start
        proptest::collection::vec((any::<u8>(), any::<u8>(), any::<u8>()).prop_map(|(a, b, c)| a & b & c), 3),
        proptest::collection::vec((any::<u8>(), any::<u8>(), any::<u8>()).prop_map(|(a, b, c)| a | b | c), 3),
        life::case_strategy_ext(3, 1..=1, 1, 4..=max_ops, w, 9, 4, 16),
    )
        .prop_map(|(mode, blocked, allowed, base)| ACase { mode, blocked, allowed, base })
        .boxed()
}

pub fn run(ctx: &mut Ctx) {
    ctx.assume("transport, muxer and remote peers are simulated (simswarm); connection tasks run on the harness executor; idle timeout 1h so no timer fires");
    ctx.assume("list changes are made between Swarm polls; a change has taken effect when block_peer/unblock_peer/allow_peer/disallow_peer returned");
    let max_ops = ctx.tier.sel(50, 70);
    ctx.check::<ACase>(
        "world",
        "programs of 4..50 world ops (dials with/without peer id in both directions, swarm-to-swarm connects, phantom inbound connections, transport outcomes, closes, block/unblock/allow/disallow of the 8 pool peers (half of the time aimed at a peer with a live connection or pending dial), generated schedules) over 1..3 swarms whose behaviour is #[derive(NetworkBehaviour)] {block, probe} / {allow, probe} / {probe, block, allow} with generated initial lists; oracle: no ConnectionEstablished (FromSwarm at the probe, SwarmEvent) for a peer that is blocked / not allowed when it is reported; at quiescence every connection that existed when its peer became blocked / disallowed has been closed and is_connected(p) is false for every forbidden p; non-trivial = a peer became forbidden while a connection to it was established or a dial to it pending; distinct by case hash",
        ctx.n(60_000, 2_000_000),
        &move || strategy(max_ops),
        &check,
    );
}
