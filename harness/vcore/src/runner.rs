//! Case search, shrinking, replay, evidence and exit codes — one contract for every check.
//!
//! exit 0: property held on everything explored (KNOWN-FINDING lines may be printed)
//! exit 1: `VIOLATION property=<id> replay=<path>` printed
//! exit 2: `INCONCLUSIVE ...` (watchdog, bound hit, nothing evaluated); never a violation

use proptest::strategy::{BoxedStrategy, Strategy, ValueTree};
use proptest::test_runner::{Config, RngSeed, TestCaseError, TestError, TestRunner};
use serde::{de::DeserializeOwned, Deserialize, Serialize};
use serde_json::{json, Value};
use std::cell::RefCell;
use std::collections::{BTreeMap, HashSet};
use std::fmt::Debug;
use std::panic::{self, AssertUnwindSafe};
use std::path::{Path, PathBuf};
use std::sync::atomic::{AtomicBool, AtomicU64, Ordering};
use std::sync::{Mutex, Once};
use std::time::Instant;

/// Fuzz targets as sub-checks + the libFuzzer stage of the thorough tier (`Ctx::fuzz*`).
#[path = "fuzzstage.rs"]
pub mod fuzzstage;

pub const LANES: usize = 16;
pub const DEFAULT_SEED: u64 = 20260921;

#[derive(Clone, Copy, Debug, PartialEq, Eq)]
pub enum Tier {
    Quick,
    Thorough,
}

impl Tier {
    pub fn name(self) -> &'static str {
        match self {
            Tier::Quick => "quick",
            Tier::Thorough => "thorough",
        }
    }
    /// pick a value by tier
    pub fn sel<T>(self, quick: T, thorough: T) -> T {
        match self {
            Tier::Quick => quick,
            Tier::Thorough => thorough,
        }
    }
}

#[derive(Clone, Debug, Deserialize)]
pub struct Known {
    pub property: String,
    pub status: String, // "known" | "fixed"
    pub signature: String,
    #[serde(default)]
    pub what: String,
    #[serde(default)]
    pub commit: Option<String>,
}

#[derive(Clone, Debug)]
pub enum Outcome {
    /// property held for this case
    Pass { nontrivial: bool, labels: Vec<&'static str> },
    /// case is outside the property's domain (counted, not evaluated)
    Discard,
    /// property violated; `signature` identifies the *kind* of failure (used for known findings)
    Fail { signature: String, detail: Value },
    /// a step/time bound was exceeded — neither pass nor violation
    Inconclusive(String),
}

impl Outcome {
    pub fn pass(nontrivial: bool) -> Self {
        Outcome::Pass { nontrivial, labels: vec![] }
    }
    pub fn pass_l(nontrivial: bool, labels: Vec<&'static str>) -> Self {
        Outcome::Pass { nontrivial, labels }
    }
    pub fn fail(signature: impl Into<String>, detail: impl Serialize) -> Self {
        Outcome::Fail {
            signature: signature.into(),
            detail: serde_json::to_value(detail).unwrap_or(Value::Null),
        }
    }
    pub fn is_fail(&self) -> bool {
        matches!(self, Outcome::Fail { .. })
    }
}

/// `ensure!(cond, "signature", detail-expr)` → early-return an `Outcome::Fail`.
#[macro_export]
macro_rules! ensure {
    ($cond:expr, $sig:expr, $detail:expr) => {
        if !($cond) {
            return $crate::Outcome::fail($sig, $detail);
        }
    };
    ($cond:expr, $sig:expr) => {
        if !($cond) {
            return $crate::Outcome::fail($sig, stringify!($cond));
        }
    };
}

#[derive(Default, Clone, Debug)]
struct SubReport {
    name: String,
    evaluations: u64,
    discards: u64,
    nontrivial_hashes: HashSet<u64>,
    nontrivial_total: u64,
    labels: BTreeMap<String, u64>,
    samples: Vec<Value>,
    excluded_known: u64,
    replays_run: u64,
    exhaustive: bool,
    rule: String,
    inconclusive: u64,
}

pub struct Ctx {
    pub id: String,
    pub tier: Tier,
    pub seed: u64,
    pub root: PathBuf,
    pub level: &'static str,
    known: Vec<Known>,
    subs: Vec<SubReport>,
    violations: Vec<(String, String, PathBuf)>, // (sub, signature, replay)
    known_hits: BTreeMap<String, u64>,
    inconclusive: Vec<String>,
    /// reasons that make the whole run INCONCLUSIVE (exit 2) unless a violation was found:
    /// fuzz build failure, libFuzzer stage could not run, resource-bound artifact
    hard_inconclusive: Vec<String>,
    assumptions: Vec<String>,
    extra: BTreeMap<String, Value>,
    replay_only: Option<PathBuf>,
    only_sub: Option<String>,
    start: Instant,
    threads: usize,
}

#[derive(Serialize, Deserialize)]
struct ReplayFile {
    property: String,
    subcheck: String,
    seed: u64,
    signature: String,
    case: Value,
    #[serde(default)]
    observed: Value,
    #[serde(default)]
    note: String,
}

thread_local! {
    static LAST_PANIC: RefCell<Option<String>> = const { RefCell::new(None) };
    static QUIET: RefCell<bool> = const { RefCell::new(false) };
}
static HOOK: Once = Once::new();

fn install_hook() {
    HOOK.call_once(|| {
        let prev = panic::take_hook();
        panic::set_hook(Box::new(move |info| {
            let loc = info
                .location()
                .map(|l| format!("{}:{}", l.file(), l.line()))
                .unwrap_or_default();
            let msg = if let Some(s) = info.payload().downcast_ref::<&str>() {
                s.to_string()
            } else if let Some(s) = info.payload().downcast_ref::<String>() {
                s.clone()
            } else {
                "<non-string panic>".to_string()
            };
            LAST_PANIC.with(|p| *p.borrow_mut() = Some(format!("{loc}: {msg}")));
            let quiet = QUIET.with(|q| *q.borrow());
            if !quiet {
                prev(info);
            }
        }));
    });
}

/// Run `f`, converting a panic into `Err(description)`; panic output is suppressed.
pub fn catch<T>(f: impl FnOnce() -> T) -> Result<T, String> {
    install_hook();
    let was = QUIET.with(|q| std::mem::replace(&mut *q.borrow_mut(), true));
    LAST_PANIC.with(|p| *p.borrow_mut() = None);
    let r = panic::catch_unwind(AssertUnwindSafe(f));
    QUIET.with(|q| *q.borrow_mut() = was);
    match r {
        Ok(v) => Ok(v),
        Err(_) => Err(LAST_PANIC
            .with(|p| p.borrow_mut().take())
            .unwrap_or_else(|| "panic".to_string())),
    }
}

fn panic_signature(desc: &str) -> String {
    // "<file>:<line>: msg" → file (relative to /repo if possible) + first words of msg
    let (loc, msg) = desc.split_once(": ").unwrap_or((desc, ""));
    let file = loc.rsplit_once(':').map(|(f, _)| f).unwrap_or(loc);
    let file = file.strip_prefix("/repo/").unwrap_or(file);
    let msg: String = msg.chars().take(48).collect();
    format!("panic:{file}:{msg}")
}

fn guarded<C>(run: &(dyn Fn(&C) -> Outcome + Sync), case: &C) -> Outcome {
    match catch(|| run(case)) {
        Ok(o) => o,
        Err(desc) => Outcome::Fail { signature: panic_signature(&desc), detail: json!({ "panic": desc }) },
    }
}

impl Ctx {
    pub fn new(id: &str, tier: Tier, seed: u64) -> Self {
        let root = PathBuf::from(std::env::var("VERIF_ROOT").unwrap_or_else(|_| "/verif".into()));
        let known: Vec<Known> = std::fs::read(root.join("known_findings.json"))
            .ok()
            .and_then(|b| serde_json::from_slice(&b).ok())
            .unwrap_or_default();
        let threads = std::env::var("VERIF_THREADS")
            .ok()
            .and_then(|s| s.parse().ok())
            .unwrap_or_else(|| std::thread::available_parallelism().map(|n| n.get()).unwrap_or(4))
            .clamp(1, LANES);
        Ctx {
            id: id.to_string(),
            tier,
            seed,
            root,
            level: "exploration",
            known,
            subs: vec![],
            violations: vec![],
            known_hits: BTreeMap::new(),
            inconclusive: vec![],
            hard_inconclusive: vec![],
            assumptions: vec![],
            extra: BTreeMap::new(),
            replay_only: None,
            only_sub: None,
            start: Instant::now(),
            threads,
        }
    }

    pub fn assume(&mut self, s: &str) {
        self.assumptions.push(s.to_string());
    }
    pub fn extra(&mut self, k: &str, v: Value) {
        self.extra.insert(k.to_string(), v);
    }
    pub fn quick(&self) -> bool {
        self.tier == Tier::Quick
    }
    /// number of cases for this tier (VERIF_SCALE multiplies, for experiments)
    pub fn n(&self, quick: u32, thorough: u32) -> u32 {
        // Quick tiers are fixed work. The per-property factors below were measured on an idle 16-core machine so that
        // every quick tier does roughly 10-20 s of work there (the counts written in the check modules were sized on a
        // machine running at 10-20x load); the thorough tier is unaffected.
        const QUICK_FACTOR: &[(&str, u32)] = &[("C01", 10), ("C02", 10), ("C03", 7), ("C04", 10), ("C05", 10), ("C06", 10), ("C07", 10), ("C08", 10), ("C09", 10), ("C10", 3), ("C11", 10), ("C12", 7), ("C13", 10), ("C14", 2), ("C15", 8), ("C16", 4), ("C17", 4), ("C18", 10), ("C19", 10), ("C20", 10), ("C22", 7), ("C23", 7), ("C24", 6), ("C25", 6), ("C26", 3), ("C27", 9), ("C28", 10), ("C29", 10), ("C30", 5), ("C31", 10), ("C32", 10), ("C33", 10), ("C34", 10), ("C35", 10), ("C36", 10), ("C37", 7), ("C38", 8), ("C39", 5), ("C40", 10), ("C41", 10), ("C42", 10), ("C43", 10), ("C44", 5), ("C46", 7), ("C47", 10), ("C48", 10), ("C50", 3), ("C51", 10), ("C52", 10), ("C53", 10), ("C54", 10), ("C55", 10), ("C56", 8), ("C57", 10), ("C58", 10)];
        let qf = QUICK_FACTOR.iter().find(|(id, _)| *id == self.id).map(|(_, f)| *f).unwrap_or(1);
        // Thorough tiers: x3 over the counts in the check modules, except the wall-clock bound checks.
        let tf = if matches!(self.id.as_str(), "C03" | "C10" | "C45" | "C49") { 1 } else { 3 };
        let thorough = thorough.saturating_mul(tf);
        let quick = quick.saturating_mul(qf).min(thorough.max(quick));
        let base = self.tier.sel(quick, thorough);
        match std::env::var("VERIF_SCALE").ok().and_then(|s| s.parse::<f64>().ok()) {
            Some(f) => ((base as f64) * f).max(1.0) as u32,
            None => base,
        }
    }

    fn is_known(&self, sig: &str) -> bool {
        self.known.iter().any(|k| k.property == self.id && k.status == "known" && k.signature == sig)
    }

    fn sub_seed(&self, sub: &str, lane: usize) -> u64 {
        self.seed ^ crate::fnv(format!("{}|{}|{}", self.id, sub, lane).as_bytes())
    }

    fn replay_dir(&self) -> PathBuf {
        self.root.join("replays").join(&self.id)
    }

    fn write_replay<C: Serialize>(&self, sub: &str, sig: &str, case: &C, detail: &Value, note: &str) -> PathBuf {
        let dir = self.replay_dir();
        let _ = std::fs::create_dir_all(&dir);
        let case_v = serde_json::to_value(case).unwrap_or(Value::Null);
        let h = crate::fnv(serde_json::to_string(&case_v).unwrap_or_default().as_bytes());
        let path = dir.join(format!("found-{}-{:016x}.json", sanitize(sub), h));
        let rf = ReplayFile {
            property: self.id.clone(),
            subcheck: sub.to_string(),
            seed: self.seed,
            signature: sig.to_string(),
            case: case_v,
            observed: detail.clone(),
            note: note.to_string(),
        };
        let _ = std::fs::write(&path, serde_json::to_vec_pretty(&rf).unwrap());
        path
    }

    fn record_fail<C: Serialize>(&mut self, sub: &str, sig: &str, case: &C, detail: &Value, note: &str, existing: Option<&Path>) {
        if self.is_known(sig) {
            *self.known_hits.entry(sig.to_string()).or_default() += 1;
            return;
        }
        let path = match existing {
            Some(p) => p.to_path_buf(),
            None => self.write_replay(sub, sig, case, detail, note),
        };
        eprintln!("  failure sub={sub} signature={sig} detail={}", truncate(&detail.to_string(), 1500));
        self.violations.push((sub.to_string(), sig.to_string(), path));
    }

    fn want_sub(&self, sub: &str) -> bool {
        self.only_sub.as_deref().map(|s| s == sub).unwrap_or(true)
    }

    /// Replays: every `replays/<ID>/*.json` for this sub-check, or only `--replay <file>`.
    fn run_replays<C>(&mut self, sub: &str, run: &(dyn Fn(&C) -> Outcome + Sync), rep: &mut SubReport)
    where
        C: Serialize + DeserializeOwned,
    {
        let files: Vec<PathBuf> = match &self.replay_only {
            Some(p) => vec![p.clone()],
            None => {
                let mut v: Vec<PathBuf> = std::fs::read_dir(self.replay_dir())
                    .map(|d| d.filter_map(|e| e.ok()).map(|e| e.path()).filter(|p| p.extension().map(|e| e == "json").unwrap_or(false)).collect())
                    .unwrap_or_default();
                v.sort();
                v
            }
        };
        for f in files {
            let Ok(bytes) = std::fs::read(&f) else { continue };
            let Ok(rf) = serde_json::from_slice::<ReplayFile>(&bytes) else {
                // raw (non-JSON) replay files belong to the fuzz:<target> sub-checks (fuzzstage.rs)
                if self.replay_only.is_some() && f.extension().map(|e| e == "json").unwrap_or(false) {
                    eprintln!("replay file {} does not parse", f.display());
                }
                continue;
            };
            if rf.property != self.id || rf.subcheck != sub {
                continue;
            }
            let Ok(case) = serde_json::from_value::<C>(rf.case.clone()) else {
                eprintln!("replay {}: case no longer deserialises for sub-check {sub}; skipped", f.display());
                continue;
            };
            rep.replays_run += 1;
            // code under test may draw its own randomness: re-execute a few times
            let reps = if self.replay_only.is_some() { 16 } else { 4 };
            let mut failed: Option<(String, Value)> = None;
            let mut nfail = 0;
            for _ in 0..reps {
                if let Outcome::Fail { signature, detail } = guarded(run, &case) {
                    nfail += 1;
                    if failed.is_none() {
                        failed = Some((signature, detail));
                    }
                }
            }
            if self.replay_only.is_some() {
                println!("REPLAY property={} sub={} file={} failed={}/{}", self.id, sub, f.display(), nfail, reps);
            }
            if let Some((sig, detail)) = failed {
                self.record_fail(sub, &sig, &case, &detail, "replay", Some(&f));
            }
        }
    }

    /// Generated search: `cases` cases from `make()` spread over 16 deterministic lanes.
    pub fn check<C>(
        &mut self,
        sub: &str,
        rule: &str,
        cases: u32,
        make: &(dyn Fn() -> BoxedStrategy<C> + Sync),
        run: &(dyn Fn(&C) -> Outcome + Sync),
    ) where
        C: Debug + Clone + Serialize + DeserializeOwned + Send + 'static,
    {
        if !self.want_sub(sub) {
            return;
        }
        install_hook();
        let mut rep = SubReport { name: sub.to_string(), rule: rule.to_string(), ..Default::default() };
        self.run_replays(sub, run, &mut rep);
        if self.replay_only.is_some() {
            self.subs.push(rep);
            return;
        }
        let t0 = Instant::now();
        let stop = AtomicBool::new(false);
        let next_lane = AtomicU64::new(0);
        let shared = Mutex::new((rep, Vec::<(C, String, Value, String)>::new(), BTreeMap::<String, u64>::new(), Vec::<String>::new()));
        let known_sigs: HashSet<String> = self
            .known
            .iter()
            .filter(|k| k.property == self.id && k.status == "known")
            .map(|k| k.signature.clone())
            .collect();
        let per = cases as usize / LANES;
        let rem = cases as usize % LANES;
        let max_shrink = self.tier.sel(2048, 8192);
        std::thread::scope(|s| {
            for _ in 0..self.threads {
                s.spawn(|| loop {
                    let lane = next_lane.fetch_add(1, Ordering::SeqCst) as usize;
                    if lane >= LANES || stop.load(Ordering::SeqCst) {
                        break;
                    }
                    let n = per + usize::from(lane < rem);
                    if n == 0 {
                        continue;
                    }
                    let cfg = Config {
                        cases: n as u32,
                        rng_seed: RngSeed::Fixed(self.sub_seed(sub, lane)),
                        failure_persistence: None,
                        max_shrink_iters: max_shrink,
                        max_global_rejects: 1 << 30,
                        max_local_rejects: 1 << 20,
                        ..Config::default()
                    };
                    let mut runner = TestRunner::new(cfg);
                    let strat = make();
                    let mut local = SubReport::default();
                    let mut local_known: BTreeMap<String, u64> = BTreeMap::new();
                    let mut local_inconcl: Vec<String> = vec![];
                    let failed_here = std::cell::Cell::new(false);
                    let res = {
                        let local = RefCell::new(&mut local);
                        let local_known = RefCell::new(&mut local_known);
                        let local_inconcl = RefCell::new(&mut local_inconcl);
                        runner.run(&strat, |case: C| {
                            if stop.load(Ordering::Relaxed) && !failed_here.get() {
                                return Ok(());
                            }
                            let out = guarded(run, &case);
                            let counting = !failed_here.get();
                            match out {
                                Outcome::Pass { nontrivial, labels } => {
                                    if counting {
                                        let mut l = local.borrow_mut();
                                        l.evaluations += 1;
                                        for lb in labels {
                                            *l.labels.entry(lb.to_string()).or_default() += 1;
                                        }
                                        if nontrivial {
                                            l.nontrivial_total += 1;
                                            let v = serde_json::to_string(&case).unwrap_or_else(|_| format!("{case:?}"));
                                            l.nontrivial_hashes.insert(crate::fnv(v.as_bytes()));
                                            if l.samples.len() < 2 {
                                                l.samples.push(sample_value(&case));
                                            }
                                        }
                                    }
                                    Ok(())
                                }
                                Outcome::Discard => {
                                    if counting {
                                        local.borrow_mut().discards += 1;
                                    }
                                    Ok(())
                                }
                                Outcome::Inconclusive(why) => {
                                    if counting {
                                        let mut l = local.borrow_mut();
                                        l.evaluations += 1;
                                        l.inconclusive += 1;
                                        let mut li = local_inconcl.borrow_mut();
                                        if li.len() < 3 {
                                            li.push(why);
                                        }
                                    }
                                    Ok(())
                                }
                                Outcome::Fail { signature, .. } => {
                                    if known_sigs.contains(&signature) {
                                        if counting {
                                            let mut l = local.borrow_mut();
                                            l.evaluations += 1;
                                            l.excluded_known += 1;
                                            *local_known.borrow_mut().entry(signature).or_default() += 1;
                                        }
                                        Ok(())
                                    } else {
                                        if counting {
                                            local.borrow_mut().evaluations += 1;
                                        }
                                        failed_here.set(true);
                                        stop.store(true, Ordering::SeqCst);
                                        Err(TestCaseError::fail(signature))
                                    }
                                }
                            }
                        })
                    };
                    let mut g = shared.lock().unwrap();
                    merge(&mut g.0, local);
                    for (k, v) in local_known {
                        *g.2.entry(k).or_default() += v;
                    }
                    g.3.extend(local_inconcl);
                    match res {
                        Ok(()) => {}
                        Err(TestError::Fail(_reason, value)) => {
                            // re-run the shrunk value for the final signature/detail; the code under
                            // test may use its own randomness, so try several times
                            let mut got = None;
                            let mut hits = 0;
                            for _ in 0..16 {
                                if let Outcome::Fail { signature, detail } = guarded(run, &value) {
                                    hits += 1;
                                    if got.is_none() {
                                        got = Some((signature, detail));
                                    }
                                }
                            }
                            match got {
                                Some((sig, detail)) => g.1.push((value, sig, detail, format!("lane {lane}; reproduced {hits}/16 on re-execution"))),
                                None => g.3.push(format!("lane {lane}: failure did not reproduce on re-execution of the shrunk case")),
                            }
                        }
                        Err(TestError::Abort(why)) => {
                            g.3.push(format!("lane {lane}: proptest aborted: {why}"));
                        }
                    }
                });
            }
        });
        let (mut rep, fails, known_hits, inconcl) = shared.into_inner().unwrap();
        for (k, v) in known_hits {
            *self.known_hits.entry(k).or_default() += v;
        }
        for (case, sig, detail, note) in fails {
            self.record_fail(sub, &sig, &case, &detail, &note, None);
        }
        for i in inconcl {
            self.inconclusive.push(format!("{sub}: {i}"));
        }
        rep.labels.insert("_wall_ms".into(), t0.elapsed().as_millis() as u64);
        self.subs.push(rep);
    }

    /// Enumeration (finite sweep): every item of `items` is evaluated; lanes split by index.
    pub fn sweep<C, I>(&mut self, sub: &str, rule: &str, exhaustive: bool, items: &(dyn Fn(usize) -> I + Sync), run: &(dyn Fn(&C) -> Outcome + Sync))
    where
        C: Debug + Clone + Serialize + DeserializeOwned + Send + 'static,
        I: Iterator<Item = C>,
    {
        // `items(lane)` must return the lane-th residue class of the enumeration (lane in 0..LANES)
        if !self.want_sub(sub) {
            return;
        }
        install_hook();
        let mut rep = SubReport { name: sub.to_string(), rule: rule.to_string(), exhaustive, ..Default::default() };
        self.run_replays(sub, run, &mut rep);
        if self.replay_only.is_some() {
            self.subs.push(rep);
            return;
        }
        let t0 = Instant::now();
        let known_sigs: HashSet<String> = self
            .known
            .iter()
            .filter(|k| k.property == self.id && k.status == "known")
            .map(|k| k.signature.clone())
            .collect();
        let stop = AtomicBool::new(false);
        let next_lane = AtomicU64::new(0);
        let shared = Mutex::new((rep, Vec::<(C, String, Value)>::new(), BTreeMap::<String, u64>::new()));
        std::thread::scope(|s| {
            for _ in 0..self.threads {
                s.spawn(|| loop {
                    let lane = next_lane.fetch_add(1, Ordering::SeqCst) as usize;
                    if lane >= LANES {
                        break;
                    }
                    let mut local = SubReport::default();
                    let mut local_known: BTreeMap<String, u64> = BTreeMap::new();
                    let mut fail = None;
                    for case in items(lane) {
                        if stop.load(Ordering::Relaxed) {
                            break;
                        }
                        match guarded(run, &case) {
                            Outcome::Pass { nontrivial, labels } => {
                                local.evaluations += 1;
                                for lb in labels {
                                    *local.labels.entry(lb.to_string()).or_default() += 1;
                                }
                                if nontrivial {
                                    local.nontrivial_total += 1;
                                    // enumerations do not repeat: count without hashing when large
                                    if local.nontrivial_hashes.len() < 200_000 {
                                        let v = serde_json::to_string(&case).unwrap_or_default();
                                        local.nontrivial_hashes.insert(crate::fnv(v.as_bytes()));
                                    }
                                    if local.samples.len() < 1 {
                                        local.samples.push(sample_value(&case));
                                    }
                                }
                            }
                            Outcome::Discard => local.discards += 1,
                            Outcome::Inconclusive(_) => {
                                local.evaluations += 1;
                                local.inconclusive += 1;
                            }
                            Outcome::Fail { signature, detail } => {
                                local.evaluations += 1;
                                if known_sigs.contains(&signature) {
                                    local.excluded_known += 1;
                                    *local_known.entry(signature).or_default() += 1;
                                } else {
                                    stop.store(true, Ordering::SeqCst);
                                    fail = Some((case, signature, detail));
                                    break;
                                }
                            }
                        }
                    }
                    let mut g = shared.lock().unwrap();
                    merge(&mut g.0, local);
                    for (k, v) in local_known {
                        *g.2.entry(k).or_default() += v;
                    }
                    if let Some(f) = fail {
                        g.1.push(f);
                    }
                });
            }
        });
        let (mut rep, fails, known_hits) = shared.into_inner().unwrap();
        for (k, v) in known_hits {
            *self.known_hits.entry(k).or_default() += v;
        }
        for (case, sig, detail) in fails {
            self.record_fail(sub, &sig, &case, &detail, "sweep", None);
        }
        rep.labels.insert("_wall_ms".into(), t0.elapsed().as_millis() as u64);
        self.subs.push(rep);
    }

    pub fn finish(self) -> ! {
        let wall = self.start.elapsed().as_secs_f64();
        let evaluations: u64 = self.subs.iter().map(|s| s.evaluations).sum();
        let distinct_nt: u64 = self.subs.iter().map(|s| s.nontrivial_hashes.len() as u64).sum();
        let mut samples: Vec<Value> = vec![];
        for s in &self.subs {
            for v in s.samples.iter().take(3) {
                samples.push(json!({ "sub": s.name, "case": v }));
            }
        }
        let rule = self.subs.iter().map(|s| format!("[{}] {}", s.name, s.rule)).collect::<Vec<_>>().join(" || ");
        let subs_json: Vec<Value> = self
            .subs
            .iter()
            .map(|s| {
                json!({
                    "sub": s.name, "evaluations": s.evaluations, "discarded": s.discards,
                    "nontrivial_total": s.nontrivial_total, "distinct_nontrivial": s.nontrivial_hashes.len(),
                    "labels": s.labels, "excluded_known": s.excluded_known, "replays_run": s.replays_run,
                    "exhaustive": s.exhaustive, "inconclusive_cases": s.inconclusive,
                })
            })
            .collect();
        let mut coverage = json!({
            "evaluations": evaluations,
            "distinct_nontrivial": distinct_nt,
            "rule": rule,
            "samples": samples,
            "subchecks": subs_json,
            "excluded_known": self.subs.iter().map(|s| s.excluded_known).sum::<u64>(),
            "known_finding_hits": self.known_hits,
            "inconclusive": self.inconclusive.iter().chain(self.hard_inconclusive.iter()).collect::<Vec<_>>(),
            "exhaustive": !self.subs.is_empty() && self.subs.iter().all(|s| s.exhaustive),
        });
        for (k, v) in &self.extra {
            coverage[k] = v.clone();
        }
        let ev = json!({
            "property_id": self.id,
            "tier": self.tier.name(),
            "seed": self.seed,
            "level": self.level,
            "coverage": coverage,
            "assumptions": self.assumptions,
            "wall_s": wall,
            "violations": self.violations.len(),
        });
        if self.replay_only.is_none() && self.only_sub.is_none() {
            let dir = self.root.join("evidence");
            let _ = std::fs::create_dir_all(&dir);
            let _ = std::fs::write(dir.join(format!("{}.json", self.id)), serde_json::to_vec_pretty(&ev).unwrap());
        }
        for (sig, n) in &self.known_hits {
            let what = self.known.iter().find(|k| &k.signature == sig).map(|k| k.what.clone()).unwrap_or_default();
            println!("KNOWN-FINDING: property={} signature={} hits={} {}", self.id, sig, n, what);
        }
        for (sub, sig, path) in &self.violations {
            println!("VIOLATION property={} replay={} sub={} signature={}", self.id, path.display(), sub, sig);
        }
        let code = if !self.violations.is_empty() {
            1
        } else if evaluations == 0 && self.replay_only.is_none() {
            println!("INCONCLUSIVE property={} nothing evaluated", self.id);
            for i in &self.hard_inconclusive {
                println!("INCONCLUSIVE property={} {}", self.id, i);
            }
            2
        } else if !self.hard_inconclusive.is_empty() {
            for i in &self.hard_inconclusive {
                println!("INCONCLUSIVE property={} {}", self.id, i);
            }
            2
        } else if !self.inconclusive.is_empty() && self.inconclusive.iter().any(|s| s.contains("aborted") || s.contains("did not reproduce")) {
            for i in &self.inconclusive {
                println!("INCONCLUSIVE property={} {}", self.id, i);
            }
            2
        } else {
            0
        };
        println!(
            "RESULT property={} tier={} seed={} evaluations={} distinct_nontrivial={} violations={} known_hits={} wall_s={:.1} exit={}",
            self.id,
            self.tier.name(),
            self.seed,
            evaluations,
            distinct_nt,
            self.violations.len(),
            self.known_hits.values().sum::<u64>(),
            wall,
            code
        );
        std::process::exit(code)
    }
}

fn merge(into: &mut SubReport, from: SubReport) {
    into.evaluations += from.evaluations;
    into.discards += from.discards;
    into.nontrivial_total += from.nontrivial_total;
    into.nontrivial_hashes.extend(from.nontrivial_hashes);
    for (k, v) in from.labels {
        *into.labels.entry(k).or_default() += v;
    }
    for s in from.samples {
        if into.samples.len() < 4 {
            into.samples.push(s);
        }
    }
    into.excluded_known += from.excluded_known;
    into.inconclusive += from.inconclusive;
}

fn sample_value<C: Serialize>(c: &C) -> Value {
    let v = serde_json::to_value(c).unwrap_or(Value::Null);
    let s = v.to_string();
    if s.len() > 4000 {
        json!({ "truncated_json": truncate(&s, 4000) })
    } else {
        v
    }
}

fn truncate(s: &str, n: usize) -> String {
    if s.len() <= n {
        s.to_string()
    } else {
        let mut end = n;
        while !s.is_char_boundary(end) {
            end -= 1;
        }
        format!("{}…", &s[..end])
    }
}

fn sanitize(s: &str) -> String {
    s.chars().map(|c| if c.is_ascii_alphanumeric() { c } else { '_' }).collect()
}

pub type CheckFn = fn(&mut Ctx);

/// Entry point of every check binary: `chk-x <ID> [--tier quick|thorough] [--seed N] [--replay f] [--sub name]`.
pub fn main(checks: &[(&str, CheckFn)]) -> ! {
    let args: Vec<String> = std::env::args().collect();
    if args.len() < 2 || args[1] == "--list" {
        for (id, _) in checks {
            println!("{id}");
        }
        std::process::exit(if args.len() < 2 { 2 } else { 0 });
    }
    let id = args[1].clone();
    let mut tier = match std::env::var("VERIF_TIER").as_deref() {
        Ok("thorough") => Tier::Thorough,
        _ => Tier::Quick,
    };
    let mut seed = std::env::var("VERIF_SEED").ok().and_then(|s| s.parse::<u64>().ok()).unwrap_or(DEFAULT_SEED);
    let mut replay = None;
    let mut only_sub = None;
    let mut i = 2;
    while i < args.len() {
        match args[i].as_str() {
            "--tier" => {
                i += 1;
                tier = if args.get(i).map(|s| s == "thorough").unwrap_or(false) { Tier::Thorough } else { Tier::Quick };
            }
            "quick" => tier = Tier::Quick,
            "thorough" => tier = Tier::Thorough,
            "--seed" => {
                i += 1;
                seed = args.get(i).and_then(|s| s.parse().ok()).unwrap_or(seed);
            }
            "--replay" => {
                i += 1;
                replay = args.get(i).map(PathBuf::from);
            }
            "--sub" => {
                i += 1;
                only_sub = args.get(i).cloned();
            }
            other => {
                eprintln!("unknown argument {other}");
                std::process::exit(2);
            }
        }
        i += 1;
    }
    let Some((_, f)) = checks.iter().find(|(cid, _)| *cid == id) else {
        eprintln!("unknown property id {id}");
        std::process::exit(2);
    };
    // watchdog: a hang is inconclusive, never a violation
    let budget = std::env::var("VERIF_WATCHDOG_S").ok().and_then(|s| s.parse::<u64>().ok()).unwrap_or(match tier {
        Tier::Quick => 1500,
        Tier::Thorough => 6 * 3600,
    });
    let wid = id.clone();
    std::thread::spawn(move || {
        std::thread::sleep(std::time::Duration::from_secs(budget));
        println!("INCONCLUSIVE property={wid} watchdog after {budget}s");
        std::process::exit(2);
    });
    let mut ctx = Ctx::new(&id, tier, seed);
    ctx.replay_only = replay;
    ctx.only_sub = only_sub;
    f(&mut ctx);
    ctx.finish()
}

/// helper: draw one value from a strategy with a fixed seed (for building fixtures deterministically)
pub fn sample_one<T: Debug>(s: &impl Strategy<Value = T>, seed: u64) -> T {
    let mut r = TestRunner::new(Config { rng_seed: RngSeed::Fixed(seed), failure_persistence: None, ..Config::default() });
    s.new_tree(&mut r).unwrap().current()
}
