//! Reference encoders/decoders written independently of the code under test.

/// unsigned-varint (LEB128) encode
pub fn uvarint(mut v: u64) -> Vec<u8> {
    let mut out = vec![];
    loop {
        let b = (v & 0x7f) as u8;
        v >>= 7;
        if v == 0 {
            out.push(b);
            return out;
        }
        out.push(b | 0x80);
    }
}

/// decode an unsigned varint; returns (value, bytes consumed). None = incomplete or > 10 bytes.
pub fn read_uvarint(b: &[u8]) -> Option<(u64, usize)> {
    let mut v: u64 = 0;
    for (i, &x) in b.iter().enumerate().take(10) {
        v |= ((x & 0x7f) as u64) << (7 * i);
        if x & 0x80 == 0 {
            return Some((v, i + 1));
        }
    }
    None
}

/// length-delimited frame with an unsigned-varint prefix
pub fn lp(payload: &[u8]) -> Vec<u8> {
    let mut v = uvarint(payload.len() as u64);
    v.extend_from_slice(payload);
    v
}

// ---- minimal protobuf wire writer -------------------------------------------------------------

pub fn pb_tag(field: u32, wire: u8) -> Vec<u8> {
    uvarint(((field as u64) << 3) | wire as u64)
}
pub fn pb_bytes(field: u32, data: &[u8]) -> Vec<u8> {
    let mut v = pb_tag(field, 2);
    v.extend(uvarint(data.len() as u64));
    v.extend_from_slice(data);
    v
}
pub fn pb_varint(field: u32, val: u64) -> Vec<u8> {
    let mut v = pb_tag(field, 0);
    v.extend(uvarint(val));
    v
}

/// Parse a protobuf message into (field, wire type, payload bytes / varint as LE bytes).
pub fn pb_parse(mut b: &[u8]) -> Option<Vec<(u32, u8, Vec<u8>)>> {
    let mut out = vec![];
    while !b.is_empty() {
        let (tag, n) = read_uvarint(b)?;
        b = &b[n..];
        let field = (tag >> 3) as u32;
        let wire = (tag & 7) as u8;
        match wire {
            0 => {
                let (v, n) = read_uvarint(b)?;
                b = &b[n..];
                out.push((field, wire, v.to_le_bytes().to_vec()));
            }
            2 => {
                let (l, n) = read_uvarint(b)?;
                b = &b[n..];
                if (l as usize) > b.len() {
                    return None;
                }
                out.push((field, wire, b[..l as usize].to_vec()));
                b = &b[l as usize..];
            }
            1 => {
                if b.len() < 8 {
                    return None;
                }
                out.push((field, wire, b[..8].to_vec()));
                b = &b[8..];
            }
            5 => {
                if b.len() < 4 {
                    return None;
                }
                out.push((field, wire, b[..4].to_vec()));
                b = &b[4..];
            }
            _ => return None,
        }
    }
    Some(out)
}

#[cfg(test)]
mod tests {
    use super::*;
    #[test]
    fn varint() {
        for v in [0u64, 1, 127, 128, 300, 16383, 16384, u64::MAX] {
            let e = uvarint(v);
            assert_eq!(read_uvarint(&e), Some((v, e.len())));
        }
    }
}
