//! Simulation executor: the harness decides which runnable task is polled next.
//!
//! Tasks are boxed futures with a flag waker. `step(pick)` polls the `pick`-th runnable task
//! (monotone index map so proptest shrinking makes progress), `drain` runs a fair round-robin
//! until quiescence. New tasks may be spawned from inside a poll (they go through an inbox), so
//! the executor can be handed to `libp2p_swarm::Config::with_executor` and the Swarm's connection
//! tasks become ordinary schedulable tasks.

use futures::future::BoxFuture;
use futures::task::{waker, ArcWake};
use std::future::Future;
use std::sync::atomic::{AtomicBool, AtomicU64, Ordering};
use std::sync::{Arc, Mutex};
use std::task::{Context, Poll};

struct Flag {
    woken: AtomicBool,
    wakes: AtomicU64,
}

impl ArcWake for Flag {
    fn wake_by_ref(arc_self: &Arc<Self>) {
        arc_self.woken.store(true, Ordering::SeqCst);
        arc_self.wakes.fetch_add(1, Ordering::Relaxed);
    }
}

struct Task {
    fut: Option<BoxFuture<'static, ()>>,
    flag: Arc<Flag>,
    name: String,
    done: bool,
    polls: u64,
}

#[derive(Default)]
struct Inner {
    tasks: Vec<Task>,
}

/// Cloneable handle.
#[derive(Clone, Default)]
pub struct Exec {
    inner: Arc<Mutex<Inner>>,
    inbox: Arc<Mutex<Vec<(String, BoxFuture<'static, ()>)>>>,
    polls: Arc<AtomicU64>,
}

pub type TaskId = usize;

impl Exec {
    pub fn new() -> Self {
        Self::default()
    }

    pub fn spawn(&self, fut: impl Future<Output = ()> + Send + 'static) {
        self.spawn_named("task", fut)
    }

    pub fn spawn_named(&self, name: &str, fut: impl Future<Output = ()> + Send + 'static) {
        self.inbox.lock().unwrap().push((name.to_string(), Box::pin(fut)));
    }

    fn absorb(&self) {
        let new: Vec<_> = std::mem::take(&mut *self.inbox.lock().unwrap());
        if new.is_empty() {
            return;
        }
        let mut g = self.inner.lock().unwrap();
        for (name, fut) in new {
            g.tasks.push(Task {
                fut: Some(fut),
                flag: Arc::new(Flag { woken: AtomicBool::new(true), wakes: AtomicU64::new(0) }),
                name,
                done: false,
                polls: 0,
            });
        }
    }

    /// ids of tasks that are alive and woken
    pub fn runnable(&self) -> Vec<TaskId> {
        self.absorb();
        let g = self.inner.lock().unwrap();
        g.tasks
            .iter()
            .enumerate()
            .filter(|(_, t)| !t.done && t.flag.woken.load(Ordering::SeqCst))
            .map(|(i, _)| i)
            .collect()
    }

    pub fn alive(&self) -> Vec<TaskId> {
        self.absorb();
        let g = self.inner.lock().unwrap();
        g.tasks.iter().enumerate().filter(|(_, t)| !t.done).map(|(i, _)| i).collect()
    }

    pub fn task_name(&self, id: TaskId) -> String {
        self.inner.lock().unwrap().tasks.get(id).map(|t| t.name.clone()).unwrap_or_default()
    }

    pub fn total_polls(&self) -> u64 {
        self.polls.load(Ordering::Relaxed)
    }

    /// Poll task `id` once (also when it was not woken: a spurious poll). Returns true if it completed.
    pub fn poll_task(&self, id: TaskId) -> bool {
        self.absorb();
        let (mut fut, flag) = {
            let mut g = self.inner.lock().unwrap();
            let Some(t) = g.tasks.get_mut(id) else { return false };
            if t.done {
                return true;
            }
            let Some(f) = t.fut.take() else { return false }; // re-entrant poll of the same task
            t.polls += 1;
            (f, t.flag.clone())
        };
        flag.woken.store(false, Ordering::SeqCst);
        self.polls.fetch_add(1, Ordering::Relaxed);
        let w = waker(flag);
        let mut cx = Context::from_waker(&w);
        let res = fut.as_mut().poll(&mut cx);
        let mut g = self.inner.lock().unwrap();
        let t = &mut g.tasks[id];
        match res {
            Poll::Ready(()) => {
                t.done = true;
                drop(fut);
                true
            }
            Poll::Pending => {
                t.fut = Some(fut);
                false
            }
        }
    }

    /// Poll the `pick`-th runnable task. Returns the task polled, or None when nothing is runnable.
    pub fn step(&self, pick: u16) -> Option<TaskId> {
        let r = self.runnable();
        if r.is_empty() {
            return None;
        }
        let id = r[crate::pick(pick, r.len())];
        self.poll_task(id);
        Some(id)
    }

    /// Fair round-robin until nothing is runnable or `max_polls` polls were made.
    /// Returns true on quiescence.
    pub fn drain(&self, max_polls: usize) -> bool {
        let mut n = 0;
        loop {
            let r = self.runnable();
            if r.is_empty() {
                return true;
            }
            for id in r {
                self.poll_task(id);
                n += 1;
                if n >= max_polls {
                    return self.runnable().is_empty();
                }
            }
        }
    }

    /// Like `drain`, but when nothing is runnable waits (real time, for real timers) up to
    /// `max_wait` for a wake-up before giving up. Stops as soon as `done()` is true.
    pub fn drain_until(&self, max_polls: usize, max_wait: std::time::Duration, done: &mut dyn FnMut() -> bool) -> bool {
        let start = std::time::Instant::now();
        let mut n = 0;
        loop {
            if done() {
                return true;
            }
            let r = self.runnable();
            if r.is_empty() {
                if start.elapsed() >= max_wait {
                    return false;
                }
                std::thread::sleep(std::time::Duration::from_millis(1));
                continue;
            }
            for id in r {
                self.poll_task(id);
                n += 1;
                if n >= max_polls {
                    return done();
                }
            }
        }
    }

    /// Drop every task (their futures are dropped now).
    pub fn clear(&self) {
        self.inbox.lock().unwrap().clear();
        let tasks = std::mem::take(&mut self.inner.lock().unwrap().tasks);
        drop(tasks);
    }
}

/// Run a set of futures to completion under a generated schedule; returns false if the poll
/// bound was hit before all completed.
pub fn run_scheduled(futs: Vec<BoxFuture<'static, ()>>, schedule: &[u16], max_polls: usize) -> bool {
    let ex = Exec::new();
    for f in futs {
        ex.spawn(f);
    }
    for &p in schedule {
        if ex.step(p).is_none() {
            break;
        }
    }
    ex.drain(max_polls);
    ex.alive().is_empty()
}

/// A cell to carry a result out of a spawned task.
pub struct Slot<T>(Arc<Mutex<Option<T>>>);

impl<T> Clone for Slot<T> {
    fn clone(&self) -> Self {
        Slot(self.0.clone())
    }
}

impl<T> Default for Slot<T> {
    fn default() -> Self {
        Slot(Arc::new(Mutex::new(None)))
    }
}

impl<T> Slot<T> {
    pub fn new() -> Self {
        Self::default()
    }
    pub fn set(&self, v: T) {
        *self.0.lock().unwrap() = Some(v);
    }
    pub fn take(&self) -> Option<T> {
        self.0.lock().unwrap().take()
    }
    pub fn is_set(&self) -> bool {
        self.0.lock().unwrap().is_some()
    }
}

#[cfg(test)]
mod tests {
    use super::*;

    #[test]
    fn runs_tasks() {
        let ex = Exec::new();
        let s = Slot::new();
        let s2 = s.clone();
        ex.spawn(async move {
            futures::future::ready(()).await;
            s2.set(7);
        });
        assert!(ex.drain(10));
        assert_eq!(s.take(), Some(7));
    }
}
