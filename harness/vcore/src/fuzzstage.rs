//! Fuzz targets as first-class sub-checks (child module of `runner`: it fills the same private
//! violation / inconclusive / evidence fields).
//!
//! A *fuzz target* is a function `fn(&[u8]) -> FuzzVerdict` exported by a check crate's `fuzzapi`
//! module: it splits the bytes into control bytes and a raw tail and runs the **same semantic
//! oracle** as the proptest sub-check of the owning property. The same function is reached three ways:
//!
//! * `fuzz-seeds:<target>` — every committed file of `$VERIF_ROOT/fuzz/seeds/<target>/` (both tiers,
//!   fixed work);
//! * `fuzz:<target>` — proptest-mutated seed-corpus inputs (both tiers; case = `{hex}` so a failure
//!   is an ordinary replay file; `--replay <file.bin>` feeds raw bytes when the file name contains
//!   `fuzz-<target>`);
//! * the libFuzzer binary `/verif/fuzz/fuzz_targets/<target>.rs` (`fuzz_main`), run by
//!   `Ctx::fuzz_stage` in the thorough tier through `fuzz/run_fuzz.sh` with a fixed `-runs`;
//!   crash artifacts are converted to `{hex}` replay files of sub-check `fuzz:<target>`.

use super::{catch, panic_signature, Ctx, Outcome, Tier};
use proptest::prelude::*;
use serde::{Deserialize, Serialize};
use serde_json::{json, Value};
use std::path::{Path, PathBuf};
use std::sync::{Arc, OnceLock};

/// `Ok(nontrivial)` — the oracle held (and the input got past the shallow rejects: the target
/// states what that means) — or `Err((signature, detail))`. The signature `"bound"` means a step
/// bound was exceeded (never a violation).
pub type FuzzVerdict = Result<bool, (String, Value)>;
pub type FuzzEntry = fn(&[u8]) -> FuzzVerdict;

#[derive(Clone, Copy)]
pub struct FuzzTarget {
    /// name of the `[[bin]]` in /verif/fuzz/Cargo.toml and of the seed directory
    pub name: &'static str,
    pub entry: FuzzEntry,
    /// input layout, oracle and non-triviality rule in one sentence (goes into the evidence rule)
    pub about: &'static str,
}

/// The replayable case of the `fuzz:*` sub-checks: the raw input, hex-encoded.
#[derive(Clone, Debug, Serialize, Deserialize, PartialEq, Eq)]
pub struct HexCase {
    pub hex: String,
}

impl HexCase {
    pub fn of(bytes: &[u8]) -> Self {
        let mut hex = String::with_capacity(bytes.len() * 2);
        for b in bytes {
            hex.push_str(&format!("{b:02x}"));
        }
        HexCase { hex }
    }
    pub fn bytes(&self) -> Option<Vec<u8>> {
        let h = self.hex.as_bytes();
        if h.len() % 2 != 0 {
            return None;
        }
        let nib = |c: u8| (c as char).to_digit(16).map(|d| d as u8);
        h.chunks(2).map(|p| Some(nib(p[0])? << 4 | nib(p[1])?)).collect()
    }
}

fn known_signatures() -> &'static Vec<String> {
    static K: OnceLock<Vec<String>> = OnceLock::new();
    K.get_or_init(|| {
        let root = std::env::var("VERIF_ROOT").unwrap_or_else(|_| "/verif".into());
        let v: Vec<Value> = std::fs::read(format!("{root}/known_findings.json")).ok().and_then(|b| serde_json::from_slice(&b).ok()).unwrap_or_default();
        v.iter().filter(|e| e["status"] == "known").filter_map(|e| e["signature"].as_str().map(String::from)).collect()
    })
}

/// Body of a libFuzzer target: `fuzz_target!(|d: &[u8]| vcore::runner::fuzzstage::fuzz_main(entry, d))`.
/// A violation panics with `VIOLATION <signature> <detail>` (libFuzzer stores the input as a crash
/// artifact) unless the signature is a `known` finding or the step bound.
pub fn fuzz_main(entry: FuzzEntry, data: &[u8]) {
    if let Err((sig, detail)) = entry(data) {
        if sig == "bound" || known_signatures().contains(&sig) {
            return;
        }
        panic!("VIOLATION {sig} {detail}");
    }
}

/// One input through the entry point, in-process: panics become failures.
pub fn eval(entry: FuzzEntry, data: &[u8]) -> Outcome {
    match catch(|| entry(data)) {
        Ok(Ok(nontrivial)) => Outcome::pass(nontrivial),
        Ok(Err((sig, _))) if sig == "bound" => Outcome::Inconclusive("step bound".into()),
        Ok(Err((sig, detail))) => Outcome::Fail { signature: sig, detail },
        Err(desc) => Outcome::Fail { signature: panic_signature(&desc), detail: json!({ "panic": desc }) },
    }
}

fn eval_case(entry: FuzzEntry, c: &HexCase) -> Outcome {
    match c.bytes() {
        Some(b) => eval(entry, &b),
        None => Outcome::Discard,
    }
}

/// sorted (file name, content) of the committed seed corpus of a target
pub fn load_seeds(root: &Path, target: &str) -> Vec<(String, Vec<u8>)> {
    let dir = root.join("fuzz").join("seeds").join(target);
    let mut v: Vec<(String, Vec<u8>)> = std::fs::read_dir(&dir)
        .map(|d| {
            d.filter_map(|e| e.ok())
                .filter(|e| e.path().is_file())
                .filter_map(|e| Some((e.file_name().to_string_lossy().into_owned(), std::fs::read(e.path()).ok()?)))
                .collect()
        })
        .unwrap_or_default();
    v.sort();
    v
}

#[derive(Default, Debug)]
struct JobStats {
    seed: u64,
    executed: u64,
    cov: Option<u64>,
    ft: Option<u64>,
    corp: Option<u64>,
    corp_bytes: Option<u64>,
    exec_s: Option<u64>,
    new_units: Option<u64>,
    peak_rss_mb: Option<u64>,
}

fn kv<'a>(line: &'a str, key: &str) -> Option<&'a str> {
    line.split_whitespace().find_map(|w| w.strip_prefix(key).and_then(|r| r.strip_prefix('=')))
}

impl Ctx {
    /// Everything a fuzz target contributes to its owning check: seed replay + proptest-mutated
    /// seeds (both tiers) and the libFuzzer stage (thorough tier only).
    pub fn fuzz(&mut self, t: &FuzzTarget, quick_cases: u32, thorough_cases: u32, runs_per_job: u64, jobs: u32) {
        self.fuzz_seeds(t);
        let n = self.n(quick_cases, thorough_cases);
        self.fuzz_mutated(t, n);
        self.fuzz_stage(t, runs_per_job, jobs);
    }

    /// Sub-check `fuzz-seeds:<target>`: every committed seed file through the oracle.
    pub fn fuzz_seeds(&mut self, t: &FuzzTarget) {
        let sub = format!("fuzz-seeds:{}", t.name);
        if !self.want_sub(&sub) {
            return;
        }
        let seeds = load_seeds(&self.root, t.name);
        if seeds.is_empty() && self.replay_only.is_none() {
            self.hard_inconclusive.push(format!("{sub}: no seed corpus under {}/fuzz/seeds/{}", self.root.display(), t.name));
            return;
        }
        let cases: Vec<HexCase> = seeds.iter().map(|(_, b)| HexCase::of(b)).collect();
        let entry = t.entry;
        let rule = format!("every committed seed file of fuzz/seeds/{} ({} files) through the fuzz entry point; {}", t.name, cases.len(), t.about);
        self.sweep::<HexCase, _>(&sub, &rule, true, &|lane| cases.clone().into_iter().skip(lane).step_by(super::LANES), &move |c: &HexCase| eval_case(entry, c));
    }

    /// Sub-check `fuzz:<target>`: `cases` proptest-mutated seed-corpus inputs through the entry
    /// point. Also the replay point of converted libFuzzer artifacts and of raw `.bin` files.
    pub fn fuzz_mutated(&mut self, t: &FuzzTarget, cases: u32) {
        let sub = format!("fuzz:{}", t.name);
        if !self.want_sub(&sub) {
            return;
        }
        let entry = t.entry;
        // --replay <raw file>: not JSON; associated with its target by file name
        if let Some(p) = self.replay_only.clone() {
            let is_json = p.extension().map(|e| e == "json").unwrap_or(false);
            if !is_json {
                let fname = p.file_name().map(|f| f.to_string_lossy().into_owned()).unwrap_or_default();
                if !fname.contains(&format!("fuzz-{}", t.name)) {
                    return;
                }
                let Ok(bytes) = std::fs::read(&p) else {
                    eprintln!("replay file {} cannot be read", p.display());
                    return;
                };
                super::install_hook();
                let out = eval(entry, &bytes);
                let failed = out.is_fail();
                println!("REPLAY property={} sub={} file={} bytes={} failed={}", self.id, sub, p.display(), bytes.len(), u8::from(failed));
                let mut rep = super::SubReport { name: sub.clone(), ..Default::default() };
                rep.replays_run = 1;
                self.subs.push(rep);
                if let Outcome::Fail { signature, detail } = out {
                    self.record_fail(&sub, &signature, &HexCase::of(&bytes), &detail, "raw replay", Some(&p));
                }
                return;
            }
        }
        let seeds: Arc<Vec<Vec<u8>>> = Arc::new(load_seeds(&self.root, t.name).into_iter().map(|(_, b)| b).collect());
        if seeds.is_empty() && self.replay_only.is_none() {
            self.hard_inconclusive.push(format!("{sub}: no seed corpus under {}/fuzz/seeds/{}", self.root.display(), t.name));
            return;
        }
        let rule = format!(
            "a committed seed of fuzz/seeds/{} (or the splice of two) with 1..6 structure-blind byte mutations (flip/set/insert/remove/dup/truncate), through the same entry point as the libFuzzer target; {}",
            t.name, t.about
        );
        self.check::<HexCase>(
            &sub,
            &rule,
            cases,
            &|| {
                let s1 = seeds.clone();
                let s2 = seeds.clone();
                prop_oneof![
                    4 => (any::<u16>(), proptest::collection::vec(crate::gen::mutation(), 1..6))
                        .prop_map(move |(i, muts)| HexCase::of(&crate::gen::apply_mutations(&s1[crate::pick(i, s1.len())], &muts))),
                    1 => (any::<u16>(), any::<u16>(), any::<u16>(), any::<u16>(), proptest::collection::vec(crate::gen::mutation(), 0..4)).prop_map(move |(i, j, ci, cj, muts)| {
                        let (a, b) = (&s2[crate::pick(i, s2.len())], &s2[crate::pick(j, s2.len())]);
                        let mut v = a[..crate::pick(ci, a.len() + 1)].to_vec();
                        v.extend_from_slice(&b[crate::pick(cj, b.len() + 1)..]);
                        HexCase::of(&crate::gen::apply_mutations(&v, &muts))
                    }),
                ]
                .boxed()
            },
            &move |c: &HexCase| eval_case(entry, c),
        );
    }

    /// libFuzzer stage. Only in the thorough tier and not under `--replay` / `--sub`: runs
    /// `$VERIF_ROOT/fuzz/run_fuzz.sh <target> <runs_per_job> <seed> <jobs>` (fixed `-runs`, seeds
    /// `seed..seed+jobs`, fresh copy of the seed corpus per job).
    /// crash artifact → replay file of sub-check `fuzz:<target>` + violation (exit 1);
    /// build / setup problem, oom / timeout artifact → INCONCLUSIVE (exit 2); success → evidence
    /// `coverage.fuzz[]` with the measured libFuzzer counters.
    pub fn fuzz_stage(&mut self, t: &FuzzTarget, runs_per_job: u64, jobs: u32) {
        if self.tier != Tier::Thorough || self.replay_only.is_some() || self.only_sub.is_some() {
            return;
        }
        let sub = format!("fuzz:{}", t.name);
        let envu = |k: &str| std::env::var(k).ok().and_then(|s| s.parse::<f64>().ok());
        if std::env::var("VERIF_FUZZ").map(|v| v == "0").unwrap_or(false) {
            self.push_fuzz_evidence(json!({"target": t.name, "skipped": "VERIF_FUZZ=0"}));
            println!("NOTE property={} libFuzzer stage {} skipped (VERIF_FUZZ=0)", self.id, t.name);
            return;
        }
        let runs = match envu("VERIF_SCALE") {
            Some(f) => ((runs_per_job as f64) * f).max(1.0) as u64,
            None => runs_per_job,
        };
        let jobs = envu("VERIF_FUZZ_JOBS").map(|j| j as u32).unwrap_or(jobs).max(1);
        // libFuzzer's -seed is a 32-bit unsigned; 0 means "pick a random seed"
        let seed = (self.seed ^ crate::fnv(t.name.as_bytes())) % 0x7fff_0000 + 1;
        let script = self.root.join("fuzz").join("run_fuzz.sh");
        let t0 = std::time::Instant::now();
        let out = std::process::Command::new("bash")
            .arg(&script)
            .arg(t.name)
            .arg(runs.to_string())
            .arg(seed.to_string())
            .arg(jobs.to_string())
            .env("VERIF_ROOT", &self.root)
            .env_remove("CARGO_TARGET_DIR")
            .env_remove("RUSTFLAGS")
            .stderr(std::process::Stdio::inherit())
            .output();
        let wall = t0.elapsed().as_secs_f64();
        let out = match out {
            Ok(o) => o,
            Err(e) => {
                self.hard_inconclusive.push(format!("{sub}: cannot start {}: {e}", script.display()));
                return;
            }
        };
        let text = String::from_utf8_lossy(&out.stdout).into_owned();
        let code = out.status.code().unwrap_or(2);
        let mut stats: Vec<JobStats> = vec![];
        let mut crashes: Vec<(u64, PathBuf)> = vec![];
        for line in text.lines() {
            if line.starts_with("STATS ") {
                let n = |k: &str| kv(line, k).and_then(|v| v.parse::<u64>().ok());
                stats.push(JobStats {
                    seed: n("seed").unwrap_or(0),
                    executed: n("executed").unwrap_or(0),
                    cov: n("cov"),
                    ft: n("ft"),
                    corp: n("corp"),
                    corp_bytes: n("corp_bytes"),
                    exec_s: n("exec_s"),
                    new_units: n("new_units"),
                    peak_rss_mb: n("peak_rss_mb"),
                });
            } else if line.starts_with("CRASH ") {
                if let Some(a) = kv(line, "artifact") {
                    crashes.push((kv(line, "seed").and_then(|s| s.parse().ok()).unwrap_or(0), PathBuf::from(a)));
                }
            }
        }
        let executed: u64 = stats.iter().map(|s| s.executed).sum();
        let per_job: Vec<Value> = stats
            .iter()
            .map(|s| json!({"seed": s.seed, "executed_units": s.executed, "cov": s.cov, "ft": s.ft, "corpus_size_end": s.corp, "corpus_bytes_end": s.corp_bytes, "exec_per_s": s.exec_s, "new_units_added": s.new_units, "peak_rss_mb": s.peak_rss_mb}))
            .collect();
        let mx = |f: &dyn Fn(&JobStats) -> Option<u64>| stats.iter().filter_map(|s| f(s)).max();
        self.push_fuzz_evidence(json!({
            "target": t.name, "engine": "libFuzzer (cargo-fuzz, ASan, debug assertions)", "runs_per_job": runs, "jobs": jobs, "seed": seed,
            "executed_units": executed, "cov_max": mx(&|s| s.cov), "ft_max": mx(&|s| s.ft), "corpus_size_end_max": mx(&|s| s.corp),
            "seed_corpus_files": load_seeds(&self.root, t.name).len(), "wall_s": (wall * 10.0).round() / 10.0, "exit": code,
            "crash_artifacts": crashes.len(), "per_job": per_job,
        }));
        println!("FUZZ property={} target={} runs_per_job={} jobs={} seed={} executed={} cov_max={:?} ft_max={:?} wall_s={:.0} exit={}", self.id, t.name, runs, jobs, seed, executed, mx(&|s| s.cov), mx(&|s| s.ft), wall, code);
        let mut bound_artifacts = 0;
        for (jseed, art) in &crashes {
            let fname = art.file_name().map(|f| f.to_string_lossy().into_owned()).unwrap_or_default();
            let Ok(bytes) = std::fs::read(art) else {
                self.hard_inconclusive.push(format!("{sub}: crash artifact {} cannot be read", art.display()));
                continue;
            };
            if fname.starts_with("oom-") || fname.starts_with("timeout-") {
                // libFuzzer's rss / per-input time limit: a bound, not a verdict. The input is kept.
                let keep = self.keep_artifact(t.name, &bytes, fname.split('-').next().unwrap_or("bound"));
                self.hard_inconclusive.push(format!("{sub}: libFuzzer {} (input kept as {})", fname.split('-').next().unwrap_or(""), keep.display()));
                bound_artifacts += 1;
                continue;
            }
            // the check binary links the same oracle: re-execute in-process for signature + detail
            super::install_hook();
            let (sig, detail, note) = match eval(t.entry, &bytes) {
                Outcome::Fail { signature, detail } => (signature, detail, format!("libFuzzer crash artifact (job seed {jseed}); reproduced in-process")),
                _ => (
                    format!("{}:fuzz-crash-not-reproduced-in-process:{}", self.id, t.name),
                    json!({"libfuzzer_output": text.lines().filter(|l| l.contains("VIOLATION") || l.contains("panicked at") || l.contains("ERROR: ")).take(5).collect::<Vec<_>>()}),
                    format!("libFuzzer crash artifact (job seed {jseed}); NOT reproduced by the (non-sanitizer, opt-level 1) check binary: re-run with `cargo +nightly fuzz run --fuzz-dir {}/fuzz {} <the .bin next to this file>`", self.root.display(), t.name),
                ),
            };
            let bin = self.keep_artifact(t.name, &bytes, "found");
            let note = format!("{note}; raw input: {}", bin.display());
            self.record_fail(&sub, &sig, &HexCase::of(&bytes), &detail, &note, None);
        }
        match code {
            0 => {}
            1 if !crashes.is_empty() => {}
            _ => {
                let why: Vec<&str> = text.lines().filter(|l| l.starts_with("run_fuzz:")).take(4).collect();
                self.hard_inconclusive.push(format!("{sub}: run_fuzz.sh exit {code} ({})", why.join(" | ")));
            }
        }
        if code == 0 && executed < runs.saturating_mul(jobs as u64) {
            self.hard_inconclusive.push(format!("{sub}: libFuzzer executed {executed} units, fewer than the requested {runs} x {jobs}"));
        }
        let _ = bound_artifacts;
    }

    fn keep_artifact(&self, target: &str, bytes: &[u8], prefix: &str) -> PathBuf {
        let dir = self.replay_dir();
        let _ = std::fs::create_dir_all(&dir);
        let p = dir.join(format!("{prefix}-fuzz-{target}-{:016x}.bin", crate::fnv(bytes)));
        let _ = std::fs::write(&p, bytes);
        p
    }

    fn push_fuzz_evidence(&mut self, v: Value) {
        let e = self.extra.entry("fuzz".to_string()).or_insert_with(|| json!([]));
        if let Some(a) = e.as_array_mut() {
            a.push(v);
        }
    }
}
