//! Deterministic in-memory duplex byte pipe.
//!
//! Each direction is a byte queue plus a *script* consumed one entry per poll that has work to
//! do: reads deliver at most `n` bytes or return `Pending` (self-waking), writes accept at most
//! `n` bytes or return `Pending` (self-waking). When the script is exhausted a default chunk size
//! is used. Optional bounded capacity gives real back-pressure. Faults: XOR-corruption of bytes at
//! absolute stream offsets, truncation at an offset (bytes beyond are dropped and EOF is
//! signalled), raw injection / draining. No threads, no clocks.

use futures::io::{AsyncRead, AsyncWrite};
use serde::{Deserialize, Serialize};
use std::collections::VecDeque;
use std::io;
use std::pin::Pin;
use std::sync::{Arc, Mutex};
use std::task::{Context, Poll, Waker};

/// One scripted poll decision. `Chunk(0)` means "Pending once (self-wake)".
#[derive(Clone, Copy, Debug, PartialEq, Eq, Serialize, Deserialize)]
pub enum Step {
    /// transfer at most n (>=1) bytes in this poll
    Chunk(u16),
    /// return Poll::Pending once and wake immediately
    Pending,
}

/// Chunking / readiness script of one direction (used for the reader side and the writer side).
#[derive(Clone, Debug, Default, PartialEq, Eq, Serialize, Deserialize)]
pub struct Script {
    pub steps: Vec<Step>,
    /// chunk size once `steps` is exhausted; 0 = unlimited
    pub default_chunk: u16,
}

impl Script {
    pub fn whole() -> Self {
        Script { steps: vec![], default_chunk: 0 }
    }
    pub fn bytewise() -> Self {
        Script { steps: vec![], default_chunk: 1 }
    }
    pub fn chunks(n: u16) -> Self {
        Script { steps: vec![], default_chunk: n }
    }
}

#[derive(Default)]
struct Dir {
    buf: VecDeque<u8>,
    /// writer side closed (poll_close or drop) → reader sees EOF after draining
    closed: bool,
    /// reader side gone → writes fail with BrokenPipe
    reader_gone: bool,
    read_script: VecDeque<Step>,
    read_default: u16,
    write_script: VecDeque<Step>,
    write_default: u16,
    capacity: Option<usize>,
    reader_waker: Option<Waker>,
    writer_waker: Option<Waker>,
    /// total bytes accepted from the writer
    written: u64,
    /// total bytes handed to the reader
    pulled: u64,
    /// number of read polls that delivered data
    reads: u64,
    corrupt: Vec<(u64, u8)>,
    truncate_at: Option<u64>,
    fail_read: Option<io::ErrorKind>,
    fail_write: Option<io::ErrorKind>,
    /// copy of everything accepted from the writer (after corruption), if tapping is enabled
    tap: Option<Vec<u8>>,
}

impl Dir {
    fn wake_reader(&mut self) {
        if let Some(w) = self.reader_waker.take() {
            w.wake();
        }
    }
    fn wake_writer(&mut self) {
        if let Some(w) = self.writer_waker.take() {
            w.wake();
        }
    }
    fn push(&mut self, data: &[u8]) {
        for &b in data {
            let off = self.written;
            self.written += 1;
            if let Some(t) = self.truncate_at {
                if off >= t {
                    self.closed = true;
                    continue;
                }
            }
            let mut b = b;
            for (o, x) in &self.corrupt {
                if *o == off {
                    b ^= *x;
                }
            }
            if let Some(t) = self.tap.as_mut() {
                t.push(b);
            }
            self.buf.push_back(b);
        }
        if let Some(t) = self.truncate_at {
            if self.written >= t {
                self.closed = true;
            }
        }
    }
}

struct Shared {
    /// dirs[0]: A→B, dirs[1]: B→A
    dirs: [Mutex<Dir>; 2],
}

struct EndGuard {
    shared: Arc<Shared>,
    side: usize, // 0 = A, 1 = B
}

impl Drop for EndGuard {
    fn drop(&mut self) {
        // my outgoing direction closes; my incoming direction loses its reader
        let mut out = self.shared.dirs[self.side].lock().unwrap();
        out.closed = true;
        out.wake_reader();
        drop(out);
        let mut inc = self.shared.dirs[1 - self.side].lock().unwrap();
        inc.reader_gone = true;
        inc.wake_writer();
    }
}

/// One end of the pipe. Clones refer to the same end; the end closes when the last clone drops.
#[derive(Clone)]
pub struct Duplex {
    guard: Arc<EndGuard>,
}

/// Configuration of one direction.
#[derive(Clone, Debug, Default, PartialEq, Eq, Serialize, Deserialize)]
pub struct DirCfg {
    pub read: Script,
    pub write: Script,
    /// maximum queued bytes (None = unbounded)
    pub capacity: Option<u32>,
}

impl DirCfg {
    pub fn plain() -> Self {
        Self::default()
    }
}

pub fn pair(a_to_b: DirCfg, b_to_a: DirCfg) -> (Duplex, Duplex) {
    let mk = |c: DirCfg| {
        Mutex::new(Dir {
            read_script: c.read.steps.into_iter().collect(),
            read_default: c.read.default_chunk,
            write_script: c.write.steps.into_iter().collect(),
            write_default: c.write.default_chunk,
            capacity: c.capacity.map(|c| c.max(1) as usize),
            ..Default::default()
        })
    };
    let shared = Arc::new(Shared { dirs: [mk(a_to_b), mk(b_to_a)] });
    (
        Duplex { guard: Arc::new(EndGuard { shared: shared.clone(), side: 0 }) },
        Duplex { guard: Arc::new(EndGuard { shared, side: 1 }) },
    )
}

pub fn plain_pair() -> (Duplex, Duplex) {
    pair(DirCfg::default(), DirCfg::default())
}

impl Duplex {
    fn out(&self) -> std::sync::MutexGuard<'_, Dir> {
        self.guard.shared.dirs[self.guard.side].lock().unwrap()
    }
    fn inc(&self) -> std::sync::MutexGuard<'_, Dir> {
        self.guard.shared.dirs[1 - self.guard.side].lock().unwrap()
    }
    /// bytes this end has pulled out of its incoming direction
    pub fn pulled(&self) -> u64 {
        self.inc().pulled
    }
    /// number of read polls on this end that delivered data
    pub fn reads(&self) -> u64 {
        self.inc().reads
    }
    /// bytes this end has written into its outgoing direction
    pub fn written(&self) -> u64 {
        self.out().written
    }
    /// bytes queued towards this end and not yet read
    pub fn incoming_queued(&self) -> usize {
        self.inc().buf.len()
    }
    /// bytes written by this end and not yet read by the peer
    pub fn outgoing_queued(&self) -> usize {
        self.out().buf.len()
    }
    /// inject bytes into this end's *incoming* direction as if the peer had written them
    pub fn push_raw(&self, data: &[u8]) {
        let mut d = self.inc();
        d.push(data);
        d.wake_reader();
    }
    /// drain everything this end has written and the peer has not read yet
    pub fn take_raw(&self) -> Vec<u8> {
        let mut d = self.out();
        let v: Vec<u8> = d.buf.drain(..).collect();
        d.wake_writer();
        v
    }
    /// signal EOF on this end's incoming direction (as if the peer closed)
    pub fn close_incoming(&self) {
        let mut d = self.inc();
        d.closed = true;
        d.wake_reader();
    }
    /// whether this end's outgoing direction was closed (poll_close called or end dropped)
    pub fn outgoing_closed(&self) -> bool {
        self.out().closed
    }
    pub fn incoming_closed(&self) -> bool {
        self.inc().closed
    }
    /// XOR the byte at absolute offset `off` of this end's *outgoing* stream with `xor`
    pub fn corrupt_outgoing(&self, off: u64, xor: u8) {
        self.out().corrupt.push((off, xor));
    }
    /// drop everything this end writes from absolute offset `off` on and signal EOF to the peer
    pub fn truncate_outgoing(&self, off: u64) {
        let mut d = self.out();
        d.truncate_at = Some(off);
        if d.written >= off {
            d.closed = true;
            d.wake_reader();
        }
    }
    pub fn fail_reads(&self, kind: io::ErrorKind) {
        let mut d = self.inc();
        d.fail_read = Some(kind);
        d.wake_reader();
    }
    pub fn fail_writes(&self, kind: io::ErrorKind) {
        self.out().fail_write = Some(kind);
    }
    /// record everything this end writes (after corruption)
    pub fn tap_outgoing(&self) {
        self.out().tap = Some(vec![]);
    }
    pub fn tapped_outgoing(&self) -> Vec<u8> {
        self.out().tap.clone().unwrap_or_default()
    }
    /// replace the read script of this end's incoming direction
    pub fn set_read_script(&self, s: Script) {
        let mut d = self.inc();
        d.read_script = s.steps.into_iter().collect();
        d.read_default = s.default_chunk;
    }
    pub fn set_capacity_incoming(&self, cap: Option<usize>) {
        self.inc().capacity = cap;
    }
}

impl AsyncRead for Duplex {
    fn poll_read(self: Pin<&mut Self>, cx: &mut Context<'_>, buf: &mut [u8]) -> Poll<io::Result<usize>> {
        let mut d = self.inc();
        if let Some(k) = d.fail_read {
            return Poll::Ready(Err(k.into()));
        }
        if buf.is_empty() {
            return Poll::Ready(Ok(0));
        }
        if d.buf.is_empty() {
            if d.closed {
                return Poll::Ready(Ok(0));
            }
            d.reader_waker = Some(cx.waker().clone());
            return Poll::Pending;
        }
        let step = d.read_script.pop_front().unwrap_or(Step::Chunk(d.read_default));
        let n = match step {
            Step::Pending => {
                cx.waker().wake_by_ref();
                return Poll::Pending;
            }
            Step::Chunk(0) => usize::MAX,
            Step::Chunk(n) => n as usize,
        };
        let n = n.min(buf.len()).min(d.buf.len());
        for slot in buf.iter_mut().take(n) {
            *slot = d.buf.pop_front().unwrap();
        }
        d.pulled += n as u64;
        d.reads += 1;
        d.wake_writer();
        Poll::Ready(Ok(n))
    }
}

impl AsyncWrite for Duplex {
    fn poll_write(self: Pin<&mut Self>, cx: &mut Context<'_>, data: &[u8]) -> Poll<io::Result<usize>> {
        let mut d = self.out();
        if let Some(k) = d.fail_write {
            return Poll::Ready(Err(k.into()));
        }
        if d.closed && d.truncate_at.is_none() {
            return Poll::Ready(Err(io::ErrorKind::BrokenPipe.into()));
        }
        if d.reader_gone {
            return Poll::Ready(Err(io::ErrorKind::BrokenPipe.into()));
        }
        if data.is_empty() {
            return Poll::Ready(Ok(0));
        }
        let room = match d.capacity {
            Some(c) => c.saturating_sub(d.buf.len()),
            None => usize::MAX,
        };
        if room == 0 {
            d.writer_waker = Some(cx.waker().clone());
            return Poll::Pending;
        }
        let step = d.write_script.pop_front().unwrap_or(Step::Chunk(d.write_default));
        let n = match step {
            Step::Pending => {
                cx.waker().wake_by_ref();
                return Poll::Pending;
            }
            Step::Chunk(0) => usize::MAX,
            Step::Chunk(n) => n as usize,
        };
        let n = n.min(data.len()).min(room);
        d.push(&data[..n]);
        d.wake_reader();
        Poll::Ready(Ok(n))
    }

    fn poll_flush(self: Pin<&mut Self>, _cx: &mut Context<'_>) -> Poll<io::Result<()>> {
        let d = self.out();
        if let Some(k) = d.fail_write {
            return Poll::Ready(Err(k.into()));
        }
        Poll::Ready(Ok(()))
    }

    fn poll_close(self: Pin<&mut Self>, _cx: &mut Context<'_>) -> Poll<io::Result<()>> {
        let mut d = self.out();
        d.closed = true;
        d.wake_reader();
        Poll::Ready(Ok(()))
    }
}

// ---------------------------------------------------------------------------------------------
// proptest strategies for scripts

use proptest::prelude::*;

pub fn step_strategy() -> impl Strategy<Value = Step> {
    prop_oneof![
        6 => (1u16..=8).prop_map(Step::Chunk),
        2 => (9u16..=300).prop_map(Step::Chunk),
        1 => Just(Step::Chunk(0)),
        2 => Just(Step::Pending),
    ]
}

pub fn script_strategy(max_steps: usize) -> impl Strategy<Value = Script> {
    (
        proptest::collection::vec(step_strategy(), 0..=max_steps),
        prop_oneof![Just(0u16), Just(1u16), Just(2u16), Just(3u16), 4u16..=64, Just(1024u16)],
    )
        .prop_map(|(steps, default_chunk)| Script { steps, default_chunk })
}

pub fn dircfg_strategy(max_steps: usize) -> impl Strategy<Value = DirCfg> {
    (script_strategy(max_steps), script_strategy(max_steps)).prop_map(|(read, write)| DirCfg { read, write, capacity: None })
}

#[cfg(test)]
mod tests {
    use super::*;
    use futures::{AsyncReadExt, AsyncWriteExt};

    #[test]
    fn roundtrip_bytewise() {
        futures::executor::block_on(async {
            let (mut a, mut b) = pair(DirCfg { read: Script::bytewise(), write: Script::chunks(3), capacity: None }, DirCfg::default());
            a.write_all(b"hello world").await.unwrap();
            a.close().await.unwrap();
            let mut v = vec![];
            b.read_to_end(&mut v).await.unwrap();
            assert_eq!(v, b"hello world");
            assert_eq!(b.pulled(), 11);
        });
    }
}
