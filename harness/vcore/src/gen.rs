//! Shared generators: key pool, peer ids, multiaddr alphabet, byte mutations.

use libp2p_identity::{self as identity, Keypair, PeerId};
use multiaddr::{Multiaddr, Protocol};
use proptest::prelude::*;
use serde::{Deserialize, Serialize};
use std::net::{Ipv4Addr, Ipv6Addr};
use std::sync::OnceLock;

pub struct KeyPool {
    pub ed25519: Vec<Keypair>,
    pub secp256k1: Vec<Keypair>,
    pub ecdsa: Vec<Keypair>,
    pub rsa: Vec<Keypair>,
}

impl KeyPool {
    /// all keys, cheap ones first (ed25519, secp256k1, ecdsa, rsa)
    pub fn all(&self) -> Vec<&Keypair> {
        self.ed25519.iter().chain(&self.secp256k1).chain(&self.ecdsa).chain(&self.rsa).collect()
    }
    /// keys whose sign/verify is cheap (no RSA)
    pub fn cheap(&self) -> Vec<&Keypair> {
        self.ed25519.iter().chain(&self.secp256k1).chain(&self.ecdsa).collect()
    }
}

/// Fixed pool, derived from constant seeds so that runs are pure.
pub fn keys() -> &'static KeyPool {
    static POOL: OnceLock<KeyPool> = OnceLock::new();
    POOL.get_or_init(|| {
        let seed = |tag: u8, i: u8| -> [u8; 32] {
            let mut s = [0u8; 32];
            for (k, b) in s.iter_mut().enumerate() {
                *b = (k as u8).wrapping_mul(31).wrapping_add(tag).wrapping_add(i.wrapping_mul(77)) | 1;
            }
            s[0] = tag;
            s[1] = i + 1;
            s
        };
        let ed25519 = (0..4).map(|i| Keypair::ed25519_from_bytes(seed(0xE1, i)).unwrap()).collect();
        let secp256k1 = (0..3)
            .map(|i| {
                let sk = identity::secp256k1::SecretKey::try_from_bytes(seed(0x51, i)).unwrap();
                Keypair::from(identity::secp256k1::Keypair::from(sk))
            })
            .collect();
        let ecdsa = (0..3)
            .map(|i| {
                let sk = identity::ecdsa::SecretKey::try_from_bytes(seed(0x21, i)).unwrap();
                Keypair::from(identity::ecdsa::Keypair::from(sk))
            })
            .collect();
        let mut rsa = vec![];
        for f in ["rsa-2048.pk8", "rsa-3072.pk8"] {
            if let Ok(mut b) = std::fs::read(format!("/repo/identity/src/test/{f}")) {
                if let Ok(k) = Keypair::rsa_from_pkcs8(&mut b) {
                    rsa.push(k);
                }
            }
        }
        KeyPool { ed25519, secp256k1, ecdsa, rsa }
    })
}

/// A fixed pool of 8 peer ids (ed25519 keys 0..3, secp 0..1, ecdsa 0..1).
pub fn peers() -> &'static Vec<PeerId> {
    static P: OnceLock<Vec<PeerId>> = OnceLock::new();
    P.get_or_init(|| {
        let k = keys();
        k.ed25519.iter().chain(k.secp256k1.iter().take(2)).chain(k.ecdsa.iter().take(2)).map(|k| k.public().to_peer_id()).collect()
    })
}

pub fn peer(i: usize) -> PeerId {
    let p = peers();
    p[i % p.len()]
}

/// Deterministic peer id from a counter (identity multihash of a fake ed25519 public key is not
/// a valid key, so use sha256-style random ids): `PeerId::from_bytes` of a sha2-256 multihash.
pub fn synthetic_peer(n: u64) -> PeerId {
    let mut bytes = vec![0x12, 0x20];
    let mut x = n.wrapping_mul(0x9E3779B97F4A7C15) ^ 0xD1B54A32D192ED03;
    for _ in 0..4 {
        x ^= x << 13;
        x ^= x >> 7;
        x ^= x << 17;
        bytes.extend_from_slice(&x.to_be_bytes());
    }
    PeerId::from_bytes(&bytes).expect("valid sha2-256 multihash")
}

// ---------------------------------------------------------------------------------------------
// multiaddr component alphabet (serialisable so that cases can be replayed)

#[derive(Clone, Debug, PartialEq, Eq, Hash, Serialize, Deserialize)]
pub enum Comp {
    Ip4([u8; 4]),
    Ip6([u16; 8]),
    Dns(String),
    Dns4(String),
    Dns6(String),
    Dnsaddr(String),
    Tcp(u16),
    Udp(u16),
    Quic,
    QuicV1,
    WebTransport,
    WebRTCDirect,
    Ws,
    Wss,
    Tls,
    Noise,
    P2p(u8),
    P2pCircuit,
    Memory(u64),
    Unix(String),
    Http,
}

impl Comp {
    pub fn to_protocol(&self) -> Protocol<'static> {
        match self {
            Comp::Ip4(a) => Protocol::Ip4(Ipv4Addr::from(*a)),
            Comp::Ip6(a) => Protocol::Ip6(Ipv6Addr::new(a[0], a[1], a[2], a[3], a[4], a[5], a[6], a[7])),
            Comp::Dns(s) => Protocol::Dns(s.clone().into()),
            Comp::Dns4(s) => Protocol::Dns4(s.clone().into()),
            Comp::Dns6(s) => Protocol::Dns6(s.clone().into()),
            Comp::Dnsaddr(s) => Protocol::Dnsaddr(s.clone().into()),
            Comp::Tcp(p) => Protocol::Tcp(*p),
            Comp::Udp(p) => Protocol::Udp(*p),
            Comp::Quic => Protocol::Quic,
            Comp::QuicV1 => Protocol::QuicV1,
            Comp::WebTransport => Protocol::WebTransport,
            Comp::WebRTCDirect => Protocol::WebRTCDirect,
            Comp::Ws => Protocol::Ws("/".into()),
            Comp::Wss => Protocol::Wss("/".into()),
            Comp::Tls => Protocol::Tls,
            Comp::Noise => Protocol::Noise,
            Comp::P2p(i) => Protocol::P2p(peer(*i as usize)),
            Comp::P2pCircuit => Protocol::P2pCircuit,
            Comp::Memory(n) => Protocol::Memory(*n),
            Comp::Unix(s) => Protocol::Unix(s.clone().into()),
            Comp::Http => Protocol::Http,
        }
    }
    pub fn is_ip(&self) -> bool {
        matches!(self, Comp::Ip4(_) | Comp::Ip6(_))
    }
    pub fn is_dns(&self) -> bool {
        matches!(self, Comp::Dns(_) | Comp::Dns4(_) | Comp::Dns6(_) | Comp::Dnsaddr(_))
    }
}

pub fn build_addr(comps: &[Comp]) -> Multiaddr {
    let mut m = Multiaddr::empty();
    for c in comps {
        m.push(c.to_protocol());
    }
    m
}

pub const PRIVATE_V4: &[[u8; 4]] = &[[10, 0, 0, 1], [10, 255, 255, 254], [192, 168, 1, 7], [172, 16, 0, 1], [172, 31, 255, 1], [127, 0, 0, 1], [169, 254, 3, 4]];
pub const PUBLIC_V4: &[[u8; 4]] = &[[1, 2, 3, 4], [8, 8, 8, 8], [172, 32, 0, 1], [11, 0, 0, 1], [193, 0, 0, 1]];
pub const PRIVATE_V6: &[[u16; 8]] = &[[0, 0, 0, 0, 0, 0, 0, 1], [0xfe80, 0, 0, 0, 0, 0, 0, 1], [0xfd00, 0, 0, 0, 0, 0, 0, 9], [0xfc00, 1, 0, 0, 0, 0, 0, 2]];
pub const PUBLIC_V6: &[[u16; 8]] = &[[0x2606, 0x4700, 0, 0, 0, 0, 0, 0x1111], [0x2a00, 0x1450, 0x4001, 0, 0, 0, 0, 0x200e]];
pub const DNS_LOCAL: &[&str] = &["localhost", "x.localhost", "a.b.localhost"];
pub const DNS_GLOBAL: &[&str] = &["example.com", "bootstrap.libp2p.io", "localhost.example.org", "notlocalhost"];

pub fn ip_comp() -> impl Strategy<Value = Comp> {
    prop_oneof![
        proptest::sample::select(PRIVATE_V4).prop_map(Comp::Ip4),
        proptest::sample::select(PUBLIC_V4).prop_map(Comp::Ip4),
        proptest::sample::select(PRIVATE_V6).prop_map(Comp::Ip6),
        proptest::sample::select(PUBLIC_V6).prop_map(Comp::Ip6),
    ]
}

pub fn dns_name() -> impl Strategy<Value = String> {
    prop_oneof![
        proptest::sample::select(DNS_LOCAL).prop_map(|s| s.to_string()),
        proptest::sample::select(DNS_GLOBAL).prop_map(|s| s.to_string()),
    ]
}

pub fn dns_comp() -> impl Strategy<Value = Comp> {
    prop_oneof![
        dns_name().prop_map(Comp::Dns),
        dns_name().prop_map(Comp::Dns4),
        dns_name().prop_map(Comp::Dns6),
        dns_name().prop_map(Comp::Dnsaddr),
    ]
}

pub fn port() -> impl Strategy<Value = u16> {
    prop_oneof![Just(1u16), Just(443u16), Just(4001u16), Just(65535u16), Just(0u16)]
}

/// transport suffix after a host: tcp, tcp/ws, udp/quic-v1, udp/quic-v1/webtransport, udp/webrtc-direct …
pub fn transport_suffix() -> impl Strategy<Value = Vec<Comp>> {
    prop_oneof![
        3 => port().prop_map(|p| vec![Comp::Tcp(p)]),
        1 => port().prop_map(|p| vec![Comp::Tcp(p), Comp::Ws]),
        1 => port().prop_map(|p| vec![Comp::Tcp(p), Comp::Tls, Comp::Ws]),
        3 => port().prop_map(|p| vec![Comp::Udp(p), Comp::QuicV1]),
        1 => port().prop_map(|p| vec![Comp::Udp(p), Comp::Quic]),
        1 => port().prop_map(|p| vec![Comp::Udp(p), Comp::QuicV1, Comp::WebTransport]),
        1 => port().prop_map(|p| vec![Comp::Udp(p), Comp::WebRTCDirect]),
        1 => port().prop_map(|p| vec![Comp::Udp(p)]),
        1 => Just(vec![]),
    ]
}

/// A "realistic" dialable address: host + transport [+ /p2p/X] [+ /p2p-circuit [+ /p2p/Y]]
pub fn dial_addr() -> impl Strategy<Value = Vec<Comp>> {
    let host = prop_oneof![4 => ip_comp(), 2 => dns_comp()];
    (host, transport_suffix(), proptest::option::weighted(0.3, 0u8..4), proptest::option::weighted(0.25, proptest::option::of(0u8..4))).prop_map(
        |(h, t, p2p, relay)| {
            let mut v = vec![h];
            v.extend(t);
            if let Some(p) = p2p {
                v.push(Comp::P2p(p));
            }
            if let Some(r) = relay {
                if p2p.is_none() {
                    v.push(Comp::P2p(0));
                }
                v.push(Comp::P2pCircuit);
                if let Some(y) = r {
                    v.push(Comp::P2p(y));
                }
            }
            v
        },
    )
}

/// Any component from the alphabet.
pub fn any_comp() -> impl Strategy<Value = Comp> {
    prop_oneof![
        4 => ip_comp(),
        3 => dns_comp(),
        2 => port().prop_map(Comp::Tcp),
        2 => port().prop_map(Comp::Udp),
        1 => Just(Comp::Quic),
        1 => Just(Comp::QuicV1),
        1 => Just(Comp::WebTransport),
        1 => Just(Comp::WebRTCDirect),
        1 => Just(Comp::Ws),
        1 => Just(Comp::Tls),
        2 => (0u8..4).prop_map(Comp::P2p),
        1 => Just(Comp::P2pCircuit),
        1 => (0u64..4).prop_map(Comp::Memory),
    ]
}

/// Free-form sequences of 1..=max components (valid by construction, never parsed).
pub fn comp_seq(max: usize) -> impl Strategy<Value = Vec<Comp>> {
    proptest::collection::vec(any_comp(), 1..=max)
}

// ---------------------------------------------------------------------------------------------
// structure-aware byte mutations (the mutation list is the shrinkable value)

#[derive(Clone, Debug, PartialEq, Eq, Serialize, Deserialize)]
pub enum Mutation {
    /// XOR byte at (pos scaled into the buffer) with x (x != 0)
    Flip { pos: u16, x: u8 },
    /// cut the buffer at pos
    Truncate { pos: u16 },
    /// duplicate `len` bytes starting at pos
    Dup { pos: u16, len: u8 },
    /// remove `len` bytes starting at pos
    Remove { pos: u16, len: u8 },
    /// insert bytes at pos
    Insert { pos: u16, bytes: Vec<u8> },
    /// overwrite byte at pos with v
    Set { pos: u16, v: u8 },
}

pub fn mutation() -> impl Strategy<Value = Mutation> {
    prop_oneof![
        4 => (any::<u16>(), 1u8..=255).prop_map(|(pos, x)| Mutation::Flip { pos, x }),
        1 => any::<u16>().prop_map(|pos| Mutation::Truncate { pos }),
        1 => (any::<u16>(), 1u8..16).prop_map(|(pos, len)| Mutation::Dup { pos, len }),
        1 => (any::<u16>(), 1u8..16).prop_map(|(pos, len)| Mutation::Remove { pos, len }),
        1 => (any::<u16>(), proptest::collection::vec(any::<u8>(), 1..6)).prop_map(|(pos, bytes)| Mutation::Insert { pos, bytes }),
        2 => (any::<u16>(), prop_oneof![Just(0u8), Just(0xffu8), Just(0x80u8), Just(0x7fu8), any::<u8>()]).prop_map(|(pos, v)| Mutation::Set { pos, v }),
    ]
}

pub fn apply_mutations(buf: &[u8], muts: &[Mutation]) -> Vec<u8> {
    let mut b = buf.to_vec();
    for m in muts {
        if b.is_empty() {
            if let Mutation::Insert { bytes, .. } = m {
                b.extend_from_slice(bytes);
            }
            continue;
        }
        let at = |pos: u16, len: usize| crate::pick(pos, len);
        match m {
            Mutation::Flip { pos, x } => {
                let i = at(*pos, b.len());
                b[i] ^= *x;
            }
            Mutation::Truncate { pos } => {
                let i = at(*pos, b.len());
                b.truncate(i);
            }
            Mutation::Dup { pos, len } => {
                let i = at(*pos, b.len());
                let e = (i + *len as usize).min(b.len());
                let seg = b[i..e].to_vec();
                let mut nb = b[..e].to_vec();
                nb.extend(seg);
                nb.extend_from_slice(&b[e..]);
                b = nb;
            }
            Mutation::Remove { pos, len } => {
                let i = at(*pos, b.len());
                let e = (i + *len as usize).min(b.len());
                b.drain(i..e);
            }
            Mutation::Insert { pos, bytes } => {
                let i = at(*pos, b.len() + 1);
                let tail = b.split_off(i);
                b.extend_from_slice(bytes);
                b.extend(tail);
            }
            Mutation::Set { pos, v } => {
                let i = at(*pos, b.len());
                b[i] = *v;
            }
        }
    }
    b
}

/// position classes for a mutated offset, given named (start,end) regions
pub fn region_of<'a>(regions: &'a [(&'static str, usize, usize)], off: usize) -> &'static str {
    for (n, s, e) in regions {
        if off >= *s && off < *e {
            return n;
        }
    }
    "other"
}
