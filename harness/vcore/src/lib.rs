//! vcore: shared engine for the rust-libp2p property checks.
//!
//! * `runner`  — proptest-driven case search, shrinking, replay files, evidence, exit codes
//! * `simio`   — deterministic in-memory byte pipe with scripted chunking / readiness / faults
//! * `simexec` — simulation executor (the harness owns which task is polled next)
//! * `gen`     — shared generators (multiaddr alphabet, keys, byte mutations)
//! * `refcodec`— tiny reference encoders written independently of the code under test

pub mod gen;
pub mod refcodec;
pub mod runner;
pub mod simexec;
pub mod simio;

pub use runner::fuzzstage::{self as fuzz, FuzzEntry, FuzzTarget, FuzzVerdict, HexCase};
pub use runner::{Ctx, Outcome, Tier};

/// Monotone index map recommended for shrinking: maps a generated u16 onto 0..len.
#[inline]
pub fn pick(i: u16, len: usize) -> usize {
    if len == 0 {
        return 0;
    }
    ((i as usize) * len) >> 16
}

/// FNV-1a 64.
pub fn fnv(bytes: &[u8]) -> u64 {
    let mut h: u64 = 0xcbf29ce484222325;
    for b in bytes {
        h ^= *b as u64;
        h = h.wrapping_mul(0x100000001b3);
    }
    h
}
