#!/bin/bash
# MANIFEST.setup_cmd: cold-build every check binary offline from files on disk.
set -u
ROOT=$(cd "$(dirname "$0")" && pwd)
export CARGO_NET_OFFLINE=true
unset RUSTFLAGS
cd "$ROOT/harness" || exit 1
cargo build --workspace 2>&1 | tail -5
exit ${PIPESTATUS[0]}
